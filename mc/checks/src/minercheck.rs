//! Recomputation oracles over a decoded miner view: everything derived from the individual
//! sectors (C04) and the collateral ledgers (C03). Written from the protocol's definitions.
use crate::miner::*;
use fil_actor_miner::{QuantSpec, SectorOnChainInfo};
use fvm_shared::bigint::BigInt;
use fvm_shared::econ::TokenAmount;
use num_traits::Zero;
use std::collections::{BTreeMap, BTreeSet};

fn power_of(infos: &BTreeMap<u64, SectorOnChainInfo>, set: impl IntoIterator<Item = u64>) -> Result<PP, String> {
    let mut raw = BigInt::zero();
    let mut qa = BigInt::zero();
    for s in set {
        let i = infos.get(&s).ok_or_else(|| format!("sector {s} referenced by a partition has no on-chain info"))?;
        let p = fil_actor_miner::power_for_sector(i.seal_proof.sector_size().unwrap(), i);
        raw += p.raw;
        qa += p.qa;
    }
    Ok((raw, qa))
}

/// C04: the sets of a partition nest/exclude as the protocol defines and every memo equals what
/// is recomputed from the individual sectors.
pub fn check_partition(tag: &str, p: &PartView, infos: &BTreeMap<u64, SectorOnChainInfo>, quant: QuantSpec) -> Result<(), String> {
    let e = |m: String| format!("{tag}: {m}");
    if !p.terminated.is_subset(&p.sectors) {
        return Err(e("terminated sectors not a subset of the partition's sectors".into()));
    }
    let live: BTreeSet<u64> = p.sectors.difference(&p.terminated).cloned().collect();
    if !p.faults.is_subset(&live) {
        return Err(e(format!("faults {:?} not a subset of live {:?}", p.faults, live)));
    }
    if !p.recoveries.is_subset(&p.faults) {
        return Err(e(format!("recoveries {:?} not a subset of faults {:?}", p.recoveries, p.faults)));
    }
    if !p.unproven.is_subset(&live) {
        return Err(e(format!("unproven {:?} not a subset of live {:?}", p.unproven, live)));
    }
    if p.unproven.intersection(&p.faults).next().is_some() {
        return Err(e("a sector is both unproven and faulty".into()));
    }
    let chk = |name: &str, memo: &PP, set: &BTreeSet<u64>| -> Result<(), String> {
        let want = power_of(infos, set.iter().cloned()).map_err(|m| e(m))?;
        if &want != memo {
            return Err(e(format!("{name} power memo {:?} != recomputed from sectors {:?} = {:?}", memo, set, want)));
        }
        Ok(())
    };
    chk("live", &p.live_power, &live)?;
    chk("unproven", &p.unproven_power, &p.unproven)?;
    chk("faulty", &p.faulty_power, &p.faults)?;
    chk("recovering", &p.recovering_power, &p.recoveries)?;

    // expiration queue: each live sector exactly once
    let mut seen: BTreeMap<u64, i64> = BTreeMap::new();
    for (epoch, q) in &p.queue {
        if quant.quantize_up(*epoch) != *epoch {
            return Err(e(format!("queue epoch {epoch} is not quantised")));
        }
        if q.on_time.is_empty() && q.early.is_empty() {
            return Err(e(format!("empty queue entry at {epoch}")));
        }
        for s in q.on_time.iter().chain(q.early.iter()) {
            if let Some(prev) = seen.insert(*s, *epoch) {
                return Err(e(format!("sector {s} appears in the expiration queue twice ({prev} and {epoch})")));
            }
            if !live.contains(s) {
                return Err(e(format!("non-live sector {s} in the expiration queue at {epoch}")));
            }
        }
        for s in &q.on_time {
            let want = quant.quantize_up(infos[s].expiration);
            if want != *epoch {
                return Err(e(format!("sector {s} scheduled on-time at {epoch}, its expiration {} quantises to {want}", infos[s].expiration)));
            }
        }
        for s in &q.early {
            if !p.faults.contains(s) {
                return Err(e(format!("non-faulty sector {s} scheduled for early expiration at {epoch}")));
            }
            let on_time = quant.quantize_up(infos[s].expiration);
            if *epoch >= on_time {
                return Err(e(format!("sector {s} scheduled early at {epoch}, not before its on-time expiration {on_time}")));
            }
        }
        let all: BTreeSet<u64> = q.on_time.union(&q.early).cloned().collect();
        let act = power_of(infos, all.iter().cloned().filter(|s| !p.faults.contains(s))).map_err(|m| e(m))?;
        let flt = power_of(infos, all.iter().cloned().filter(|s| p.faults.contains(s))).map_err(|m| e(m))?;
        if act != q.active_power || flt != q.faulty_power {
            return Err(e(format!("queue entry {epoch}: active/faulty power {:?}/{:?} != recomputed {:?}/{:?}", q.active_power, q.faulty_power, act, flt)));
        }
        let pledge: TokenAmount = q.on_time.iter().map(|s| infos[s].initial_pledge.clone()).sum();
        if pledge != q.on_time_pledge {
            return Err(e(format!("queue entry {epoch}: on-time pledge {} != recomputed {}", q.on_time_pledge, pledge)));
        }
        let fee: TokenAmount = all.iter().map(|s| infos[s].daily_fee.clone()).sum();
        if fee != q.fee_deduction {
            return Err(e(format!("queue entry {epoch}: fee deduction {} != recomputed {}", q.fee_deduction, fee)));
        }
    }
    let queued: BTreeSet<u64> = seen.keys().cloned().collect();
    if queued != live {
        return Err(e(format!("sectors in the expiration queue {:?} != live sectors {:?}", queued, live)));
    }
    // early-termination queue holds only terminated sectors
    for (ep, ss) in &p.early_terminated {
        if !ss.is_subset(&p.terminated) {
            return Err(e(format!("early-termination queue at {ep} holds non-terminated sectors {:?}", ss)));
        }
    }
    Ok(())
}

pub fn check_deadline(tag: &str, d: &DlView, infos: &BTreeMap<u64, SectorOnChainInfo>, quant: QuantSpec) -> Result<(), String> {
    let e = |m: String| format!("{tag}: {m}");
    let mut live_n = 0u64;
    let mut total_n = 0u64;
    let mut faulty = (BigInt::zero(), BigInt::zero());
    let mut live_p = (BigInt::zero(), BigInt::zero());
    let mut fee = TokenAmount::zero();
    let mut early: BTreeSet<u64> = BTreeSet::new();
    let mut seen: BTreeSet<u64> = BTreeSet::new();
    for (pi, p) in d.parts.iter().enumerate() {
        check_partition(&format!("{tag} partition {pi}"), p, infos, quant)?;
        for s in &p.sectors {
            if !seen.insert(*s) {
                return Err(e(format!("sector {s} is in two partitions of this deadline")));
            }
        }
        let live: Vec<u64> = p.sectors.difference(&p.terminated).cloned().collect();
        live_n += live.len() as u64;
        total_n += p.sectors.len() as u64;
        faulty.0 += &p.faulty_power.0;
        faulty.1 += &p.faulty_power.1;
        live_p.0 += &p.live_power.0;
        live_p.1 += &p.live_power.1;
        for s in &live {
            fee += &infos[s].daily_fee;
        }
        if !p.early_terminated.is_empty() {
            early.insert(pi as u64);
        }
        for ep in p.queue.keys() {
            if !d.exp_index.get(ep).map(|ps| ps.contains(&(pi as u64))).unwrap_or(false) {
                return Err(e(format!("partition {pi} has a queue entry at {ep} that the deadline's expiration index does not list")));
            }
        }
    }
    if d.live_sectors != live_n || d.total_sectors != total_n {
        return Err(e(format!("sector counts live/total {}/{} != recomputed {}/{}", d.live_sectors, d.total_sectors, live_n, total_n)));
    }
    if d.faulty_power != faulty {
        return Err(e(format!("faulty power memo {:?} != sum of partitions {:?}", d.faulty_power, faulty)));
    }
    if d.live_power != live_p {
        return Err(e(format!("live power memo {:?} != sum of partitions {:?}", d.live_power, live_p)));
    }
    if d.daily_fee != fee {
        return Err(e(format!("daily fee memo {} != sum over live sectors {}", d.daily_fee, fee)));
    }
    if d.early_terminations != early {
        return Err(e(format!("early-termination index {:?} != partitions with queued early terminations {:?}", d.early_terminations, early)));
    }
    if !d.posted.iter().all(|p| (*p as usize) < d.parts.len()) {
        return Err(e("a posted partition index does not exist".into()));
    }
    Ok(())
}

/// C04 (actor level) over the whole miner.
pub fn check_bookkeeping(v: &MinerView, policy: &fil_actors_runtime::runtime::Policy) -> Result<(), String> {
    let mut seen: BTreeMap<u64, u64> = BTreeMap::new();
    let mut early_dls = BTreeSet::new();
    for (di, d) in v.dls.iter().enumerate() {
        let quant = v.st.quant_spec_for_deadline(policy, di as u64);
        check_deadline(&format!("miner {} deadline {di}", v.id), d, &v.sectors, quant)?;
        for p in &d.parts {
            for s in &p.sectors {
                if let Some(prev) = seen.insert(*s, di as u64) {
                    return Err(format!("sector {s} is assigned to deadlines {prev} and {di}"));
                }
            }
        }
        if !d.early_terminations.is_empty() {
            early_dls.insert(di as u64);
        }
    }
    for s in v.sectors.keys() {
        if !seen.contains_key(s) {
            return Err(format!("on-chain sector {s} belongs to no partition"));
        }
        if !v.allocated.contains(s) {
            return Err(format!("on-chain sector {s} is not marked allocated"));
        }
    }
    let st_early: BTreeSet<u64> = bf_set(&v.st.early_terminations);
    if st_early != early_dls {
        return Err(format!("miner early-termination index {:?} != deadlines with pending early terminations {:?}", st_early, early_dls));
    }
    Ok(())
}

/// C03 (per-miner part): recorded totals equal the sums they summarise.
pub fn check_ledgers(v: &MinerView) -> Result<(), String> {
    let mut ip = TokenAmount::zero();
    for d in &v.dls {
        for p in &d.parts {
            for s in p.sectors.difference(&p.terminated) {
                ip += &v.sectors.get(s).ok_or_else(|| format!("live sector {s} has no info"))?.initial_pledge;
            }
            for ss in p.early_terminated.values() {
                for s in ss {
                    ip += &v.sectors.get(s).ok_or_else(|| format!("early-terminated sector {s} has no info"))?.initial_pledge;
                }
            }
        }
    }
    if ip != v.st.initial_pledge {
        return Err(format!("miner {}: initial pledge total {} != sum over live + awaiting-termination sectors {}", v.id, v.st.initial_pledge, ip));
    }
    let pcd: TokenAmount = v.precommits.values().cloned().sum();
    if pcd != v.st.pre_commit_deposits {
        return Err(format!("miner {}: pre-commit deposit total {} != sum of outstanding pre-commitments {}", v.id, v.st.pre_commit_deposits, pcd));
    }
    let lf: TokenAmount = v.vesting.iter().map(|x| x.1.clone()).sum();
    if lf != v.st.locked_funds {
        return Err(format!("miner {}: locked funds {} != sum of the vesting schedule {}", v.id, v.st.locked_funds, lf));
    }
    if v.st.fee_debt.is_negative() {
        return Err("negative fee debt".into());
    }
    Ok(())
}
