//! C13 — control of a miner changes hands only by two-sided, delayed handover. DESIGN §3 C13.
use crate::miner::*;
use crate::util::*;
use fil_actor_miner::{
    ChangeBeneficiaryParams, ChangeOwnerAddressParams, ChangePeerIDParams, ChangeWorkerAddressParams,
    GetBeneficiaryReturn, Method as MM, MinerInfo, State as MinerState, WithdrawBalanceParams,
    WithdrawBalanceReturn,
};
use fvm_ipld_encoding::CborStore;
use fvm_shared::ActorID;
use fvm_shared::econ::TokenAmount;
use mcvm::{Store, Vm};
use mcx::{Bounds, Key, Scenario, Step};
use num_traits::Zero;
use serde::{Deserialize, Serialize};
use serde_json::json;
use std::collections::BTreeSet;

#[derive(Clone, Copy, Debug, Serialize, Deserialize, PartialEq, Eq, PartialOrd, Ord)]
pub enum P {
    O,
    N,
    W,
    W2,
    C,
    B,
    Z,
}
pub const ALL: [P; 7] = [P::O, P::N, P::W, P::W2, P::C, P::B, P::Z];

#[derive(Clone, Debug, Serialize, Deserialize)]
pub enum Act {
    ChangeOwner { by: P, to: P },
    ChangeWorker { by: P, worker: P, control: bool },
    ConfirmWorker { by: P },
    /// quota: 0 or Q; expiration: 0 or E (absolute)
    ChangeBeneficiary { by: P, to: P, quota: bool, exp: bool },
    Withdraw { by: P },
    Tick(i64),
}

#[derive(Clone, Debug, Serialize, PartialEq, Eq)]
pub struct PendingBen {
    pub to: u64,
    pub quota: i128,
    pub exp: i64,
    pub by_ben: bool,
    pub by_nom: bool,
}

#[derive(Clone, Debug, Serialize, PartialEq, Eq)]
pub struct Hm {
    pub owner: u64,
    pub pending_owner: Option<u64>,
    pub worker: u64,
    pub pending_worker: Option<(u64, i64)>,
    pub controls: BTreeSet<u64>,
    pub beneficiary: u64,
    pub quota: i128,
    pub used: i128,
    pub exp: i64,
    pub pending_ben: Option<PendingBen>,
    pub msgs_left: u8,
    pub ticks_left: u8,
}

pub struct Cast {
    pub ids: [ActorID; 7],
    pub m: ActorID,
}
impl Cast {
    fn id(&self, p: P) -> ActorID {
        self.ids[ALL.iter().position(|x| *x == p).unwrap()]
    }
}

pub struct W {
    pub vm: Vm,
    pub cast: Cast,
    pub base: (mcvm::Snapshot, Hm),
    pub base2: (mcvm::Snapshot, Hm),
    pub e_exp: i64,
}

pub struct Handover {
    pub msgs: u8,
    pub ticks: u8,
    pub thorough: bool,
}

pub const Q: i128 = 5;
pub const SMALL_W: i128 = 3;

impl Hm {
    fn avail_quota(&self, now: i64) -> i128 {
        if self.exp > now { (self.quota - self.used).max(0) } else { 0 }
    }
}

impl Handover {
    fn observe(vm: &Vm, m: ActorID) -> MinerInfo {
        let st: MinerState = vm.state_of(m).unwrap();
        vm.store.get_cbor(&st.info).unwrap().unwrap()
    }

    fn compare(vm: &Vm, c: &Cast, h: &Hm) -> Result<(), String> {
        let i = Self::observe(vm, c.m);
        let ido = |a: &fvm_shared::address::Address| a.id().unwrap();
        let got = Hm {
            owner: ido(&i.owner),
            pending_owner: i.pending_owner_address.as_ref().map(ido),
            worker: ido(&i.worker),
            pending_worker: i.pending_worker_key.as_ref().map(|k| (ido(&k.new_worker), k.effective_at)),
            controls: i.control_addresses.iter().map(ido).collect(),
            beneficiary: ido(&i.beneficiary),
            quota: i128::try_from(i.beneficiary_term.quota.atto()).unwrap(),
            used: i128::try_from(i.beneficiary_term.used_quota.atto()).unwrap(),
            exp: i.beneficiary_term.expiration,
            pending_ben: i.pending_beneficiary_term.as_ref().map(|p| PendingBen {
                to: ido(&p.new_beneficiary),
                quota: i128::try_from(p.new_quota.atto()).unwrap(),
                exp: p.new_expiration,
                by_ben: p.approved_by_beneficiary,
                by_nom: p.approved_by_nominee,
            }),
            msgs_left: h.msgs_left,
            ticks_left: h.ticks_left,
        };
        if &got != h {
            return Err(format!("control state {:?} != handover model {:?}", got, h));
        }
        Ok(())
    }
}

impl Scenario for Handover {
    type S = VS<Hm>;
    type A = Act;
    type W = W;

    fn name(&self) -> String {
        "handover".into()
    }

    fn worker(&self, store: &Store) -> W {
        let vm = Vm::genesis(store.clone(), small_policy());
        let mc = setup(&vm, true);
        vm.bump_nonce.set(true);
        let n = vm.new_account(21, &fil(1000)).0;
        let w2 = vm.new_account(22, &fil(1000)).0;
        let b = vm.new_account(23, &fil(1000)).0;
        vm.bump_nonce.set(false);
        let cast = Cast { ids: [mc.o, n, mc.w, w2, mc.c, b, mc.z], m: mc.m };
        // one sector so that the proving-deadline cron is active (it applies pending worker keys)
        let v = view(&vm, mc.m).unwrap();
        let r = ni_commit(&vm, mc.w, mc.m, &[1], (v.dl_info.index + 2) % 4, vm.epoch() + 100);
        assert!(r.ok(), "SETUP-FAILED NI commit: {}", r.tree());
        let e_exp = vm.epoch() + 4; // tick 3 = last epoch of the term, tick 3 + tick 1 = exactly the expiration, tick 3 + tick 3 = past it
        let h = Hm {
            owner: mc.o,
            pending_owner: None,
            worker: mc.w,
            pending_worker: None,
            controls: BTreeSet::new(),
            beneficiary: mc.o,
            quota: 0,
            used: 0,
            exp: 0,
            pending_ben: None,
            msgs_left: self.msgs,
            ticks_left: self.ticks,
        };
        Self::compare(&vm, &cast, &h).expect("SETUP-FAILED handover base");
        let snap = vm.snapshot();
        // second base: a non-owner beneficiary with an active term is already installed
        let p = ChangeBeneficiaryParams { new_beneficiary: id(b), new_quota: atto(Q), new_expiration: e_exp };
        let z0 = TokenAmount::zero();
        let r1 = ext(&vm, mc.o, &id(mc.m), &z0, MM::ChangeBeneficiary as u64, Some(&p));
        let r2 = ext(&vm, b, &id(mc.m), &z0, MM::ChangeBeneficiary as u64, Some(&p));
        assert!(r1.ok() && r2.ok(), "SETUP-FAILED beneficiary installation");
        let h2 = Hm { beneficiary: b, quota: Q, used: 0, exp: e_exp, ..h.clone() };
        Self::compare(&vm, &cast, &h2).expect("SETUP-FAILED beneficiary-installed base");
        let snap2 = vm.snapshot();
        W { vm, cast, base: (snap, h), base2: (snap2, h2), e_exp }
    }

    fn bases(&self, w: &W) -> Vec<(String, VS<Hm>)> {
        vec![
            ("miner-with-sector".into(), VS { snap: w.base.0.clone(), m: w.base.1.clone() }),
            ("beneficiary-installed".into(), VS { snap: w.base2.0.clone(), m: w.base2.1.clone() }),
        ]
    }

    fn key(&self, s: &VS<Hm>) -> Key {
        vs_key(s)
    }

    fn kind(&self, a: &Act) -> String {
        match a {
            Act::ChangeOwner { by, .. } => format!("change-owner by {by:?}"),
            Act::ChangeWorker { by, .. } => format!("change-worker by {by:?}"),
            Act::ConfirmWorker { by } => format!("confirm-worker by {by:?}"),
            Act::ChangeBeneficiary { by, .. } => format!("change-beneficiary by {by:?}"),
            Act::Withdraw { by } => format!("withdraw by {by:?}"),
            Act::Tick(n) => format!("tick {n}"),
        }
    }

    fn actions(&self, _w: &W, s: &VS<Hm>) -> Vec<Act> {
        let mut v = vec![];
        if s.m.msgs_left > 0 {
            for by in ALL {
                for to in [P::N, P::O, P::Z] {
                    v.push(Act::ChangeOwner { by, to });
                }
                for (worker, control) in [(P::W2, false), (P::W, true), (P::W2, true)] {
                    v.push(Act::ChangeWorker { by, worker, control });
                }
                v.push(Act::ConfirmWorker { by });
                let combos: &[(P, bool, bool)] = if self.thorough {
                    &[(P::B, true, true), (P::B, false, true), (P::O, false, false), (P::O, true, false), (P::Z, true, true), (P::B, true, false)]
                } else {
                    &[(P::B, true, true), (P::O, false, false), (P::Z, true, true)]
                };
                for &(to, quota, exp) in combos {
                    v.push(Act::ChangeBeneficiary { by, to, quota, exp });
                }
            }
            for by in [P::O, P::N, P::B, P::Z] {
                v.push(Act::Withdraw { by });
            }
        }
        if s.m.ticks_left > 0 {
            v.push(Act::Tick(1));
            v.push(Act::Tick(3));
        }
        v
    }

    fn step(&self, w: &W, s: &VS<Hm>, a: &Act, _f: &[usize]) -> Step<VS<Hm>> {
        let vm = &w.vm;
        let c = &w.cast;
        vm.restore(&s.snap);
        let now = vm.epoch();
        let mut h = s.m.clone();
        let mut viol: Option<String> = None;
        let z = TokenAmount::zero();
        let maddr = id(c.m);
        let outcome;
        let mut expect: Option<bool> = None;
        let r = match a {
            Act::ChangeOwner { by, to } => {
                let (cb, ct) = (c.id(*by), c.id(*to));
                // the specification
                if cb == h.owner {
                    h.pending_owner = if ct == h.owner { None } else { Some(ct) };
                    expect = Some(true);
                } else if h.pending_owner == Some(cb) && ct == cb {
                    if h.beneficiary == h.owner {
                        h.beneficiary = cb;
                    }
                    h.pending_ben = None;
                    h.owner = cb;
                    h.pending_owner = None;
                    expect = Some(true);
                } else {
                    expect = Some(false);
                }
                Some(ext(vm, cb, &maddr, &z, MM::ChangeOwnerAddress as u64, Some(&ChangeOwnerAddressParams { new_owner: id(ct) })))
            }
            Act::ChangeWorker { by, worker, control } => {
                let (cb, cw) = (c.id(*by), c.id(*worker));
                if cb == h.owner {
                    h.controls = if *control { [c.id(P::C)].into_iter().collect() } else { BTreeSet::new() };
                    if cw != h.worker && h.pending_worker.is_none() {
                        h.pending_worker = Some((cw, now + vm.policy.worker_key_change_delay));
                    }
                    expect = Some(true);
                } else {
                    expect = Some(false);
                }
                let ctrl = if *control { vec![id(c.id(P::C))] } else { vec![] };
                Some(ext(vm, cb, &maddr, &z, MM::ChangeWorkerAddress as u64, Some(&ChangeWorkerAddressParams { new_worker: id(cw), new_control_addresses: ctrl })))
            }
            Act::ConfirmWorker { by } => {
                let cb = c.id(*by);
                if cb == h.owner {
                    if let Some((nw, eff)) = h.pending_worker
                        && now >= eff
                    {
                        h.worker = nw;
                        h.pending_worker = None;
                    }
                    expect = Some(true);
                } else {
                    expect = Some(false);
                }
                Some(ext(vm, cb, &maddr, &z, MM::ConfirmChangeWorkerAddress as u64, NOP))
            }
            Act::ChangeBeneficiary { by, to, quota, exp } => {
                let (cb, ct) = (c.id(*by), c.id(*to));
                let q = if *quota { Q } else { 0 };
                let e = if *exp { w.e_exp } else { 0 };
                let mut ok = true;
                if cb == h.owner {
                    if ct != h.owner {
                        if q <= 0 {
                            ok = false;
                        }
                    } else if q != 0 || e != 0 {
                        ok = false;
                    }
                    if ok {
                        h.pending_ben = Some(PendingBen { to: ct, quota: q, exp: e, by_ben: h.avail_quota(now) == 0, by_nom: false });
                    }
                } else if let Some(p) = &h.pending_ben {
                    if (cb != h.beneficiary && cb != p.to) || p.to != ct || p.quota != q || p.exp != e {
                        ok = false;
                    }
                } else {
                    ok = false;
                }
                if ok {
                    let p = h.pending_ben.as_mut().unwrap();
                    if cb == h.beneficiary {
                        p.by_ben = true;
                    }
                    if cb == ct {
                        p.by_nom = true;
                    }
                    if p.by_ben && p.by_nom {
                        let p = p.clone();
                        if p.to != h.beneficiary {
                            h.used = 0;
                        }
                        h.beneficiary = p.to;
                        h.quota = p.quota;
                        h.exp = p.exp;
                        h.pending_ben = None;
                    }
                }
                expect = Some(ok);
                Some(ext(vm, cb, &maddr, &z, MM::ChangeBeneficiary as u64, Some(&ChangeBeneficiaryParams { new_beneficiary: id(ct), new_quota: atto(q), new_expiration: e })))
            }
            Act::Withdraw { by } => {
                let cb = c.id(*by);
                let ben_before = vm.balance(h.beneficiary);
                let mut want: Option<i128> = None;
                if cb == h.owner || cb == h.beneficiary {
                    if h.beneficiary != h.owner {
                        let left = h.avail_quota(now);
                        if left > 0 {
                            let amt = SMALL_W.min(left);
                            h.used += amt;
                            want = Some(amt);
                        }
                    } else {
                        want = Some(SMALL_W);
                    }
                }
                expect = Some(want.is_some());
                let r = ext(vm, cb, &maddr, &z, MM::WithdrawBalance as u64, Some(&WithdrawBalanceParams { amount_requested: atto(SMALL_W) }));
                if let (Some(wa), true) = (want, r.ok()) {
                    let got: WithdrawBalanceReturn = r.ret.as_ref().unwrap().deserialize().unwrap();
                    if got.amount_withdrawn != atto(wa) {
                        viol = Some(format!("withdrawal by {by:?} returned {} but the model allows {wa}", got.amount_withdrawn));
                    }
                    let ben = s.m.beneficiary;
                    let delta = vm.balance(ben) - &ben_before;
                    let expected_delta = atto(wa);
                    if delta != expected_delta && cb != ben {
                        viol = Some(format!("withdrawal did not pay the beneficiary {ben}: balance moved by {delta}"));
                    }
                    let paid_elsewhere = r.subs.iter().any(|i| i.from == c.m && !i.value.is_zero() && i.to != id(ben) && i.to != id(99) && i.to.id().unwrap() != 4);
                    if paid_elsewhere {
                        viol = Some(format!("withdrawal paid somebody other than the beneficiary: {}", r.tree()));
                    }
                }
                Some(r)
            }
            Act::Tick(n) => {
                h.ticks_left -= 1;
                for _ in 0..*n {
                    let e = vm.epoch();
                    let r = vm.tick();
                    if r.flat().iter().any(|i| !i.ok()) {
                        viol = Some(format!("cron tick failed: {}", r.tree()));
                    }
                    // the deadline cron may apply a pending worker key once it is effective
                    let i = Self::observe(vm, c.m);
                    if let Some((nw, eff)) = h.pending_worker
                        && i.worker.id().unwrap() == nw
                    {
                        if e < eff {
                            viol = Some(format!("worker key change took effect at epoch {e}, before its effective epoch {eff}"));
                        }
                        h.worker = nw;
                        h.pending_worker = None;
                    }
                }
                None
            }
        };
        if let Some(r) = &r {
            outcome = if r.ok() { "accepted" } else { "rejected" };
            if r.any_panicked() {
                viol = Some(format!("panic: {}", r.tree()));
            }
            if let Some(e) = expect
                && e != r.ok()
                && viol.is_none()
            {
                viol = Some(format!("{a:?}: handover model says {}, implementation: {}", if e { "accept" } else { "reject" }, r.tree()));
            }
            if !r.ok() {
                h = s.m.clone();
            } else {
                h.msgs_left -= 1;
            }
        } else {
            outcome = "ok";
        }
        if viol.is_none()
            && let Err(e) = Self::compare(vm, c, &h)
        {
            viol = Some(e);
        }
        // rights probes: worker/control-level method accepted from exactly {owner, worker, controls};
        // GetBeneficiary reports the model's active beneficiary
        if viol.is_none() {
            let snap = vm.snapshot();
            for p in ALL {
                let pid = c.id(p);
                let r = ext(vm, pid, &maddr, &z, MM::ChangePeerID as u64, Some(&ChangePeerIDParams { new_id: b"miner".to_vec() }));
                let allowed = pid == h.owner || pid == h.worker || h.controls.contains(&pid);
                if r.ok() != allowed {
                    viol = Some(format!("control-level method by {p:?}: accepted={} but the model's controlling set is owner {} worker {} controls {:?}", r.ok(), h.owner, h.worker, h.controls));
                }
                vm.restore(&snap);
            }
            let r = ext(vm, c.id(P::Z), &maddr, &z, MM::GetBeneficiary as u64, NOP);
            if r.ok() {
                let g: GetBeneficiaryReturn = r.ret.as_ref().unwrap().deserialize().unwrap();
                if g.active.beneficiary != id(h.beneficiary) {
                    viol = Some(format!("GetBeneficiary reports {} but the model's beneficiary is {}", g.active.beneficiary, h.beneficiary));
                }
            }
            vm.restore(&snap);
        }
        let mut st = Step::new(VS { snap: vm.snapshot(), m: h }, outcome);
        st.agreed = 1;
        st.violation = viol;
        st
    }

    fn describe(&self) -> serde_json::Value {
        json!({"policy": "SMALL (worker key change delay 3 epochs)", "cast": ["owner O", "nominee owner N", "worker W", "new worker W2", "control C", "beneficiary nominee B", "stranger Z"],
               "message_budget": self.msgs, "tick_budget": self.ticks, "beneficiary_quota": Q, "withdraw_amount": SMALL_W,
               "oracle": "protocol model of the three hand-shakes in lock-step (accept/reject of every call, owner/pending owner, worker/pending key, controls, beneficiary/term/pending approvals), withdrawal amount and recipient, control-level rights probe for all 7 cast members after every step"})
    }
}

pub fn scenario(tier: &str) -> (Handover, Bounds) {
    if tier_is_thorough(tier) {
        (Handover { msgs: 5, ticks: 3, thorough: true }, Bounds { max_depth: 8, wall_cap_s: 1500.0, ..Default::default() })
    } else {
        (Handover { msgs: 4, ticks: 2, thorough: false }, Bounds { max_depth: 5, wall_cap_s: 45.0, ..Default::default() })
    }
}

pub fn run(tier: &str) -> ! {
    let (scn, b) = scenario(tier);
    let mut run = mcx::evidence::Run::new("C13", tier, "model_checking");
    run.assumptions = vec![
        "SMALL policy (worker key change delay = 3 epochs); mcvm stands in for the FVM".into(),
        "beneficiary terms from {quota 0/5 atto, expiration 0 / base+4}; withdrawals of 3 atto".into(),
    ];
    run.add(mcx::explore(&scn, &b));
    run.finish()
}
