//! C12 — multisig: spending needs a quorum of current signers, once, within the lock.
use crate::util::*;
use fil_actor_multisig::{
    AddSignerParams, ChangeNumApprovalsThresholdParams, ConstructorParams, LockBalanceParams, Method,
    PENDING_TXN_CONFIG, PendingTxnMap, ProposeParams, RemoveSignerParams, State as MState,
    SwapSignerParams, Transaction, TxnID, TxnIDParams, compute_proposal_hash,
};
use fil_actors_runtime::INIT_ACTOR_ADDR;
use fil_actors_runtime::runtime::Policy;
use fvm_ipld_encoding::RawBytes;
use fvm_shared::address::Address;
use fvm_shared::econ::TokenAmount;
use fvm_shared::{ActorID, METHOD_SEND};
use mcvm::{Inv, Store, Vm};
use mcx::{Bounds, Key, Scenario, Step};
use num_traits::Zero;
use serde::{Deserialize, Serialize};
use serde_json::json;
use std::collections::BTreeMap;

#[derive(Clone, Copy, Debug, Serialize, Deserialize, PartialEq, Eq, PartialOrd, Ord)]
pub enum Who {
    S1,
    S2,
    S3,
    Z,
    X,
}

#[derive(Clone, Debug, Serialize, Deserialize, PartialEq, Eq, PartialOrd, Ord)]
pub enum TxSpec {
    Send(i64),
    AddSigner(Who, bool),
    RemoveSigner(Who, bool),
    Swap(Who, Who),
    /// like RemoveSigner / Swap but naming the old signer by its public-key address
    RemoveSignerK(Who, bool),
    SwapK(Who, Who),
    Threshold(u64),
    Lock,
    SelfApprove(i64),
    SelfProposeSend(i64),
}

#[derive(Clone, Copy, Debug, Serialize, Deserialize, PartialEq, Eq)]
pub enum HashSel {
    None,
    Right,
    Wrong,
}

#[derive(Clone, Debug, Serialize, Deserialize)]
pub enum Call {
    Propose(TxSpec),
    Approve(i64, HashSel),
    Cancel(i64, HashSel),
    /// direct call of an admin method (only the wallet itself may)
    Admin(TxSpec),
}

#[derive(Clone, Debug, Serialize, Deserialize)]
pub enum Act {
    Call(Who, Call),
    Tick(i64),
}

#[derive(Clone, Debug, Serialize, PartialEq, Eq)]
pub struct Tx {
    pub spec: TxSpec,
    pub approved: Vec<u64>,
}

#[derive(Clone, Debug, Serialize, PartialEq, Eq)]
pub struct Ms {
    pub signers: Vec<u64>,
    pub threshold: u64,
    pub next_id: i64,
    pub txs: BTreeMap<i64, Tx>,
    pub lock_start: i64,
    pub lock_dur: i64,
    pub lock_amt: i64,
    pub balance: i64,
    pub executed: Vec<i64>,
    pub proposals_left: u32,
    pub ticks_left: u32,
}

#[derive(Clone, Debug, PartialEq, Eq)]
pub struct SendRec {
    to: u64,
    method: u64,
    value: i64,
    ok: bool,
}

#[derive(Clone, Copy)]
pub struct Ids {
    k1: Address,
    k2: Address,
    k3: Address,
    kz: Address,
    s1: ActorID,
    s2: ActorID,
    s3: ActorID,
    z: ActorID,
    x: ActorID,
}
impl Ids {
    fn of(&self, w: Who) -> ActorID {
        match w {
            Who::S1 => self.s1,
            Who::S2 => self.s2,
            Who::S3 => self.s3,
            Who::Z => self.z,
            Who::X => self.x,
        }
    }
    fn key_of(&self, w: Who) -> Address {
        match w {
            Who::S1 => self.k1,
            Who::S2 => self.k2,
            Who::S3 => self.k3,
            Who::Z => self.kz,
            Who::X => id(self.x),
        }
    }
}

pub const SMALL: i64 = 15;
pub const BIG: i64 = 50;
pub const FUND: i64 = 120;
pub const LOCK_AMT: i64 = 101; // not divisible by the duration: the lock formula rounds up
/// after two of the four lock epochs 51 of 101 stay locked: exactly 69 of the 120 may leave
pub const EDGE: i64 = 69;
pub const LOCK_DUR: i64 = 4;

/// (to, value, method, params) of a transaction spec
fn encode(spec: &TxSpec, ids: &Ids) -> (ActorID, i64, u64, RawBytes) {
    let ser = |p: &dyn erased::Ser| p.ser();
    match spec {
        TxSpec::Send(v) => (ids.z, *v, METHOD_SEND, RawBytes::default()),
        TxSpec::AddSigner(w, inc) => (
            ids.x,
            0,
            Method::AddSigner as u64,
            ser(&AddSignerParams { signer: id(ids.of(*w)), increase: *inc }),
        ),
        TxSpec::RemoveSigner(w, dec) => (
            ids.x,
            0,
            Method::RemoveSigner as u64,
            ser(&RemoveSignerParams { signer: id(ids.of(*w)), decrease: *dec }),
        ),
        TxSpec::Swap(a, b) => (
            ids.x,
            0,
            Method::SwapSigner as u64,
            ser(&SwapSignerParams { from: id(ids.of(*a)), to: id(ids.of(*b)) }),
        ),
        TxSpec::RemoveSignerK(w, dec) => (
            ids.x,
            0,
            Method::RemoveSigner as u64,
            ser(&RemoveSignerParams { signer: ids.key_of(*w), decrease: *dec }),
        ),
        TxSpec::SwapK(a, b) => (
            ids.x,
            0,
            Method::SwapSigner as u64,
            ser(&SwapSignerParams { from: ids.key_of(*a), to: ids.key_of(*b) }),
        ),
        TxSpec::Threshold(n) => (
            ids.x,
            0,
            Method::ChangeNumApprovalsThreshold as u64,
            ser(&ChangeNumApprovalsThresholdParams { new_threshold: *n }),
        ),
        TxSpec::Lock => (
            ids.x,
            0,
            Method::LockBalance as u64,
            ser(&LockBalanceParams { start_epoch: 0, unlock_duration: 1000, amount: atto(60) }),
        ),
        TxSpec::SelfApprove(i) => (
            ids.x,
            0,
            Method::Approve as u64,
            ser(&TxnIDParams { id: TxnID(*i), proposal_hash: vec![] }),
        ),
        TxSpec::SelfProposeSend(v) => (
            ids.x,
            0,
            Method::Propose as u64,
            ser(&ProposeParams {
                to: id(ids.z),
                value: atto(*v as i128),
                method: METHOD_SEND,
                params: RawBytes::default(),
            }),
        ),
    }
}

mod erased {
    use fvm_ipld_encoding::RawBytes;
    pub trait Ser {
        fn ser(&self) -> RawBytes;
    }
    impl<T: serde::Serialize> Ser for T {
        fn ser(&self) -> RawBytes {
            RawBytes::serialize(self).unwrap()
        }
    }
}

impl Ms {
    fn is_signer(&self, a: u64) -> bool {
        self.signers.contains(&a)
    }
    fn locked(&self, now: i64) -> i64 {
        let elapsed = now - self.lock_start;
        if elapsed >= self.lock_dur {
            return 0;
        }
        if elapsed <= 0 {
            return self.lock_amt;
        }
        let num = self.lock_amt as i128 * (self.lock_dur - elapsed) as i128;
        let den = self.lock_dur as i128;
        ((num + den - 1) / den) as i64
    }
    fn purge(&mut self, a: u64) {
        let ids: Vec<i64> = self.txs.keys().cloned().collect();
        for i in ids {
            let t = self.txs.get_mut(&i).unwrap();
            if t.approved.contains(&a) {
                t.approved.retain(|x| *x != a);
                if t.approved.is_empty() {
                    self.txs.remove(&i);
                }
            }
        }
    }

    /// One method call on the wallet by `caller`; false = the call aborts (model state restored).
    pub fn call(&mut self, caller: u64, c: &Call, now: i64, ids: &Ids, sends: &mut Vec<SendRec>) -> bool {
        let saved = self.clone();
        let ok = self.call_inner(caller, c, now, ids, sends).is_some();
        if !ok {
            *self = saved;
        }
        ok
    }

    fn call_inner(&mut self, caller: u64, c: &Call, now: i64, ids: &Ids, sends: &mut Vec<SendRec>) -> Option<()> {
        match c {
            Call::Propose(spec) => {
                if !self.is_signer(caller) {
                    return None;
                }
                if encode(spec, ids).1 < 0 {
                    return None;
                }
                let i = self.next_id;
                self.next_id += 1;
                self.txs.insert(i, Tx { spec: spec.clone(), approved: vec![] });
                self.approve_tx(caller, i, now, ids, sends)
            }
            Call::Approve(i, h) => {
                if !self.is_signer(caller) {
                    return None;
                }
                if !self.txs.contains_key(i) || *h == HashSel::Wrong {
                    return None;
                }
                if self.execute_if_approved(*i, now, ids, sends)? {
                    return Some(());
                }
                self.approve_tx(caller, *i, now, ids, sends)
            }
            Call::Cancel(i, h) => {
                if !self.is_signer(caller) {
                    return None;
                }
                let t = self.txs.get(i)?;
                if t.approved.first() != Some(&caller) || *h == HashSel::Wrong {
                    return None;
                }
                self.txs.remove(i);
                Some(())
            }
            Call::Admin(spec) => {
                if caller != ids.x {
                    return None;
                }
                match spec {
                    TxSpec::AddSigner(w, inc) => {
                        let a = ids.of(*w);
                        if self.signers.len() >= 256 || self.is_signer(a) {
                            return None;
                        }
                        self.signers.push(a);
                        if *inc {
                            self.threshold += 1;
                        }
                    }
                    TxSpec::RemoveSigner(w, dec) | TxSpec::RemoveSignerK(w, dec) => {
                        let a = ids.of(*w);
                        if !self.is_signer(a) || self.signers.len() == 1 {
                            return None;
                        }
                        if !*dec && ((self.signers.len() - 1) as u64) < self.threshold {
                            return None;
                        }
                        if *dec {
                            if self.threshold < 2 {
                                return None;
                            }
                            self.threshold -= 1;
                        }
                        self.purge(a);
                        self.signers.retain(|s| *s != a);
                    }
                    TxSpec::Swap(f, t) | TxSpec::SwapK(f, t) => {
                        let (f, t) = (ids.of(*f), ids.of(*t));
                        if !self.is_signer(f) || self.is_signer(t) {
                            return None;
                        }
                        self.signers.retain(|s| *s != f);
                        self.signers.push(t);
                        self.purge(f);
                    }
                    TxSpec::Threshold(n) => {
                        if *n == 0 || *n > self.signers.len() as u64 {
                            return None;
                        }
                        self.threshold = *n;
                    }
                    TxSpec::Lock => {
                        if self.lock_dur != 0 {
                            return None;
                        }
                        self.lock_start = 0;
                        self.lock_dur = 1000;
                        self.lock_amt = 60;
                    }
                    _ => return None,
                }
                Some(())
            }
        }
    }

    fn approve_tx(&mut self, caller: u64, i: i64, now: i64, ids: &Ids, sends: &mut Vec<SendRec>) -> Option<()> {
        let t = self.txs.get_mut(&i)?;
        if t.approved.contains(&caller) {
            return None;
        }
        t.approved.push(caller);
        self.execute_if_approved(i, now, ids, sends)?;
        Some(())
    }

    /// Some(applied) or None = abort of the enclosing call.
    fn execute_if_approved(&mut self, i: i64, now: i64, ids: &Ids, sends: &mut Vec<SendRec>) -> Option<bool> {
        let t = self.txs.get(&i)?.clone();
        // quorum: at least `threshold` approvals by distinct current signers
        let mut distinct = t.approved.clone();
        distinct.sort();
        distinct.dedup();
        let quorum = distinct.iter().filter(|a| self.is_signer(**a)).count() as u64;
        if quorum < self.threshold {
            return Some(false);
        }
        let (to, value, method, _) = encode(&t.spec, ids);
        if value < 0 || self.balance < value {
            return None;
        }
        if value > 0 && self.balance - value < self.locked(now) {
            return None;
        }
        self.txs.remove(&i);
        self.executed.push(i);
        let idx = sends.len();
        sends.push(SendRec { to, method, value, ok: false });
        let ok = if to == ids.x {
            let nested = match &t.spec {
                TxSpec::SelfApprove(j) => Call::Approve(*j, HashSel::None),
                TxSpec::SelfProposeSend(v) => Call::Propose(TxSpec::Send(*v)),
                s => Call::Admin(s.clone()),
            };
            self.call(ids.x, &nested, now, ids, sends)
        } else {
            self.balance -= value;
            true
        };
        sends[idx].ok = ok;
        Some(true)
    }
}

pub struct Multisig {
    pub proposals: u32,
    pub ticks: u32,
    pub thorough: bool,
}

pub struct W {
    pub vm: Vm,
    pub ids: Vec<(String, Ids, mcvm::Snapshot, Ms)>,
}

impl Multisig {
    fn observe(&self, vm: &Vm, ids: &Ids) -> (Vec<u64>, u64, i64, BTreeMap<i64, (u64, i64, u64, Vec<u8>, Vec<u64>)>, (i64, i64, i64), i64) {
        let st: MState = vm.state_of(ids.x).expect("multisig state");
        let mut signers: Vec<u64> = st.signers.iter().map(|a| a.id().unwrap()).collect();
        signers.sort();
        let mut txs = BTreeMap::new();
        let ptx = PendingTxnMap::load(&vm.store, &st.pending_txs, PENDING_TXN_CONFIG, "p").unwrap();
        ptx.for_each(|k, t: &Transaction| {
            txs.insert(
                k.0,
                (
                    vm.resolve(&t.to).unwrap_or(u64::MAX),
                    t.value.atto().try_into().unwrap(),
                    t.method,
                    t.params.to_vec(),
                    t.approved.iter().map(|a| a.id().unwrap()).collect(),
                ),
            );
            Ok(())
        })
        .unwrap();
        (
            signers,
            st.num_approvals_threshold,
            st.next_tx_id.0,
            txs,
            (st.start_epoch, st.unlock_duration, st.initial_balance.atto().try_into().unwrap()),
            vm.balance(ids.x).atto().try_into().unwrap(),
        )
    }

    fn compare(&self, vm: &Vm, ids: &Ids, m: &Ms) -> Result<(), String> {
        let (signers, thr, next, txs, lock, bal) = self.observe(vm, ids);
        if !(1 <= thr && thr <= signers.len() as u64 && signers.len() <= 256) {
            return Err(format!("1 <= threshold {} <= signers {} <= 256 violated", thr, signers.len()));
        }
        let mut ms = m.signers.clone();
        ms.sort();
        let mtxs: BTreeMap<i64, (u64, i64, u64, Vec<u8>, Vec<u64>)> = m
            .txs
            .iter()
            .map(|(i, t)| {
                let (to, v, me, p) = encode(&t.spec, ids);
                (*i, (to, v, me, p.to_vec(), t.approved.clone()))
            })
            .collect();
        if signers != ms {
            return Err(format!("signers {:?} != model {:?}", signers, ms));
        }
        if thr != m.threshold {
            return Err(format!("threshold {} != model {}", thr, m.threshold));
        }
        if next != m.next_id {
            return Err(format!("next tx id {} != model {}", next, m.next_id));
        }
        if txs != mtxs {
            return Err(format!("pending transactions/approvals {:?} != model {:?}", txs, mtxs));
        }
        if lock != (m.lock_start, m.lock_dur, m.lock_amt) {
            return Err(format!("lock {:?} != model", lock));
        }
        if bal != m.balance {
            return Err(format!("wallet balance {} != model {}", bal, m.balance));
        }
        Ok(())
    }

    fn right_hash(&self, vm: &Vm, ids: &Ids, i: i64) -> Vec<u8> {
        let st: MState = vm.state_of(ids.x).unwrap();
        let ptx = PendingTxnMap::load(&vm.store, &st.pending_txs, PENDING_TXN_CONFIG, "p").unwrap();
        match ptx.get(&TxnID(i)).unwrap() {
            Some(t) => compute_proposal_hash(t, &vm.prims).unwrap().to_vec(),
            None => vec![],
        }
    }

}

#[derive(Clone, Serialize)]
pub struct MS {
    pub base: usize,
    pub m: Ms,
}

impl Scenario for Multisig {
    type S = VS<MS>;
    type A = Act;
    type W = W;

    fn name(&self) -> String {
        "multisig".into()
    }

    fn worker(&self, store: &Store) -> W {
        let vm = Vm::genesis(store.clone(), Policy::default());
        vm.bump_nonce.set(true);
        let (s1, k1) = vm.new_account(1, &fil(1000));
        let (s2, k2) = vm.new_account(2, &fil(1000));
        let (s3, k3) = vm.new_account(3, &fil(1000));
        let (z, kz) = vm.new_account(4, &fil(1000));
        for _ in 0..5 {
            vm.tick();
        }
        let g = vm.snapshot();
        let mut out = vec![];
        // (label, threshold, self-signer?)
        let cfgs: Vec<(&str, u64, bool)> = if self.thorough {
            vec![("thr1", 1, false), ("thr2", 2, false), ("thr3", 3, false), ("self-signer-thr1", 1, true), ("self-signer-thr2", 2, true)]
        } else {
            vec![("thr1", 1, false), ("thr2", 2, false), ("thr3", 3, false), ("self-signer-thr2", 2, true)]
        };
        for (label, thr, selfsig) in cfgs {
            vm.restore(&g);
            let start = vm.epoch();
            let ctor = ConstructorParams {
                signers: vec![id(s1), id(s2), id(s3)],
                num_approvals_threshold: thr,
                unlock_duration: LOCK_DUR,
                start_epoch: start,
            };
            let r = ext(
                &vm,
                s1,
                &INIT_ACTOR_ADDR,
                &atto(LOCK_AMT as i128),
                fil_actor_init::Method::Exec as u64,
                Some(&fil_actor_init::ExecParams {
                    code_cid: *fil_actors_runtime::test_utils::MULTISIG_ACTOR_CODE_ID,
                    constructor_params: RawBytes::serialize(&ctor).unwrap(),
                }),
            );
            assert!(r.ok(), "SETUP-FAILED multisig create: {}", r.tree());
            let ret: fil_actor_init::ExecReturn = r.ret.unwrap().deserialize().unwrap();
            let x = ret.id_address.id().unwrap();
            // top up so that part of the balance is unlocked
            let r = ext(&vm, s1, &id(x), &atto((FUND - LOCK_AMT) as i128), METHOD_SEND, NOP);
            assert!(r.ok());
            let ids = Ids { k1, k2, k3, kz, s1, s2, s3, z, x };
            let mut m = Ms {
                signers: vec![s1, s2, s3],
                threshold: thr,
                next_id: 0,
                txs: BTreeMap::new(),
                lock_start: start,
                lock_dur: LOCK_DUR,
                lock_amt: LOCK_AMT,
                balance: FUND,
                executed: vec![],
                proposals_left: self.proposals,
                ticks_left: self.ticks,
            };
            if selfsig {
                // make the wallet a signer of itself through real messages (swap S3 -> X)
                vm.bump_nonce.set(false);
                let mut sends = vec![];
                let approvers = [s1, s2, s3];
                let spec = TxSpec::Swap(Who::S3, Who::X);
                let (to, v, me, p) = encode(&spec, &ids);
                let r = ext(&vm, s1, &id(x), &TokenAmount::zero(), Method::Propose as u64, Some(&ProposeParams { to: id(to), value: atto(v as i128), method: me, params: p }));
                assert!(r.ok(), "{}", r.tree());
                assert!(m.call(s1, &Call::Propose(spec), vm.epoch(), &ids, &mut sends));
                for a in &approvers[1..thr as usize] {
                    let r = ext(&vm, *a, &id(x), &TokenAmount::zero(), Method::Approve as u64, Some(&TxnIDParams { id: TxnID(0), proposal_hash: vec![] }));
                    assert!(r.ok(), "{}", r.tree());
                    assert!(m.call(*a, &Call::Approve(0, HashSel::None), vm.epoch(), &ids, &mut sends));
                }
                m.executed.clear();
                vm.bump_nonce.set(true);
                self.compare(&vm, &ids, &m).expect("SETUP-FAILED self-signer base");
            }
            out.push((label.to_string(), ids.clone(), vm.snapshot(), m.clone()));
            if label == "thr3" {
                // four signers, threshold 4, two transactions pending with three approvals each
                // (a transfer, and the removal of the earliest approver S1 waiting for Z's approval):
                // built by real messages, the model in lock-step
                vm.bump_nonce.set(false);
                let mut sends = vec![];
                let mut run = |who: ActorID, call: Call, m: &mut Ms| {
                    let r = match &call {
                        Call::Propose(spec) => {
                            let (to, v, me, p) = encode(spec, &ids);
                            ext(&vm, who, &id(x), &TokenAmount::zero(), Method::Propose as u64, Some(&ProposeParams { to: id(to), value: atto(v as i128), method: me, params: p }))
                        }
                        Call::Approve(i, _) => ext(&vm, who, &id(x), &TokenAmount::zero(), Method::Approve as u64, Some(&TxnIDParams { id: TxnID(*i), proposal_hash: vec![] })),
                        _ => unreachable!(),
                    };
                    assert!(r.ok(), "SETUP-FAILED four-signer base: {}", r.tree());
                    assert!(m.call(who, &call, vm.epoch(), &ids, &mut sends), "SETUP-FAILED four-signer base (model rejects)");
                };
                run(s1, Call::Propose(TxSpec::AddSigner(Who::Z, true)), &mut m);
                run(s2, Call::Approve(0, HashSel::None), &mut m);
                run(s3, Call::Approve(0, HashSel::None), &mut m);
                run(s1, Call::Propose(TxSpec::Send(SMALL)), &mut m);
                run(s2, Call::Approve(1, HashSel::None), &mut m);
                run(s3, Call::Approve(1, HashSel::None), &mut m);
                run(s1, Call::Propose(TxSpec::RemoveSigner(Who::S1, true)), &mut m);
                run(s2, Call::Approve(2, HashSel::None), &mut m);
                run(s3, Call::Approve(2, HashSel::None), &mut m);
                m.executed.clear();
                m.proposals_left = std::cmp::min(m.proposals_left, 1);
                vm.bump_nonce.set(true);
                self.compare(&vm, &ids, &m).expect("SETUP-FAILED four-signer base");
                out.push(("four-signers-thr4-pending".to_string(), ids, vm.snapshot(), m));
            }
        }
        vm.bump_nonce.set(false);
        W { vm, ids: out }
    }

    fn bases(&self, w: &W) -> Vec<(String, VS<MS>)> {
        w.ids
            .iter()
            .enumerate()
            .map(|(i, (l, _, snap, m))| (l.clone(), VS { snap: snap.clone(), m: MS { base: i, m: m.clone() } }))
            .collect()
    }

    fn key(&self, s: &VS<MS>) -> Key {
        vs_key(s)
    }

    fn kind(&self, a: &Act) -> String {
        match a {
            Act::Tick(_) => "tick".into(),
            Act::Call(w, c) => {
                let who = if *w == Who::Z { "outsider" } else { "signer" };
                match c {
                    Call::Propose(s) => format!("{who} propose {}", format!("{s:?}").split('(').next().unwrap()),
                    Call::Approve(_, h) => format!("{who} approve hash={h:?}"),
                    Call::Cancel(_, h) => format!("{who} cancel hash={h:?}"),
                    Call::Admin(s) => format!("{who} direct {}", format!("{s:?}").split('(').next().unwrap()),
                }
            }
        }
    }

    fn actions(&self, _w: &W, s: &VS<MS>) -> Vec<Act> {
        let m = &s.m.m;
        let mut v = vec![];
        let callers = [Who::S1, Who::S2, Who::S3, Who::Z];
        let pending: Vec<i64> = m.txs.keys().cloned().collect();
        if m.proposals_left > 0 && pending.len() < 3 {
            let mut specs = vec![
                TxSpec::Send(SMALL),
                TxSpec::Send(BIG),
                TxSpec::Send(EDGE),
                TxSpec::Send(EDGE + 1),
                TxSpec::AddSigner(Who::Z, false),
                TxSpec::AddSigner(Who::Z, true),
                TxSpec::AddSigner(Who::X, false),
                TxSpec::RemoveSigner(Who::S1, false),
                TxSpec::RemoveSigner(Who::S1, true),
                TxSpec::RemoveSigner(Who::S2, true),
                TxSpec::RemoveSigner(Who::S3, false),
                TxSpec::Swap(Who::S1, Who::Z),
                TxSpec::Swap(Who::S2, Who::Z),
                TxSpec::Swap(Who::S3, Who::S1),
                TxSpec::SwapK(Who::S1, Who::Z),
                TxSpec::RemoveSignerK(Who::S2, true),
                TxSpec::Threshold(1),
                TxSpec::Threshold(2),
                TxSpec::Threshold(3),
                TxSpec::Threshold(4),
                TxSpec::Lock,
                TxSpec::SelfProposeSend(SMALL),
                TxSpec::Send(-1),
            ];
            for i in &pending {
                specs.push(TxSpec::SelfApprove(*i));
            }
            specs.push(TxSpec::SelfApprove(m.next_id)); // approves itself: not pending at execution
            for c in [Who::S1, Who::S2, Who::S3] {
                for sp in &specs {
                    v.push(Act::Call(c, Call::Propose(sp.clone())));
                }
            }
            v.push(Act::Call(Who::Z, Call::Propose(TxSpec::Send(SMALL))));
            v.push(Act::Call(Who::Z, Call::Propose(TxSpec::AddSigner(Who::Z, false))));
        }
        let mut ids = pending.clone();
        ids.push(m.next_id); // non-existent
        for c in callers {
            for i in &ids {
                for h in [HashSel::None, HashSel::Right, HashSel::Wrong] {
                    v.push(Act::Call(c, Call::Approve(*i, h)));
                }
                for h in [HashSel::None, HashSel::Wrong] {
                    v.push(Act::Call(c, Call::Cancel(*i, h)));
                }
            }
            for sp in [
                TxSpec::AddSigner(Who::Z, false),
                TxSpec::RemoveSigner(Who::S2, true),
                TxSpec::Swap(Who::S1, Who::Z),
                TxSpec::Threshold(1),
                TxSpec::Lock,
            ] {
                v.push(Act::Call(c, Call::Admin(sp)));
            }
        }
        if m.ticks_left > 0 {
            v.push(Act::Tick(2));
        }
        v
    }

    fn step(&self, w: &W, s: &VS<MS>, a: &Act, _faults: &[usize]) -> Step<VS<MS>> {
        let vm = &w.vm;
        vm.restore(&s.snap);
        let ids = &w.ids[s.m.base].1;
        let now = vm.epoch();
        let mut m = s.m.m.clone();
        let mut viol = None;
        let outcome;
        match a {
            Act::Tick(n) => {
                for _ in 0..*n {
                    vm.tick();
                }
                m.ticks_left -= 1;
                outcome = "ok";
            }
            Act::Call(who, call) => {
                let caller = ids.of(*who);
                let hash = |i: i64, h: HashSel| match h {
                    HashSel::None => vec![],
                    HashSel::Right => self.right_hash(vm, ids, i),
                    HashSel::Wrong => vec![7u8; 32],
                };
                let r: Inv = match call {
                    Call::Propose(spec) => {
                        let (to, v, me, p) = encode(spec, ids);
                        m.proposals_left = m.proposals_left.saturating_sub(1);
                        ext(vm, caller, &id(ids.x), &TokenAmount::zero(), Method::Propose as u64,
                            Some(&ProposeParams { to: id(to), value: atto(v as i128), method: me, params: p }))
                    }
                    Call::Approve(i, h) => ext(vm, caller, &id(ids.x), &TokenAmount::zero(), Method::Approve as u64,
                        Some(&TxnIDParams { id: TxnID(*i), proposal_hash: hash(*i, *h) })),
                    Call::Cancel(i, h) => ext(vm, caller, &id(ids.x), &TokenAmount::zero(), Method::Cancel as u64,
                        Some(&TxnIDParams { id: TxnID(*i), proposal_hash: hash(*i, *h) })),
                    Call::Admin(spec) => {
                        let (_, _, me, p) = encode(spec, ids);
                        vm.apply(mcvm::MsgKind::External, &id(caller), &id(ids.x), &TokenAmount::zero(), me,
                            Some(fvm_ipld_encoding::ipld_block::IpldBlock { codec: fvm_ipld_encoding::CBOR, data: p.to_vec() }))
                    }
                };
                // a "right" hash of a non-existent tx is empty: same as None
                let mut sends = vec![];
                let before = m.clone();
                let ok = m.call(caller, call, now, ids, &mut sends);
                if !ok {
                    m = before;
                    if let Call::Propose(_) = call {
                        m.proposals_left = m.proposals_left.saturating_sub(1);
                    }
                }
                outcome = if r.ok() { "accepted" } else { "rejected" };
                if r.any_panicked() {
                    viol = Some(format!("panic: {}", r.tree()));
                } else if ok != r.ok() {
                    viol = Some(format!(
                        "{who:?} {call:?}: quorum model says {}, implementation says {}: {}",
                        if ok { "accept" } else { "reject" },
                        if r.ok() { "accept" } else { "reject" },
                        r.tree()
                    ));
                } else if r.ok() {
                    // sends leaving the wallet, in order
                    let got: Vec<SendRec> = r
                        .flat()
                        .into_iter()
                        .skip(1)
                        .filter(|i| i.from == ids.x)
                        .map(|i| SendRec {
                            to: i.to.id().unwrap_or(u64::MAX),
                            method: i.method,
                            value: i.value.atto().try_into().unwrap(),
                            ok: i.ok(),
                        })
                        .collect();
                    if got != sends {
                        viol = Some(format!("sends from the wallet {:?} != quorum model {:?}\n{}", got, sends, r.tree()));
                    }
                }
            }
        }
        if viol.is_none()
            && let Err(e) = self.compare(vm, ids, &m)
        {
            viol = Some(e);
        }
        // each tx id executes at most once over the whole history
        let mut ex = m.executed.clone();
        ex.sort();
        let n = ex.len();
        ex.dedup();
        if ex.len() != n && viol.is_none() {
            viol = Some(format!("a transaction id executed twice: {:?}", m.executed));
        }
        let mut st = Step::new(VS { snap: vm.snapshot(), m: MS { base: s.m.base, m } }, outcome);
        st.agreed = 1;
        st.violation = viol;
        st
    }

    fn describe(&self) -> serde_json::Value {
        json!({"policy": "MAINNET", "signers": ["S1","S2","S3"], "outsider": "Z", "fund": FUND,
               "lock": {"amount": LOCK_AMT, "duration": LOCK_DUR}, "send_values": [SMALL, BIG, EDGE, EDGE + 1, -1],
               "proposal_budget": self.proposals, "tick_budget": self.ticks,
               "oracle": "quorum reference model in lock-step: accept/reject, ordered sends leaving the wallet, signers, threshold, pending approvals, lock, balance; 1<=threshold<=signers<=256"})
    }
}

pub fn scenario(tier: &str) -> (Multisig, Bounds) {
    if tier_is_thorough(tier) {
        (Multisig { proposals: 4, ticks: 2, thorough: true }, Bounds { max_depth: 5, wall_cap_s: 1500.0, ..Default::default() })
    } else {
        (Multisig { proposals: 3, ticks: 2, thorough: false }, Bounds { max_depth: 3, wall_cap_s: 60.0, ..Default::default() })
    }
}

pub fn run(tier: &str) -> ! {
    let (scn, b) = scenario(tier);
    let mut run = mcx::evidence::Run::new("C12", tier, "model_checking");
    run.assumptions = vec![
        "mcvm mirrors the FVM message semantics (value transfer, rollback, caller validation)".into(),
        "transactions proposed are drawn from a fixed menu (sends to an account, self-administration, re-entrant self Approve/Propose)".into(),
    ];
    run.add(mcx::explore(&scn, &b));
    run.finish()
}
