//! C15 — faults and early terminations are always paid for (penalty ledger on the miner-life walk).
use crate::minerlife::*;
use crate::util::*;
use fvm_shared::econ::TokenAmount;
use mcx::Bounds;

pub fn scenario_regime(tier: &str, poor: bool) -> (Life, Bounds) {
    let th = tier_is_thorough(tier);
    let cfg = LifeCfg {
        name: if poor { "c15-poor" } else { "c15-rich" },
        periods: if th { 5 } else { 3 },
        devs: if th { 2 } else { 1 },
        bases: if th { vec!["one-deadline-aged", "two-deadlines-aged", "two-deadlines", "long-faulty-debt", "bad-post-closed-debt"] } else { vec!["one-deadline-aged", "long-faulty-debt", "bad-post-closed-debt"] },
        oracles: Oracles { c15: true, ..Default::default() },
        sector_sets: if th { sets_all() } else { sets_small() },
        known_open: mcx::evidence::known_open("C15"),
        property: "C15",
        poor: if poor { Some(TokenAmount::from_nano(1000)) } else { None },
        money_devs: true,
        precommits: th,
        horizon: None,
        big: false,
        tick_faults: false,
        bystander: false,
        extensions: true,
    };
    let b = if th {
        Bounds { max_depth: 400, max_faults: 1, wall_cap_s: 700.0, ..Default::default() }
    } else {
        Bounds { max_depth: 400, max_faults: 1, wall_cap_s: 40.0, ..Default::default() }
    };
    (Life { cfg }, b)
}

/// 64 GiB sectors: the miner's balance is (almost) all initial pledge at FIL scale, so a charge
/// can exceed what is collectable while a transfer of a few FIL would still succeed.
pub fn scenario_big(tier: &str) -> (Life, Bounds) {
    let th = tier_is_thorough(tier);
    let cfg = LifeCfg {
        name: "c15-pledge-only",
        periods: if th { 3 } else { 2 },
        devs: if th { 2 } else { 1 },
        bases: if th { vec!["bad-post-closed-debt", "bad-post-closed", "one-deadline-aged-debt", "long-faulty-debt"] } else { vec!["bad-post-closed-debt", "one-deadline-aged-debt"] },
        oracles: Oracles { c15: true, ..Default::default() },
        sector_sets: sets_small(),
        known_open: mcx::evidence::known_open("C15"),
        property: "C15",
        poor: Some(TokenAmount::from_whole(6) + TokenAmount::from_nano(500_000_000)),
        money_devs: true,
        precommits: false,
        horizon: None,
        big: true,
        tick_faults: false,
        bystander: false,
        extensions: false,
    };
    let b = Bounds { max_depth: 400, max_faults: 1, wall_cap_s: if th { 400.0 } else { 25.0 }, ..Default::default() };
    (Life { cfg }, b)
}

pub fn scenario(tier: &str) -> (Life, Bounds) {
    scenario_regime(tier, false)
}

pub fn run(tier: &str) -> ! {
    let mut run = mcx::evidence::Run::new("C15", tier, "model_checking");
    run.assumptions = vec![
        "SMALL policy; fee magnitudes are recomputed from the reward/power estimates the implementation itself passed to the miner (not from an independent economic model); the FIP-0098 termination fee formula and its 2% / cap bounds are recomputed independently".into(),
        "funds regimes: a rich miner (1000 FIL available) and a poor miner that owns only its vesting creation deposit".into(),
        "fault class F1: the reward transfer to the reporter of a consensus fault / disputed PoSt is made to fail".into(),
    ];
    for poor in [false, true] {
        let (scn, b) = scenario_regime(tier, poor);
        run.add(mcx::explore(&scn, &b));
    }
    let (scn, b) = scenario_big(tier);
    run.add(mcx::explore(&scn, &b));
    run.finish()
}
