//! C15 — faults and early terminations are always paid for (penalty ledger on the miner-life walk).
use crate::minerlife::*;
use crate::util::*;
use fvm_shared::econ::TokenAmount;
use mcx::Bounds;
use num_traits::Zero;

pub fn scenario_regime(tier: &str, poor: bool) -> (Life, Bounds) {
    let th = tier_is_thorough(tier);
    let cfg = LifeCfg {
        name: if poor { "c15-poor" } else { "c15-rich" },
        periods: if th { 5 } else { 3 },
        devs: if th { 2 } else { 1 },
        bases: if th { vec!["one-deadline-aged", "two-deadlines-aged", "two-deadlines", "long-faulty-debt", "bad-post-closed-debt"] } else { vec!["one-deadline-aged", "long-faulty-debt", "bad-post-closed-debt"] },
        oracles: Oracles { c15: true, ..Default::default() },
        sector_sets: if th { sets_all() } else { sets_small() },
        known_open: mcx::evidence::known_open("C15"),
        property: "C15",
        poor: if poor { Some(TokenAmount::from_nano(1000)) } else { None },
        money_devs: true,
        precommits: th,
        horizon: None,
        big: false,
        tick_faults: false,
        bystander: false,
        extensions: true,
        backlog: false,
    };
    let b = if th {
        Bounds { max_depth: 400, max_faults: 1, wall_cap_s: 700.0, ..Default::default() }
    } else {
        Bounds { max_depth: 400, max_faults: 1, wall_cap_s: 40.0, ..Default::default() }
    };
    (Life { cfg }, b)
}

/// 64 GiB sectors: the miner's balance is (almost) all initial pledge at FIL scale, so a charge
/// can exceed what is collectable while a transfer of a few FIL would still succeed.
pub fn scenario_big(tier: &str) -> (Life, Bounds) {
    let th = tier_is_thorough(tier);
    let cfg = LifeCfg {
        name: "c15-pledge-only",
        periods: if th { 3 } else { 2 },
        devs: if th { 2 } else { 1 },
        bases: if th { vec!["bad-post-closed-debt", "bad-post-closed", "one-deadline-aged-debt", "long-faulty-debt"] } else { vec!["bad-post-closed-debt", "one-deadline-aged-debt"] },
        oracles: Oracles { c15: true, ..Default::default() },
        sector_sets: sets_small(),
        known_open: mcx::evidence::known_open("C15"),
        property: "C15",
        poor: Some(TokenAmount::from_whole(6) + TokenAmount::from_nano(500_000_000)),
        money_devs: true,
        precommits: false,
        horizon: None,
        big: true,
        tick_faults: false,
        bystander: false,
        extensions: false,
        backlog: false,
    };
    let b = Bounds { max_depth: 400, max_faults: 1, wall_cap_s: if th { 400.0 } else { 25.0 }, ..Default::default() };
    (Life { cfg }, b)
}

pub fn scenario(tier: &str) -> (Life, Bounds) {
    scenario_regime(tier, false)
}

/// One partition per message and per early-termination processing call (`backlog_policy`): the
/// fault time-out of the `long-faulty` base spans two partitions, so one processing call leaves a
/// backlog of unprocessed early terminations for a later cron callback. Between the two the miner
/// index is non-empty at message boundaries: withdrawals must be refused (C14), the pledge of the
/// sectors still awaiting processing stays recorded (C03), the backlog must be worked off (C05)
/// and every terminated sector is charged its fee when processed (C15).
pub fn scenario_backlog(tier: &str, property: &'static str, oracles: Oracles) -> (Life, Bounds) {
    let th = tier_is_thorough(tier);
    let cfg = LifeCfg {
        name: match property { "C03" => "c03-et-backlog", "C05" => "c05-et-backlog", "C14" => "c14-et-backlog", _ => "c15-et-backlog" },
        periods: if th { 3 } else { 2 },
        devs: if th { 2 } else { 1 },
        bases: vec!["long-faulty"],
        oracles,
        sector_sets: sets_small(),
        known_open: mcx::evidence::known_open(property),
        property,
        poor: None,
        money_devs: true,
        precommits: false,
        horizon: None,
        big: false,
        tick_faults: false,
        bystander: false,
        extensions: false,
        backlog: true,
    };
    let b = Bounds { max_depth: 400, max_faults: 0, wall_cap_s: if th { 400.0 } else { 20.0 }, ..Default::default() };
    (Life { cfg }, b)
}

/// The termination-fee function over a boundary grid (pledge x sector age x fault fee): the
/// walks above never make the age-dependent part decisive (with genesis-sized network power the
/// fault-fee floor dominates), so the pure function is enumerated directly against the
/// independent FIP-0098 recomputation, its bounds and its monotonicity in the age.
pub fn fee_point(ip: &TokenAmount, age: i64, ff: &TokenAmount) -> Result<TokenAmount, String> {
    let got = fil_actor_miner::pledge_penalty_for_termination(ip, age, ff);
    let want = crate::penalties::term_fee(ip, age, ff);
    if got != want {
        return Err(format!("termination fee for pledge {ip}, age {age}, fault fee {ff}: implementation {got}, FIP-0098 recomputation {want}"));
    }
    if !crate::penalties::term_fee_in_bounds(&got, ip, ff) {
        return Err(format!("termination fee {got} for pledge {ip}, age {age}, fault fee {ff} outside [2% of pledge, max(8.5% of pledge, 105% of the fault fee)]"));
    }
    Ok(got)
}

fn fee_grid(run: &mut mcx::evidence::Run) {
    let day = crate::penalties::EPOCHS_IN_DAY;
    let ips: Vec<TokenAmount> = [0u64, 1, 99, 100, 1_000_000_007].iter().map(|x| TokenAmount::from_atto(*x)).chain([1u64, 2, 1000].iter().map(|x| TokenAmount::from_whole(*x))).collect();
    let ages = [0i64, 1, day - 1, day, 70 * day, 140 * day - 1, 140 * day, 140 * day + 1, 540 * day];
    let mut n = 0u64;
    let mut distinct = std::collections::BTreeSet::new();
    for ip in &ips {
        let ffs: Vec<TokenAmount> = vec![
            TokenAmount::zero(),
            TokenAmount::from_atto(1),
            (ip * 2u32).div_floor(105u32),
            (ip * 2u32).div_floor(100u32),
            (ip * 85u32).div_floor(1050u32),
            (ip * 85u32).div_floor(1000u32),
            ip.clone(),
            ip * 31u32,
        ];
        for ff in &ffs {
            let mut prev: Option<TokenAmount> = None;
            for age in ages {
                n += 1;
                let r = fee_point(ip, age, ff).and_then(|fee| {
                    if let Some(p) = &prev
                        && fee < *p
                    {
                        return Err(format!("termination fee decreases with the sector's age: {p} then {fee} at age {age} (pledge {ip}, fault fee {ff})"));
                    }
                    Ok(fee)
                });
                match r {
                    Ok(fee) => {
                        distinct.insert(fee.atto().to_string());
                        prev = Some(fee);
                    }
                    Err(msg) => {
                        if run.extra_violations.len() < 8 {
                            run.extra_violations.push(mcx::ViolationReport {
                                scenario: "c15/fee-grid".into(),
                                base: "pure function".into(),
                                path: vec![mcx::PathStep { action: serde_json::json!({"pledge": ip.atto().to_string(), "age": age, "fault_fee": ff.atto().to_string()}), faults: vec![] }],
                                message: msg,
                            });
                        }
                    }
                }
            }
        }
    }
    run.coverage_extra.insert("termination_fee_grid".into(), serde_json::json!({"points": n, "distinct_fees": distinct.len(), "pledges": ips.len(), "ages": ages.len(), "fault_fees_per_pledge": 8}));
}

pub fn replay_fee_point(v: &serde_json::Value) -> ! {
    let a = &v["path"][0]["action"];
    let big = |k: &str| TokenAmount::from_atto(a[k].as_str().unwrap().parse::<fvm_shared::bigint::BigInt>().unwrap());
    match fee_point(&big("pledge"), a["age"].as_i64().unwrap(), &big("fault_fee")) {
        Err(m) => {
            println!("REPRODUCED property=C15 {m}");
            std::process::exit(1)
        }
        Ok(_) => {
            println!("NOT-REPRODUCED: the recorded point agrees on this tree (monotonicity is only judged by the full grid)");
            std::process::exit(0)
        }
    }
}

pub fn run(tier: &str) -> ! {
    let mut run = mcx::evidence::Run::new("C15", tier, "model_checking");
    run.assumptions = vec![
        "SMALL policy; fee magnitudes are recomputed from the reward/power estimates the implementation itself passed to the miner (not from an independent economic model); the FIP-0098 termination fee formula and its 2% / cap bounds are recomputed independently".into(),
        "funds regimes: a rich miner (1000 FIL available) and a poor miner that owns only its vesting creation deposit".into(),
        "the termination-fee function is additionally enumerated as a pure function over a grid of 8 pledges x 9 sector ages x 8 fault fees (agreement with the FIP-0098 recomputation, bounds, monotone in age)".into(),
        "fault class F1: the reward transfer to the reporter of a consensus fault / disputed PoSt is made to fail".into(),
    ];
    for poor in [false, true] {
        let (scn, b) = scenario_regime(tier, poor);
        run.add(mcx::explore(&scn, &b));
    }
    let (scn, b) = scenario_big(tier);
    run.add(mcx::explore(&scn, &b));
    let (scn, b) = scenario_backlog(tier, "C15", Oracles { c15: true, ..Default::default() });
    run.add(mcx::explore(&scn, &b));
    fee_grid(&mut run);
    run.finish()
}
