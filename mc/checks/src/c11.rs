//! C11 — privileged methods are callable only by their designated callers. DESIGN §3 C11.
//!
//! Not a search but a complete matrix: every (actor type, method number, caller class) cell is
//! executed against the real actor code on a rich base state built with real messages, and the
//! outcome (accepted / rejected, state root before and after) is compared with a hand-written
//! **authority table** (the specification: "system only", "type Miner", "owner only", "any" …).
//!
//! * A row = (actor type, method number) with a *parameter recipe* and a designated caller set;
//!   the first designated caller is the positive control. A row whose control does not succeed is
//!   `undecided` (counted and listed, never judged, never dropped).
//! * Every designated column must succeed, every other column must fail and leave the state root
//!   untouched. Columns the protocol says nothing about are marked `either` in the table.
//! * Where the authority depends on the history (who proposed / already approved a multisig
//!   transaction; whether a beneficiary proposal was made by the current owner), the base states
//!   contain that history (built with real messages) and the table is written for it: wallet X has
//!   a transaction approved by [A] and one approved by [A, B] (rows `multisig` / `multisig#tx1`),
//!   base `stale-nominee` has a beneficiary proposal of the previous owner.
//! * Universal clauses: (a) methods below 2^24 are refused for EVM-contract and non-built-in
//!   callers on every actor dispatching through `actor_dispatch!`; (b) no completed call may show
//!   "failed to validate caller"; (c) undefined method numbers are refused for every caller
//!   except where the actor documents a fallback for the exported range.
use crate::miner::*;
use crate::util::*;
use cid::Cid;
use fil_actor_miner as fm;
use fil_actors_evm_shared::address::EthAddress;
use fil_actors_runtime::runtime::{EMPTY_ARR_CID, Policy};
use fil_actors_runtime::test_utils::*;
use fil_actors_runtime::{
    BURNT_FUNDS_ACTOR_ADDR, DATACAP_TOKEN_ACTOR_ADDR, EAM_ACTOR_ADDR, EAM_ACTOR_ID, INIT_ACTOR_ADDR,
    STORAGE_MARKET_ACTOR_ADDR, SYSTEM_ACTOR_ADDR, VERIFIED_REGISTRY_ACTOR_ADDR,
};
use fvm_ipld_encoding::ipld_block::IpldBlock;
use fvm_ipld_encoding::{BytesDe, RawBytes};
use fvm_shared::address::Address;
use fvm_shared::bigint::BigInt;
use fvm_shared::bigint::bigint_ser::BigIntDe;
use fvm_shared::crypto::signature::{Signature, SignatureType};
use fvm_shared::econ::TokenAmount;
use fvm_shared::piece::PaddedPieceSize;
use fvm_shared::sector::RegisteredUpdateProof;
use fvm_shared::{ActorID, METHOD_SEND};
use mcvm::{
    FAUCET_ID, Inv, MsgKind, Snapshot, Store, VERIFREG_ROOT_ID, VERIFREG_ROOT_SIGNER_ID, Vm, fake_sign,
};
use num_traits::{FromPrimitive, Zero};
use serde::{Deserialize, Serialize};
use serde_json::{Value, json};
use std::collections::{BTreeMap, BTreeSet};
use std::rc::Rc;

pub const FIRST_EXPORTED: u64 = 1 << 24;

// =========================================================================================
// Caller classes (columns)
// =========================================================================================

#[derive(Clone, Copy, Debug, PartialEq, Eq, PartialOrd, Ord, Serialize, Deserialize)]
pub enum Col {
    System,
    Init,
    Reward,
    Cron,
    Power,
    Market,
    Verifreg,
    Datacap,
    Eam,
    Burnt,
    /// the subject miner M1
    MinerThis,
    /// another miner M2
    MinerOther,
    Owner,
    Worker,
    Control,
    /// active beneficiary of M1, different from the owner
    Beneficiary,
    /// nominated (not yet confirmed) owner of M1
    PendingOwner,
    /// nominee of a pending (unapproved) beneficiary change of M1
    PendingBeneficiary,
    /// signer of the multisig X and proposer of its pending transactions 0 and 1
    MsigSignerA,
    /// second signer of X; approved (did not propose) its pending transaction 1
    MsigSignerB,
    /// third signer of X; has approved nothing
    MsigSignerC,
    PaychPayer,
    PaychPayee,
    Verifier,
    /// verified client, deal client
    Client,
    /// signer account of the verified-registry root multisig
    RootSigner,
    /// the verified-registry root key (a multisig actor)
    RootMsig,
    /// a plain account without any role
    Stranger,
    /// the multisig X (an actor caller)
    Multisig,
    /// the payment channel P1 (an actor caller)
    Paych,
    EvmContract,
    EthAccount,
    /// a placeholder that becomes an Ethereum account with this very message
    FreshEthAccount,
    /// an actor whose code CID is not a built-in actor
    Foreign,
}

pub const COLS: [Col; 34] = [
    Col::System,
    Col::Init,
    Col::Reward,
    Col::Cron,
    Col::Power,
    Col::Market,
    Col::Verifreg,
    Col::Datacap,
    Col::Eam,
    Col::Burnt,
    Col::MinerThis,
    Col::MinerOther,
    Col::Owner,
    Col::Worker,
    Col::Control,
    Col::Beneficiary,
    Col::PendingOwner,
    Col::PendingBeneficiary,
    Col::MsigSignerA,
    Col::MsigSignerB,
    Col::MsigSignerC,
    Col::PaychPayer,
    Col::PaychPayee,
    Col::Verifier,
    Col::Client,
    Col::RootSigner,
    Col::RootMsig,
    Col::Stranger,
    Col::Multisig,
    Col::Paych,
    Col::EvmContract,
    Col::EthAccount,
    Col::FreshEthAccount,
    Col::Foreign,
];

/// Columns that are key accounts / Ethereum accounts: they send `External` messages.
pub const ACCOUNT_COLS: [Col; 17] = [
    Col::Owner,
    Col::Worker,
    Col::Control,
    Col::Beneficiary,
    Col::PendingOwner,
    Col::PendingBeneficiary,
    Col::MsigSignerA,
    Col::MsigSignerB,
    Col::MsigSignerC,
    Col::PaychPayer,
    Col::PaychPayee,
    Col::Verifier,
    Col::Client,
    Col::RootSigner,
    Col::Stranger,
    Col::EthAccount,
    Col::FreshEthAccount,
];

impl Col {
    pub fn external(self) -> bool {
        ACCOUNT_COLS.contains(&self)
    }
    pub fn name(self) -> String {
        format!("{self:?}")
    }
    pub fn parse(s: &str) -> Option<Col> {
        COLS.iter().copied().find(|c| c.name() == s)
    }
}

// =========================================================================================
// Base state
// =========================================================================================

pub const BASES_QUICK: [&str; 2] = ["rich", "stale-nominee"];
pub const BASES_THOROUGH: [&str; 5] = ["rich", "stale-nominee", "fresh-miner", "fee-debt", "handed-over"];

#[derive(Clone)]
pub struct Cast {
    pub ids: BTreeMap<Col, ActorID>,
    /// key addresses of the key accounts (for fake signatures)
    pub keys: BTreeMap<Col, Address>,
    pub m1: ActorID,
    pub m2: ActorID,
    pub msig: ActorID,
    pub paych: ActorID,
    /// a second channel, settled and past its settle delay (target of Collect)
    pub paych_settled: ActorID,
    pub evm: ActorID,
    pub evm_eth: [u8; 20],
    /// a contract that self-destructed in an earlier message (target of Resurrect)
    pub evm_dead: ActorID,
    pub verifier2: (ActorID, Address),
    /// unconstructed shells (code installed, empty state): what Init / genesis creates right
    /// before it calls the constructor. Targets of the Constructor rows.
    pub shells: BTreeMap<&'static str, ActorID>,
    pub deal_published: u64,
    pub deal_active: u64,
    /// an open verified allocation (client -> M1, 2 KiB)
    pub allocation: u64,
    /// the beneficiary proposal (nominee, quota, expiration) the owner of M1 made last
    pub ben_proposal: (ActorID, TokenAmount, i64),
    /// that proposal was made by the *previous* owner: ownership changed afterwards and the new
    /// owner proposed nothing (base `stale-nominee`)
    pub proposal_stale: bool,
    /// sector layout of M1 (None in the base without sectors)
    pub lay: Option<Layout>,
}

#[derive(Clone, Debug)]
pub struct Layout {
    /// the open deadline; holds the proven-by-nobody-yet sectors {1,2,3}
    pub dl_open: u64,
    /// the deadline that closed last; holds sector 6 and an optimistic PoSt with a bad proof
    pub dl_prev: u64,
    /// a mutable deadline; holds sectors 4, 5 (partition 0) and sector 7 (partition 1, declared faulty)
    pub dl_mut: u64,
    pub precommitted: u64,
    pub exp: i64,
}

impl Cast {
    pub fn id(&self, c: Col) -> ActorID {
        self.ids[&c]
    }
    pub fn a(&self, c: Col) -> Address {
        id(self.ids[&c])
    }
}

pub fn c11_policy() -> Policy {
    let mut p = small_policy();
    // A pre-commit must declare an expiration beyond the (hard-coded) 30-day prove-commit window;
    // the matrix keeps the mainnet maximum sector lifetime so that PreCommitSectorBatch2 /
    // ProveCommitSectors3 have a succeeding designated call whatever SMALL sets it to.
    p.max_sector_expiration_extension = Policy::default().max_sector_expiration_extension;
    p
}

fn fund(vm: &Vm, to: &Address, amount: &TokenAmount) {
    let r = vm.apply(MsgKind::Implicit, &id(FAUCET_ID), to, amount, METHOD_SEND, None);
    assert!(r.ok(), "SETUP-FAILED funding {to}: {}", r.tree());
}

fn must(r: Inv, what: &str) -> Inv {
    assert!(r.ok(), "SETUP-FAILED {what}: {}", r.tree());
    r
}

fn exec(vm: &Vm, by: ActorID, code: Cid, ctor: RawBytes, value: &TokenAmount, what: &str) -> ActorID {
    let r = must(
        ext(
            vm,
            by,
            &INIT_ACTOR_ADDR,
            value,
            fil_actor_init::Method::Exec as u64,
            Some(&fil_actor_init::ExecParams { code_cid: code, constructor_params: ctor }),
        ),
        what,
    );
    let ret: fil_actor_init::ExecReturn = r.ret.unwrap().deserialize().unwrap();
    ret.id_address.id().unwrap()
}

fn f4(eth: &[u8; 20]) -> Address {
    Address::new_delegated(EAM_ACTOR_ID, eth).unwrap()
}

/// init code returning the one-byte runtime `STOP`
pub const INIT_INERT: &[u8] = &[0x5f, 0x5f, 0x53, 0x60, 0x01, 0x5f, 0xf3];
/// init code returning the runtime `CALLER SELFDESTRUCT`
pub const INIT_KILLABLE: &[u8] = &[0x61, 0x33, 0xff, 0x5f, 0x52, 0x60, 0x02, 0x60, 0x1e, 0xf3];

fn deploy(vm: &Vm, by: ActorID, initcode: &[u8], what: &str) -> (ActorID, [u8; 20]) {
    let r = must(
        ext(
            vm,
            by,
            &EAM_ACTOR_ADDR,
            &TokenAmount::zero(),
            fil_actor_eam::Method::CreateExternal as u64,
            Some(&fil_actor_eam::CreateExternalParams(initcode.to_vec())),
        ),
        what,
    );
    let ret: fil_actor_eam::Return = r.ret.unwrap().deserialize().unwrap();
    (ret.actor_id, ret.eth_address.0)
}

fn root_propose(vm: &Vm, method: u64, params: RawBytes, what: &str) {
    let r = must(
        ext(
            vm,
            VERIFREG_ROOT_SIGNER_ID,
            &id(VERIFREG_ROOT_ID),
            &TokenAmount::zero(),
            fil_actor_multisig::Method::Propose as u64,
            Some(&fil_actor_multisig::ProposeParams { to: VERIFIED_REGISTRY_ACTOR_ADDR, value: TokenAmount::zero(), method, params }),
        ),
        what,
    );
    let p: fil_actor_multisig::ProposeReturn = r.ret.unwrap().deserialize().unwrap();
    assert!(p.applied && p.code.is_success(), "SETUP-FAILED {what}: not applied (code {})", p.code);
}

pub fn deal_proposal(client: ActorID, client_key: &Address, provider: ActorID, piece: u8, start: i64) -> fil_actor_market::ClientDealProposal {
    let proposal = fil_actor_market::DealProposal {
        piece_cid: make_piece_cid(&[b'c', b'1', b'1', piece]),
        piece_size: PaddedPieceSize(2048),
        verified_deal: false,
        client: id(client),
        provider: id(provider),
        label: fil_actor_market::Label::String(format!("c11-{piece}")),
        start_epoch: start,
        end_epoch: start + 180 * 2880,
        storage_price_per_epoch: atto(1),
        provider_collateral: fil(1),
        client_collateral: TokenAmount::zero(),
    };
    let bz = RawBytes::serialize(&proposal).unwrap();
    fil_actor_market::ClientDealProposal {
        proposal,
        client_signature: Signature { sig_type: SignatureType::BLS, bytes: fake_sign(client_key, &bz) },
    }
}

fn tick_ok(vm: &Vm) {
    let r = vm.tick();
    assert!(r.ok(), "SETUP-FAILED cron tick: {}", r.tree());
}

pub fn precommit_info(m: ActorID, n: u64, now: i64, exp: i64) -> fm::SectorPreCommitInfo {
    fm::SectorPreCommitInfo {
        seal_proof: SEAL_PROOF,
        sector_number: n,
        sealed_cid: make_sealed_cid(format!("c11-sealed-{m}-{n}").as_bytes()),
        seal_rand_epoch: now - 1,
        deal_ids: vec![],
        expiration: exp,
        unsealed_cid: fm::CompactCommD(None),
    }
}

/// Build the base state `variant` with real messages; returns the cast.
pub fn build(vm: &Vm, variant: &str) -> Cast {
    let z = TokenAmount::zero();
    vm.bump_nonce.set(true);
    let mut ids: BTreeMap<Col, ActorID> = BTreeMap::new();
    let mut keys: BTreeMap<Col, Address> = BTreeMap::new();
    let mut acct = |col: Col, seed: u8| {
        let (i, k) = vm.new_account(seed, &fil(100_000));
        ids.insert(col, i);
        keys.insert(col, k);
        i
    };
    // ---- a payment channel that is settled and collectable (needs 12 h of chain time: done first,
    //      while nothing else exists and every tick is idle)
    let payer = acct(Col::PaychPayer, 31);
    let payee = acct(Col::PaychPayee, 32);
    let paych_ctor = |a: ActorID, b: ActorID| RawBytes::serialize(fil_actor_paych::ConstructorParams { from: id(a), to: id(b) }).unwrap();
    let paych_settled = exec(vm, payer, *PAYCH_ACTOR_CODE_ID, paych_ctor(payer, payee), &atto(1000), "paych (to settle)");
    must(ext(vm, payer, &id(paych_settled), &z, fil_actor_paych::Method::Settle as u64, NOP), "paych settle");
    for _ in 0..(fil_actor_paych::SETTLE_DELAY + 2) {
        tick_ok(vm);
    }
    // ---- miners (ballast miner M2 with a large locked reward, subject miner M1)
    let mc = setup(vm, true);
    vm.bump_nonce.set(true);
    let mut acct = |col: Col, i: ActorID, seed: u8| {
        let mut key = [0u8; fvm_shared::address::BLS_PUB_LEN];
        key[0] = seed;
        key[1] = 0xAC;
        ids.insert(col, i);
        keys.insert(col, Address::new_bls(&key).unwrap());
    };
    acct(Col::Owner, mc.o, 11);
    acct(Col::Worker, mc.w, 12);
    acct(Col::Control, mc.c, 13);
    acct(Col::Stranger, mc.z, 14);
    let (m1, m2) = (mc.m, mc.bm);
    let mut acct = |col: Col, seed: u8| {
        let (i, k) = vm.new_account(seed, &fil(100_000));
        ids.insert(col, i);
        keys.insert(col, k);
        i
    };
    let ben = acct(Col::Beneficiary, 41);
    let nominee = acct(Col::PendingOwner, 42);
    let pben = acct(Col::PendingBeneficiary, 43);
    let sa = acct(Col::MsigSignerA, 44);
    let sb = acct(Col::MsigSignerB, 45);
    let sc = acct(Col::MsigSignerC, 49);
    let verifier = acct(Col::Verifier, 46);
    let client = acct(Col::Client, 48);
    let verifier2 = vm.new_account(47, &fil(100_000));
    ids.insert(Col::RootSigner, VERIFREG_ROOT_SIGNER_ID);
    keys.insert(Col::RootSigner, Address::new_bls(mcvm::VERIFREG_ROOT_KEY).unwrap());
    fund(vm, &id(VERIFREG_ROOT_SIGNER_ID), &fil(100_000));
    let (o, w, c, stranger) = (mc.o, mc.w, mc.c, mc.z);
    let maddr = id(m1);

    // ---- control roles of M1
    must(
        ext(vm, o, &maddr, &z, fm::Method::ChangeWorkerAddress as u64, Some(&fm::ChangeWorkerAddressParams { new_worker: id(w), new_control_addresses: vec![id(c)] })),
        "set control address",
    );
    let far = vm.epoch() + 1_000_000;
    let ben_params = fm::ChangeBeneficiaryParams { new_beneficiary: id(ben), new_quota: fil(1000), new_expiration: far };
    must(ext(vm, o, &maddr, &z, fm::Method::ChangeBeneficiary as u64, Some(&ben_params)), "propose beneficiary");
    must(ext(vm, ben, &maddr, &z, fm::Method::ChangeBeneficiary as u64, Some(&ben_params)), "confirm beneficiary");

    // ---- sectors of M1 (see `Layout`)
    let mut lay = None;
    if variant != "fresh-miner" {
        let v = view(vm, m1).unwrap();
        let cur = v.dl_info.index;
        let (d_prev, d_open, d_mut) = ((cur + 2) % 4, (cur + 3) % 4, (cur + 1) % 4);
        let exp = vm.epoch() + 400;
        must(ni_commit(vm, w, m1, &[6], d_prev, exp), "NI commit {6}");
        must(ni_commit(vm, w, m1, &[1, 2, 3], d_open, exp), "NI commit {1,2,3}");
        while view(vm, m1).unwrap().dl_info.index != d_prev {
            tick_ok(vm);
        }
        // optimistically accepted PoSt with an invalid proof (disputable once the window closed)
        must(submit_post(vm, w, m1, d_prev, &[(0, vec![])], true), "optimistic PoSt");
        must(ni_commit(vm, w, m1, &[4, 5, 7], d_mut, exp), "NI commit {4,5,7}");
        must(declare_faults(vm, w, m1, &[(d_mut, 1, vec![7])]), "declare sector 7 faulty");
        let now = vm.epoch();
        let pc_exp = now + 31 * 2880 + 200;
        must(
            ext(vm, w, &maddr, &z, fm::Method::PreCommitSectorBatch2 as u64, Some(&fm::PreCommitSectorBatchParams2 { sectors: vec![precommit_info(m1, 20, now, pc_exp)] })),
            "pre-commit sector 20",
        );
        while view(vm, m1).unwrap().dl_info.index != d_open {
            tick_ok(vm);
        }
        lay = Some(Layout { dl_open: d_open, dl_prev: d_prev, dl_mut: d_mut, precommitted: 20, exp });
    } else {
        for _ in 0..3 {
            tick_ok(vm);
        }
    }

    // ---- multisig X: signers A, B, C, threshold 3; two pending transactions proposed by A:
    //      0 approved by [A], 1 approved by [A, B]
    let msig = exec(
        vm,
        sa,
        *MULTISIG_ACTOR_CODE_ID,
        RawBytes::serialize(fil_actor_multisig::ConstructorParams { signers: vec![id(sa), id(sb), id(sc)], num_approvals_threshold: 3, unlock_duration: 0, start_epoch: 0 }).unwrap(),
        &fil(20_000),
        "multisig",
    );
    ids.insert(Col::Multisig, msig);
    for k in 0..2 {
        must(
            ext(vm, sa, &id(msig), &z, fil_actor_multisig::Method::Propose as u64, Some(&fil_actor_multisig::ProposeParams { to: id(stranger), value: atto(1 + k), method: METHOD_SEND, params: RawBytes::default() })),
            "multisig pending proposal",
        );
    }
    let r = must(
        ext(vm, sb, &id(msig), &z, fil_actor_multisig::Method::Approve as u64, Some(&fil_actor_multisig::TxnIDParams { id: fil_actor_multisig::TxnID(1), proposal_hash: vec![] })),
        "multisig approval of transaction 1 by B",
    );
    let ar: fil_actor_multisig::ApproveReturn = r.ret.unwrap().deserialize().unwrap();
    assert!(!ar.applied, "SETUP-FAILED transaction 1 must stay pending");
    ids.insert(Col::RootMsig, VERIFREG_ROOT_ID);

    // ---- payment channel P1 (fresh)
    let paych = exec(vm, payer, *PAYCH_ACTOR_CODE_ID, paych_ctor(payer, payee), &fil(20_000), "paych");
    ids.insert(Col::Paych, paych);

    // ---- EVM: a live contract, a self-destructed contract, an Ethereum account, a placeholder
    let dead_too = variant == "handed-over";
    let (evm, evm_eth) = deploy(vm, stranger, if dead_too { INIT_KILLABLE } else { INIT_INERT }, "deploy contract");
    let (evm_dead, _) = deploy(vm, stranger, INIT_KILLABLE, "deploy killable contract");
    ids.insert(Col::EvmContract, evm);
    let invoke = fil_actor_evm::Method::InvokeContract as u64;
    must(ext(vm, stranger, &id(evm_dead), &z, invoke, Some(&fil_actor_evm::InvokeContractParams { input_data: vec![] })), "self-destruct contract");
    fund(vm, &id(evm), &fil(10_000));
    if dead_too {
        // the contract sends its balance to the caller when it self-destructs
        must(ext(vm, stranger, &id(evm), &z, invoke, Some(&fil_actor_evm::InvokeContractParams { input_data: vec![] })), "self-destruct contract E");
        fund(vm, &id(evm), &fil(10_000));
    }
    let (e1, e2) = ([0xE1u8; 20], [0xE2u8; 20]);
    fund(vm, &f4(&e1), &fil(100_000));
    fund(vm, &f4(&e2), &fil(100_000));
    let ethacc = vm.resolve(&f4(&e1)).unwrap();
    let fresh = vm.resolve(&f4(&e2)).unwrap();
    must(ext(vm, ethacc, &BURNT_FUNDS_ACTOR_ADDR, &atto(1), METHOD_SEND, NOP), "first message of the Ethereum account");
    ids.insert(Col::EthAccount, ethacc);
    ids.insert(Col::FreshEthAccount, fresh);

    // ---- verified registry: two verifiers, one client
    let cap = BigInt::from(1u64 << 30);
    for v in [verifier, verifier2.0] {
        root_propose(
            vm,
            fil_actor_verifreg::Method::AddVerifier as u64,
            RawBytes::serialize(fil_actor_verifreg::VerifierParams { address: id(v), allowance: cap.clone() }).unwrap(),
            "add verifier",
        );
    }
    must(
        ext(vm, verifier, &VERIFIED_REGISTRY_ACTOR_ADDR, &z, fil_actor_verifreg::Method::AddVerifiedClient as u64, Some(&fil_actor_verifreg::VerifierParams { address: id(client), allowance: BigInt::from(1u64 << 20) })),
        "add verified client",
    );

    // an open allocation of the client for M1 (claimable)
    let alloc_data = make_piece_cid(b"c11-alloc");
    let areq = fil_actor_verifreg::AllocationRequests {
        allocations: vec![fil_actor_verifreg::AllocationRequest { provider: m1, data: alloc_data, size: PaddedPieceSize(2048), term_min: 72, term_max: 1000, expiration: vm.epoch() + 40 }],
        extensions: vec![],
    };
    let r = must(
        ext(
            vm,
            client,
            &DATACAP_TOKEN_ACTOR_ADDR,
            &z,
            fil_actor_datacap::Method::TransferExported as u64,
            Some(&frc46_token::token::types::TransferParams { to: VERIFIED_REGISTRY_ACTOR_ADDR, amount: TokenAmount::from_whole(2048), operator_data: RawBytes::serialize(&areq).unwrap() }),
        ),
        "allocation",
    );
    let tr: frc46_token::token::types::TransferReturn = r.ret.unwrap().deserialize().unwrap();
    let ar: fil_actor_verifreg::AllocationsResponse = tr.recipient_data.deserialize().unwrap();
    let allocation = ar.new_allocations[0];

    // ---- market: escrow for the client and for M1, one published and one activated deal
    let add = |to: ActorID, by: ActorID| {
        must(
            ext(vm, by, &STORAGE_MARKET_ACTOR_ADDR, &fil(100), fil_actor_market::Method::AddBalance as u64, Some(&fil_actor_market::AddBalanceParams { provider_or_client: id(to) })),
            "market add balance",
        );
    };
    add(client, client);
    add(m1, o);
    let start = vm.epoch() + 2000;
    let r = must(
        ext(
            vm,
            w,
            &STORAGE_MARKET_ACTOR_ADDR,
            &z,
            fil_actor_market::Method::PublishStorageDeals as u64,
            Some(&fil_actor_market::PublishStorageDealsParams { deals: vec![deal_proposal(client, &keys[&Col::Client], m1, 1, start), deal_proposal(client, &keys[&Col::Client], m1, 2, start)] }),
        ),
        "publish deals",
    );
    let pr: fil_actor_market::PublishStorageDealsReturn = r.ret.unwrap().deserialize().unwrap();
    assert_eq!(pr.ids.len(), 2, "SETUP-FAILED publish: {:?}", pr.ids);
    let (deal_published, deal_active) = (pr.ids[0], pr.ids[1]);
    must(
        imp(
            vm,
            m1,
            &STORAGE_MARKET_ACTOR_ADDR,
            &z,
            fil_actor_market::Method::BatchActivateDeals as u64,
            Some(&fil_actor_market::BatchActivateDealsParams {
                sectors: vec![fil_actor_market::SectorDeals { sector_number: 77, sector_type: SEAL_PROOF, sector_expiry: start + 181 * 2880, deal_ids: vec![deal_active] }],
                compute_cid: false,
            }),
        ),
        "activate deal",
    );

    // ---- pending hand-overs of M1
    let own = |by: ActorID, to: ActorID, what: &str| {
        must(ext(vm, by, &maddr, &z, fm::Method::ChangeOwnerAddress as u64, Some(&fm::ChangeOwnerAddressParams { new_owner: id(to) })), what);
    };
    own(o, nominee, "nominate owner");
    let propose = |by: ActorID| {
        must(ext(vm, by, &maddr, &z, fm::Method::ChangeBeneficiary as u64, Some(&pending_beneficiary_params(pben, far))), "propose second beneficiary");
    };
    let proposal_stale = variant == "stale-nominee";
    if proposal_stale {
        // the old owner's proposal is still unapproved when ownership moves on
        propose(o);
    }
    if variant == "handed-over" || proposal_stale {
        // the nominee confirms; the new owner then nominates the old owner back
        own(nominee, nominee, "confirm owner");
        own(nominee, o, "nominate old owner");
        ids.insert(Col::Owner, nominee);
        ids.insert(Col::PendingOwner, o);
        let (ko, kn) = (keys[&Col::Owner], keys[&Col::PendingOwner]);
        keys.insert(Col::Owner, kn);
        keys.insert(Col::PendingOwner, ko);
    }
    if !proposal_stale {
        propose(ids[&Col::Owner]);
    }

    // ---- fee debt
    if variant == "fee-debt" {
        let avail = {
            let r = must(ext(vm, stranger, &maddr, &z, fm::Method::GetAvailableBalanceExported as u64, NOP), "available balance");
            let a: fm::GetAvailableBalanceReturn = r.ret.unwrap().deserialize().unwrap();
            a.available_balance
        };
        must(withdraw(vm, ben, m1, &avail), "withdraw everything");
        must(report_fault(vm, stranger, m1, vm.epoch() - 1), "consensus fault");
        let st: fm::State = vm.state_of(m1).unwrap();
        assert!(st.fee_debt.is_positive(), "SETUP-FAILED fee-debt base: miner has no fee debt");
    }

    // ---- callers that are not accounts need funds for the rows that carry value
    ids.insert(Col::System, 0);
    ids.insert(Col::Init, 1);
    ids.insert(Col::Reward, 2);
    ids.insert(Col::Cron, 3);
    ids.insert(Col::Power, 4);
    ids.insert(Col::Market, 5);
    ids.insert(Col::Verifreg, 6);
    ids.insert(Col::Datacap, 7);
    ids.insert(Col::Eam, EAM_ACTOR_ID);
    ids.insert(Col::Burnt, BURNT_FUNDS_ACTOR_ADDR.id().unwrap());
    ids.insert(Col::MinerThis, m1);
    ids.insert(Col::MinerOther, m2);
    let foreign = 5000;
    vm.install_foreign(foreign, fil(100_000));
    ids.insert(Col::Foreign, foreign);
    for col in [Col::System, Col::Init, Col::Cron, Col::Power, Col::Market, Col::Verifreg, Col::Datacap, Col::Eam, Col::Burnt, Col::MinerOther, Col::RootMsig] {
        fund(vm, &id(ids[&col]), &fil(20_000));
    }
    // (in the fee-debt base the debt stays on the books until a method of the miner repays it)
    fund(vm, &id(m1), &fil(20_000));

    // ---- unconstructed shells for the Constructor rows
    let mut shells = BTreeMap::new();
    let shell_codes: [(&'static str, Cid, Option<Address>); 16] = [
        ("system", *SYSTEM_ACTOR_CODE_ID, None),
        ("init", *INIT_ACTOR_CODE_ID, None),
        ("reward", *REWARD_ACTOR_CODE_ID, None),
        ("cron", *CRON_ACTOR_CODE_ID, None),
        ("power", *POWER_ACTOR_CODE_ID, None),
        ("market", *MARKET_ACTOR_CODE_ID, None),
        ("verifreg", *VERIFREG_ACTOR_CODE_ID, None),
        ("datacap", *DATACAP_TOKEN_ACTOR_CODE_ID, None),
        ("account", *ACCOUNT_ACTOR_CODE_ID, None),
        ("miner", *MINER_ACTOR_CODE_ID, None),
        ("multisig", *MULTISIG_ACTOR_CODE_ID, None),
        ("paych", *PAYCH_ACTOR_CODE_ID, None),
        ("evm", *EVM_ACTOR_CODE_ID, Some(f4(&[0xC1; 20]))),
        ("ethaccount", *ETHACCOUNT_ACTOR_CODE_ID, Some(f4(&[0xC2; 20]))),
        ("eam", *EAM_ACTOR_CODE_ID, None),
        ("placeholder", *PLACEHOLDER_ACTOR_CODE_ID, Some(f4(&[0xC3; 20]))),
    ];
    for (k, (name, code, del)) in shell_codes.into_iter().enumerate() {
        let sid = 9000 + k as u64;
        vm.set_actor(sid, Some(mcvm::actor(code, EMPTY_ARR_CID, fil(10_000), del)));
        shells.insert(name, sid);
    }
    vm.flush();
    vm.bump_nonce.set(false);
    Cast { ids, keys, m1, m2, msig, paych, paych_settled, evm, evm_eth, evm_dead, verifier2, shells, deal_published, deal_active, allocation, ben_proposal: (pben, fil(7), far + 7), proposal_stale, lay }
}

pub fn pending_beneficiary_params(pben: ActorID, far: i64) -> fm::ChangeBeneficiaryParams {
    fm::ChangeBeneficiaryParams { new_beneficiary: id(pben), new_quota: fil(7), new_expiration: far + 7 }
}

// =========================================================================================
// Rows: (actor type, method number), authority, parameter recipe
// =========================================================================================

pub type Recipe = Rc<dyn Fn(Col) -> Option<IpldBlock>>;

#[derive(Clone)]
pub struct Row {
    pub actor: &'static str,
    pub target: ActorID,
    pub method: u64,
    pub name: String,
    /// the authority rule in words (the specification)
    pub rule: String,
    /// designated callers; the first one is the positive control
    pub allow: Vec<Col>,
    /// every caller is designated (subject to clause (a) for methods below 2^24)
    pub any: bool,
    /// callers about which the protocol rules say nothing for this recipe
    pub either: Vec<Col>,
    pub value: TokenAmount,
    pub params: Recipe,
    /// defined in the actor's `Method` enum
    pub defined: bool,
    /// the actor dispatches through `actor_dispatch!` (restrict_internal_api applies)
    pub restricted: bool,
    /// a defined method number for which the authority table has no entry
    pub missing: bool,
}

#[derive(Clone, Copy, Debug, PartialEq, Eq, Serialize)]
pub enum Exp {
    Allow,
    Deny,
    Either,
}

impl Row {
    pub fn expect(&self, col: Col) -> Exp {
        if self.method == METHOD_SEND {
            // a bare value transfer never reaches actor code
            return Exp::Allow;
        }
        if self.restricted && self.method < FIRST_EXPORTED && (col == Col::EvmContract || col == Col::Foreign) {
            return Exp::Deny; // clause (a)
        }
        if self.either.contains(&col) {
            return Exp::Either;
        }
        if self.any || self.allow.contains(&col) { Exp::Allow } else { Exp::Deny }
    }
    pub fn control(&self) -> Option<Col> {
        if self.method == METHOD_SEND {
            return Some(Col::Stranger);
        }
        if self.any {
            return Some(self.allow.first().copied().unwrap_or(Col::Stranger));
        }
        self.allow.first().copied()
    }
    pub fn key(&self) -> String {
        format!("{}:{}", self.actor, self.method)
    }
}

fn none() -> Recipe {
    Rc::new(|_| None)
}
fn p<T: Serialize>(t: &T) -> Recipe {
    let b = params(t);
    Rc::new(move |_| b.clone())
}

pub struct Table {
    pub rows: Vec<Row>,
    restricted: bool,
    actor: &'static str,
    target: ActorID,
}

impl Table {
    fn actor(&mut self, actor: &'static str, target: ActorID, restricted: bool) {
        self.actor = actor;
        self.target = target;
        self.restricted = restricted;
    }
    fn push(&mut self, method: u64, name: &str, rule: &str, allow: &[Col], any: bool, params: Recipe) -> &mut Row {
        self.rows.push(Row {
            actor: self.actor,
            target: self.target,
            method,
            name: name.to_string(),
            rule: rule.to_string(),
            allow: allow.to_vec(),
            any,
            either: vec![],
            value: TokenAmount::zero(),
            params,
            defined: true,
            restricted: self.restricted,
            missing: false,
        });
        self.rows.last_mut().unwrap()
    }
    /// designated set
    fn only(&mut self, method: u64, name: &str, rule: &str, allow: &[Col], params: Recipe) -> &mut Row {
        self.push(method, name, rule, allow, false, params)
    }
    /// every caller
    fn any(&mut self, method: u64, name: &str, params: Recipe) -> &mut Row {
        self.push(method, name, "any caller", &[Col::Stranger], true, params)
    }
}

/// FRC-42 method names known to the repository (used to discover the exported numbers of every
/// `Method` enum) plus one name nobody exports.
pub fn frc42_names() -> Vec<(&'static str, u64)> {
    macro_rules! h {
        ($($n:literal),* $(,)?) => { vec![$(($n, frc42_dispatch::method_hash!($n))),*] };
    }
    h![
        "AddBalance", "AddVerifiedClient", "Allowance", "AuthenticateMessage", "Balance", "Burn", "BurnFrom",
        "ChangeBeneficiary", "ChangeMultiaddrs", "ChangeOwnerAddress", "ChangePeerID", "ChangeWorkerAddress",
        "ConfirmChangeWorkerAddress", "CreateMiner", "DecreaseAllowance", "Destroy", "ExtendClaimTerms",
        "GenerateSectorLocation", "GetAvailableBalance", "GetBalance", "GetBeneficiary", "GetClaims",
        "GetDealActivation", "GetDealClient", "GetDealClientCollateral", "GetDealDataCommitment", "GetDealLabel",
        "GetDealProvider", "GetDealProviderCollateral", "GetDealSector", "GetDealTerm", "GetDealTotalPrice",
        "GetDealVerified", "GetMultiaddrs", "GetNominalSectorExpiration", "GetOwner", "GetPeerID", "GetSectorSize",
        "GetVestingFunds", "Granularity", "IncreaseAllowance", "InitialPledge", "InvokeEVM", "IsControllingAddress",
        "MarketNotifyDeal", "MaxTerminationFee", "MinerConsensusCount", "MinerCount", "MinerPower", "MinerRawPower",
        "Mint", "Name", "NetworkRawPower", "PublishStorageDeals", "Receive", "RemoveExpiredAllocations",
        "RemoveExpiredClaims", "RepayDebt", "RevokeAllowance", "SectorContentChanged", "SettleDealPayments", "Symbol",
        "TotalSupply", "Transfer", "TransferFrom", "ValidateSectorStatus", "WithdrawBalance",
    ]
}

pub const UNASSIGNED_HASH: u64 = frc42_dispatch::method_hash!("C11NobodyExportsThisMethod");

/// Is `n` a variant of the actor type's `Method` enum?
pub fn defined(actor: &str, n: u64) -> bool {
    match actor {
        "system" => fil_actor_system::Method::from_u64(n).is_some(),
        "init" => fil_actor_init::Method::from_u64(n).is_some(),
        "reward" => fil_actor_reward::Method::from_u64(n).is_some(),
        "cron" => fil_actor_cron::Method::from_u64(n).is_some(),
        "power" => fil_actor_power::Method::from_u64(n).is_some(),
        "market" => fil_actor_market::Method::from_u64(n).is_some(),
        "verifreg" => fil_actor_verifreg::Method::from_u64(n).is_some(),
        "datacap" => fil_actor_datacap::Method::from_u64(n).is_some(),
        "eam" => fil_actor_eam::Method::from_u64(n).is_some(),
        "account" => fil_actor_account::Method::from_u64(n).is_some(),
        "ethaccount" => fil_actor_ethaccount::Method::from_u64(n).is_some(),
        "miner" => fm::Method::from_u64(n).is_some(),
        "multisig" => fil_actor_multisig::Method::from_u64(n).is_some(),
        "paych" => fil_actor_paych::Method::from_u64(n).is_some(),
        "evm" => fil_actor_evm::Method::from_u64(n).is_some(),
        _ => false,
    }
}

pub const ACTORS: [&str; 15] = [
    "system", "init", "reward", "cron", "power", "market", "verifreg", "datacap", "eam", "account", "ethaccount", "miner",
    "multisig", "paych", "evm",
];

pub fn method_names(actor: &str) -> BTreeMap<u64, String> {
    let mut m = BTreeMap::new();
    for (n, h) in frc42_names() {
        if defined(actor, h) {
            m.insert(h, format!("{n}Exported"));
        }
    }
    m
}

// =========================================================================================
// The authority table (the specification) with its parameter recipes
// =========================================================================================

use Col::*;

const MINERS: [Col; 2] = [MinerThis, MinerOther];
const OWC: [Col; 3] = [Owner, Worker, Control];

fn evm_ctor(creator: [u8; 20], initcode: &[u8]) -> fil_actor_evm::ConstructorParams {
    fil_actor_evm::ConstructorParams { creator: EthAddress(creator), initcode: RawBytes::new(initcode.to_vec()) }
}

pub fn build_rows(vm: &Vm, c: &Cast) -> Vec<Row> {
    let mut t = Table { rows: vec![], restricted: true, actor: "", target: 0 };
    let now = vm.epoch();
    let shell = |n: &str| c.shells[n];
    let ctor = "Constructor";
    let sys_only = "system actor only (constructor, called once at genesis / account creation)";
    let init_only = "Init actor only (constructor, called from Init.Exec/Exec4)";

    // ------------------------------------------------------------------ system
    t.actor("system", shell("system"), true);
    t.only(1, ctor, sys_only, &[System], none());

    // ------------------------------------------------------------------ init
    t.actor("init", shell("init"), true);
    t.only(1, ctor, sys_only, &[System], p(&fil_actor_init::ConstructorParams { network_name: "c11".into() }));
    t.actor("init", 1, true);
    t.any(
        2,
        "Exec",
        p(&fil_actor_init::ExecParams {
            code_cid: *MULTISIG_ACTOR_CODE_ID,
            constructor_params: RawBytes::serialize(fil_actor_multisig::ConstructorParams { signers: vec![c.a(Stranger)], num_approvals_threshold: 1, unlock_duration: 0, start_epoch: 0 }).unwrap(),
        }),
    )
    .either = vec![System];
    t.rows.last_mut().unwrap().rule = "any caller may create a multisig / payment channel (system: not judged - in mcvm its (origin, nonce 0) pair was used by the genesis creation of the registry root multisig, so the stable address repeats)".into();
    t.only(
        3,
        "Exec4",
        "Ethereum address manager only",
        &[Eam],
        // Exec4 puts no restriction on the code: a multisig keeps the recipe independent of the
        // EVM constructor's own checks
        p(&fil_actor_init::Exec4Params {
            code_cid: *MULTISIG_ACTOR_CODE_ID,
            constructor_params: RawBytes::serialize(fil_actor_multisig::ConstructorParams { signers: vec![c.a(Stranger)], num_approvals_threshold: 1, unlock_duration: 0, start_epoch: 0 }).unwrap(),
            subaddress: vec![0xD4u8; 20].into(),
        }),
    );

    // ------------------------------------------------------------------ cron
    t.actor("cron", shell("cron"), true);
    t.only(1, ctor, sys_only, &[System], p(&fil_actor_cron::ConstructorParams { entries: vec![] }));
    t.actor("cron", 3, true);
    t.only(2, "EpochTick", "system actor only (implicit message)", &[System], none());

    // ------------------------------------------------------------------ reward
    t.actor("reward", shell("reward"), true);
    t.only(1, ctor, sys_only, &[System], p(&fil_actor_reward::ConstructorParams { power: Some(BigIntDe(BigInt::from(0))) }));
    t.actor("reward", 2, true);
    t.only(
        2,
        "AwardBlockReward",
        "system actor only (implicit message)",
        &[System],
        p(&fil_actor_reward::AwardBlockRewardParams { miner: id(c.m2), penalty: TokenAmount::zero(), gas_reward: TokenAmount::zero(), win_count: 1 }),
    );
    t.any(3, "ThisEpochReward", none());
    t.only(4, "UpdateNetworkKPI", "power actor only", &[Power], p(&fil_actor_reward::UpdateNetworkKPIParams { curr_realized_power: Some(BigIntDe(BigInt::from(4096))) }));

    // ------------------------------------------------------------------ power
    {
        use fil_actor_power::*;
        t.actor("power", shell("power"), true);
        t.only(1, ctor, sys_only, &[System], none());
        t.actor("power", 4, true);
        let cm = CreateMinerParams { owner: c.a(Stranger), worker: c.a(Stranger), window_post_proof_type: POST_PROOF, peer: b"c11".to_vec(), multiaddrs: vec![BytesDe(b"c11".to_vec())] };
        for (n, name) in [(Method::CreateMiner as u64, "CreateMiner"), (Method::CreateMinerExported as u64, "CreateMinerExported")] {
            let r = t.any(n, name, p(&cm));
            r.value = fil(2000);
            // mcvm artefact, see Init.Exec
            r.either = vec![System];
        }
        let miner_type = "actors of type Miner";
        t.only(3, "UpdateClaimedPower", miner_type, &MINERS, p(&UpdateClaimedPowerParams { raw_byte_delta: BigInt::from(0), quality_adjusted_delta: BigInt::from(0) }));
        t.only(4, "EnrollCronEvent", miner_type, &MINERS, p(&EnrollCronEventParams { event_epoch: now + 5, payload: RawBytes::new(vec![0x80]) }));
        t.only(5, "OnEpochTickEnd", "cron actor only", &[Cron], none());
        t.only(6, "UpdatePledgeTotal", miner_type, &MINERS, p(&UpdatePledgeTotalParams { pledge_delta: atto(1) }));
        t.any(9, "CurrentTotalPower", none());
        t.any(Method::NetworkRawPowerExported as u64, "NetworkRawPowerExported", none());
        t.any(Method::MinerRawPowerExported as u64, "MinerRawPowerExported", p(&MinerRawPowerParams { miner: c.m1 }));
        t.any(Method::MinerCountExported as u64, "MinerCountExported", none());
        t.any(Method::MinerConsensusCountExported as u64, "MinerConsensusCountExported", none());
        t.any(Method::MinerPowerExported as u64, "MinerPowerExported", p(&MinerPowerParams { miner: c.m1 }));
    }

    // ------------------------------------------------------------------ market
    {
        use fil_actor_market::*;
        t.actor("market", shell("market"), true);
        t.only(1, ctor, sys_only, &[System], none());
        t.actor("market", 5, true);
        for (n, name) in [(2, "AddBalance"), (Method::AddBalanceExported as u64, "AddBalanceExported")] {
            t.any(n, name, p(&AddBalanceParams { provider_or_client: c.a(Client) })).value = fil(1);
        }
        t.only(3, "WithdrawBalance", "provider escrow: the miner's owner or worker", &[Owner, Worker], p(&WithdrawBalanceParams { provider_or_client: id(c.m1), amount: atto(1) }));
        t.only(Method::WithdrawBalanceExported as u64, "WithdrawBalanceExported", "client escrow: the client itself", &[Client], p(&WithdrawBalanceParams { provider_or_client: c.a(Client), amount: atto(1) }));
        let start = now + 3000;
        let publish = PublishStorageDealsParams { deals: vec![deal_proposal(c.id(Client), &c.keys[&Client], c.m1, 9, start)] };
        for (n, name) in [(4, "PublishStorageDeals"), (Method::PublishStorageDealsExported as u64, "PublishStorageDealsExported")] {
            t.only(n, name, "a controlling address of the provider (owner, worker, control: Miner.IsControllingAddress)", &[Worker, Control, Owner], p(&publish));
        }
        let miner_type = "actors of type Miner";
        let no_deals = vec![SectorDeals { sector_number: 300, sector_type: SEAL_PROOF, sector_expiry: now + 1000, deal_ids: vec![] }];
        t.only(5, "VerifyDealsForActivation", miner_type, &MINERS, p(&VerifyDealsForActivationParams { sectors: no_deals.clone() }));
        t.only(6, "BatchActivateDeals", miner_type, &MINERS, p(&BatchActivateDealsParams { sectors: no_deals, compute_cid: false }));
        t.only(7, "OnMinerSectorsTerminate", miner_type, &MINERS, p(&OnMinerSectorsTerminateParams { epoch: now, sectors: bf(&[300]) }));
        t.only(9, "CronTick", "cron actor only", &[Cron], none());
        t.any(Method::GetBalanceExported as u64, "GetBalanceExported", p(&GetBalanceParams { account: id(c.m1) }));
        let q = DealQueryParams { id: c.deal_published };
        for (n, name) in [
            (Method::GetDealDataCommitmentExported as u64, "GetDealDataCommitmentExported"),
            (Method::GetDealClientExported as u64, "GetDealClientExported"),
            (Method::GetDealProviderExported as u64, "GetDealProviderExported"),
            (Method::GetDealLabelExported as u64, "GetDealLabelExported"),
            (Method::GetDealTermExported as u64, "GetDealTermExported"),
            (Method::GetDealTotalPriceExported as u64, "GetDealTotalPriceExported"),
            (Method::GetDealClientCollateralExported as u64, "GetDealClientCollateralExported"),
            (Method::GetDealProviderCollateralExported as u64, "GetDealProviderCollateralExported"),
            (Method::GetDealVerifiedExported as u64, "GetDealVerifiedExported"),
            (Method::GetDealActivationExported as u64, "GetDealActivationExported"),
        ] {
            t.any(n, name, p(&q));
        }
        t.any(Method::GetDealSectorExported as u64, "GetDealSectorExported", p(&DealQueryParams { id: c.deal_active }));
        t.any(Method::SettleDealPaymentsExported as u64, "SettleDealPaymentsExported", p(&SettleDealPaymentsParams { deal_ids: bf(&[c.deal_active]) }));
        t.only(
            Method::SectorContentChangedExported as u64,
            "SectorContentChangedExported",
            miner_type,
            &MINERS,
            p(&ext::miner::SectorContentChangedParams { sectors: vec![] }),
        );
    }

    // ------------------------------------------------------------------ verified registry
    {
        use fil_actor_verifreg::*;
        t.actor("verifreg", shell("verifreg"), true);
        t.only(1, ctor, sys_only, &[System], p(&ConstructorParams { root_key: c.a(RootMsig) }));
        t.actor("verifreg", 6, true);
        let root = "root key only";
        t.only(2, "AddVerifier", root, &[RootMsig], p(&VerifierParams { address: c.a(Verifier), allowance: BigInt::from(1u64 << 31) }));
        t.only(3, "RemoveVerifier", root, &[RootMsig], p(&RemoveVerifierParams { verifier: c.a(Verifier) }));
        let avc = VerifierParams { address: c.a(Client), allowance: BigInt::from(4096) };
        for (n, name) in [(4, "AddVerifiedClient"), (Method::AddVerifiedClientExported as u64, "AddVerifiedClientExported")] {
            t.only(n, name, "verifiers only", &[Verifier], p(&avc));
        }
        // two verifiers sign the removal proposal (ids read from the registry state)
        let rdc = {
            let st: State = vm.state_of(6).unwrap();
            let pm = state::RemoveDataCapProposalMap::load(&vm.store, &st.remove_data_cap_proposal_ids, state::REMOVE_DATACAP_PROPOSALS_CONFIG, "rdc").unwrap();
            let amount = BigInt::from(1024);
            let req = |v: ActorID, key: &Address| {
                let pid = pm.get(&AddrPairKey::new(id(v), c.a(Client))).unwrap().map(|x| x.id).unwrap_or(0);
                let prop = RemoveDataCapProposal { verified_client: c.a(Client), data_cap_amount: amount.clone(), removal_proposal_id: RemoveDataCapProposalID { id: pid } };
                let b = RawBytes::serialize(&prop).unwrap();
                let payload = [SIGNATURE_DOMAIN_SEPARATION_REMOVE_DATA_CAP, b.bytes()].concat();
                RemoveDataCapRequest { verifier: id(v), signature: Signature { sig_type: SignatureType::BLS, bytes: fake_sign(key, &payload) } }
            };
            RemoveDataCapParams {
                verified_client_to_remove: c.a(Client),
                data_cap_amount_to_remove: amount.clone(),
                verifier_request_1: req(c.id(Verifier), &c.keys[&Verifier]),
                verifier_request_2: req(c.verifier2.0, &c.verifier2.1),
            }
        };
        t.only(7, "RemoveVerifiedClientDataCap", root, &[RootMsig], p(&rdc));
        let rea = RemoveExpiredAllocationsParams { client: c.id(Client), allocation_ids: vec![] };
        for (n, name) in [(8, "RemoveExpiredAllocations"), (Method::RemoveExpiredAllocationsExported as u64, "RemoveExpiredAllocationsExported")] {
            t.any(n, name, p(&rea));
        }
        t.only(9, "ClaimAllocations", "actors of type Miner", &MINERS, p(&ClaimAllocationsParams {
                sectors: vec![SectorAllocationClaims { sector: 1, expiry: now + 300, claims: vec![AllocationClaim { client: c.id(Client), allocation_id: c.allocation, data: make_piece_cid(b"c11-alloc"), size: PaddedPieceSize(2048) }] }],
                all_or_nothing: false,
            }));
        let gc = GetClaimsParams { provider: c.m1, claim_ids: vec![] };
        for (n, name) in [(10, "GetClaims"), (Method::GetClaimsExported as u64, "GetClaimsExported")] {
            t.any(n, name, p(&gc));
        }
        let ect = ExtendClaimTermsParams { terms: vec![] };
        for (n, name) in [(11, "ExtendClaimTerms"), (Method::ExtendClaimTermsExported as u64, "ExtendClaimTermsExported")] {
            t.any(n, name, p(&ect));
        }
        let rec = RemoveExpiredClaimsParams { provider: c.m1, claim_ids: vec![] };
        for (n, name) in [(12, "RemoveExpiredClaims"), (Method::RemoveExpiredClaimsExported as u64, "RemoveExpiredClaimsExported")] {
            t.any(n, name, p(&rec));
        }
        let hook = fvm_actor_utils::receiver::UniversalReceiverParams {
            type_: frc46_token::receiver::FRC46_TOKEN_TYPE,
            payload: RawBytes::serialize(frc46_token::receiver::FRC46TokenReceived {
                from: c.id(Client),
                to: 6,
                operator: c.id(Client),
                amount: TokenAmount::zero(),
                operator_data: RawBytes::serialize(AllocationRequests { allocations: vec![], extensions: vec![] }).unwrap(),
                token_data: RawBytes::default(),
            })
            .unwrap(),
        };
        t.only(Method::UniversalReceiverHook as u64, "UniversalReceiverHook", "datacap token actor only", &[Datacap], p(&hook));
    }

    // ------------------------------------------------------------------ datacap
    {
        use fil_actor_datacap::*;
        use frc46_token::token::types::*;
        t.actor("datacap", shell("datacap"), true);
        t.only(1, ctor, sys_only, &[System], p(&c.a(Verifreg)));
        t.actor("datacap", 7, true);
        let gov = "governor (verified registry) only";
        let tok = |n: u64| TokenAmount::from_whole(n as i64);
        t.only(Method::MintExported as u64, "MintExported", gov, &[Verifreg], p(&MintParams { to: c.a(Client), amount: tok(1024), operators: vec![] }));
        t.only(Method::DestroyExported as u64, "DestroyExported", gov, &[Verifreg], p(&DestroyParams { owner: c.a(Client), amount: tok(1) }));
        t.any(Method::NameExported as u64, "NameExported", none());
        t.any(Method::SymbolExported as u64, "SymbolExported", none());
        t.any(Method::GranularityExported as u64, "GranularityExported", none());
        t.any(Method::TotalSupplyExported as u64, "TotalSupplyExported", none());
        t.any(Method::BalanceExported as u64, "BalanceExported", p(&c.a(Client)));
        t.any(Method::AllowanceExported as u64, "AllowanceExported", p(&GetAllowanceParams { owner: c.a(Client), operator: c.a(Market) }));
        let empty_reqs = RawBytes::serialize(fil_actor_verifreg::AllocationRequests { allocations: vec![], extensions: vec![] }).unwrap();
        let holder = "any caller (acts on the caller's own tokens; zero amount)";
        t.any(Method::TransferExported as u64, "TransferExported", p(&TransferParams { to: c.a(Verifreg), amount: TokenAmount::zero(), operator_data: empty_reqs.clone() })).rule = holder.into();
        let operators = "operators holding an allowance of the token owner (the market actor, for every verified client)";
        t.only(Method::TransferFromExported as u64, "TransferFromExported", operators, &[Market], p(&TransferFromParams { from: c.a(Client), to: c.a(Verifreg), amount: TokenAmount::zero(), operator_data: empty_reqs }));
        let (s, o) = (c.a(Stranger), c.a(Owner));
        let other = move |col: Col| if col == Stranger { o } else { s };
        let o1 = other.clone();
        t.any(Method::IncreaseAllowanceExported as u64, "IncreaseAllowanceExported", Rc::new(move |col| params(&IncreaseAllowanceParams { operator: o1(col), increase: TokenAmount::from_whole(1) }))).rule = holder.into();
        let o2 = other.clone();
        t.any(Method::DecreaseAllowanceExported as u64, "DecreaseAllowanceExported", Rc::new(move |col| params(&DecreaseAllowanceParams { operator: o2(col), decrease: TokenAmount::from_whole(1) }))).rule = holder.into();
        let o3 = other.clone();
        t.any(Method::RevokeAllowanceExported as u64, "RevokeAllowanceExported", Rc::new(move |col| params(&RevokeAllowanceParams { operator: o3(col) }))).rule = holder.into();
        t.any(Method::BurnExported as u64, "BurnExported", p(&BurnParams { amount: TokenAmount::zero() })).rule = holder.into();
        t.only(Method::BurnFromExported as u64, "BurnFromExported", operators, &[Market], p(&BurnFromParams { owner: c.a(Client), amount: TokenAmount::from_whole(1) }));
    }

    // ------------------------------------------------------------------ Ethereum address manager
    {
        use fil_actor_eam::*;
        t.actor("eam", EAM_ACTOR_ID, false);
        t.only(1, ctor, sys_only, &[System], none());
        let evm_type = "actors of type EVM";
        t.only(2, "Create", evm_type, &[EvmContract], p(&CreateParams { initcode: INIT_INERT.to_vec(), nonce: 77 }));
        t.only(3, "Create2", evm_type, &[EvmContract], p(&Create2Params { initcode: INIT_INERT.to_vec(), salt: [7u8; 32] }));
        let r = t.only(4, "CreateExternal", "top-level message of a key account or Ethereum account", &ACCOUNT_COLS, p(&CreateExternalParams(INIT_INERT.to_vec())));
        // the burnt-funds actor is an account actor that can never originate a message
        r.either = vec![Burnt];
    }

    // ------------------------------------------------------------------ account
    {
        use fil_actor_account::*;
        t.actor("account", shell("account"), true);
        t.only(1, ctor, sys_only, &[System], p(&types::ConstructorParams { address: Address::new_bls(&[0x5A; 48]).unwrap() }));
        t.actor("account", c.id(Stranger), true);
        t.any(2, "PubkeyAddress", none());
        let msg = b"c11 message".to_vec();
        t.any(
            Method::AuthenticateMessageExported as u64,
            "AuthenticateMessageExported",
            p(&types::AuthenticateMessageParams { signature: fake_sign(&c.keys[&Stranger], &msg), message: msg }),
        );
    }

    // ------------------------------------------------------------------ Ethereum account
    t.actor("ethaccount", shell("ethaccount"), true);
    t.only(1, ctor, sys_only, &[System], none());

    // ------------------------------------------------------------------ multisig
    {
        use fil_actor_multisig::*;
        t.actor("multisig", shell("multisig"), true);
        t.only(1, ctor, init_only, &[Init], p(&ConstructorParams { signers: vec![c.a(Stranger)], num_approvals_threshold: 1, unlock_duration: 0, start_epoch: 0 }));
        t.actor("multisig", c.msig, true);
        t.only(2, "Propose", "signers only", &[MsigSignerA, MsigSignerB, MsigSignerC], p(&ProposeParams { to: c.a(Stranger), value: atto(2), method: METHOD_SEND, params: RawBytes::default() }));
        // transaction 0: proposed by A, approved by [A]
        let txn = TxnIDParams { id: TxnID(0), proposal_hash: vec![] };
        let fresh_signers = "signers that have not approved the transaction yet";
        let proposer = "the proposer of the transaction only";
        t.only(3, "Approve", fresh_signers, &[MsigSignerB, MsigSignerC], p(&txn));
        t.only(4, "Cancel", proposer, &[MsigSignerA], p(&txn));
        // transaction 1: proposed by A, approved by [A, B] (threshold 3: still pending). B is a signer
        // and a party to the transaction, but not its proposer.
        let txn1 = TxnIDParams { id: TxnID(1), proposal_hash: vec![] };
        t.actor("multisig#tx1", c.msig, true);
        t.only(3, "Approve", fresh_signers, &[MsigSignerC], p(&txn1));
        t.only(4, "Cancel", proposer, &[MsigSignerA], p(&txn1));
        t.actor("multisig", c.msig, true);
        let wallet = "the wallet itself only (through an approved transaction)";
        t.only(5, "AddSigner", wallet, &[Multisig], p(&AddSignerParams { signer: c.a(Stranger), increase: false }));
        t.only(6, "RemoveSigner", wallet, &[Multisig], p(&RemoveSignerParams { signer: c.a(MsigSignerB), decrease: true }));
        t.only(7, "SwapSigner", wallet, &[Multisig], p(&SwapSignerParams { from: c.a(MsigSignerB), to: c.a(Stranger) }));
        t.only(8, "ChangeNumApprovalsThreshold", wallet, &[Multisig], p(&ChangeNumApprovalsThresholdParams { new_threshold: 1 }));
        t.only(9, "LockBalance", wallet, &[Multisig], p(&LockBalanceParams { start_epoch: now, unlock_duration: 10, amount: atto(5) }));
        t.any(
            Method::UniversalReceiverHook as u64,
            "UniversalReceiverHook",
            p(&fvm_actor_utils::receiver::UniversalReceiverParams { type_: 0, payload: RawBytes::default() }),
        );
    }

    // ------------------------------------------------------------------ payment channel
    {
        use fil_actor_paych::*;
        t.actor("paych", shell("paych"), true);
        t.only(1, ctor, "actors of type Init (constructor)", &[Init], p(&ConstructorParams { from: c.a(PaychPayer), to: c.a(PaychPayee) }));
        t.actor("paych", c.paych, true);
        let parties = "the two channel parties only";
        let (ch, kp, ke) = (c.paych, c.keys[&PaychPayer], c.keys[&PaychPayee]);
        // a voucher must be signed by the *other* party: the payer submits one signed by the payee,
        // everybody else one signed by the payer
        let voucher = move |col: Col| {
            let mut sv = SignedVoucher {
                channel_addr: id(ch),
                time_lock_min: 0,
                time_lock_max: 0,
                secret_pre_image: vec![],
                extra: None,
                lane: 0,
                nonce: 1,
                amount: atto(10),
                min_settle_height: 0,
                merges: vec![],
                signature: None,
            };
            let signer = if col == PaychPayer { ke } else { kp };
            let bz = sv.signing_bytes().unwrap();
            sv.signature = Some(Signature { sig_type: SignatureType::BLS, bytes: fake_sign(&signer, &bz) });
            params(&UpdateChannelStateParams { sv, secret: vec![] })
        };
        t.only(2, "UpdateChannelState", parties, &[PaychPayee, PaychPayer], Rc::new(voucher));
        t.only(3, "Settle", parties, &[PaychPayer, PaychPayee], none());
        t.actor("paych", c.paych_settled, true);
        t.only(4, "Collect", parties, &[PaychPayer, PaychPayee], none());
    }

    // ------------------------------------------------------------------ EVM contract
    {
        use fil_actor_evm::*;
        t.actor("evm", shell("evm"), false);
        t.only(1, ctor, init_only, &[Init], p(&evm_ctor([0xAB; 20], INIT_INERT)));
        t.actor("evm", c.evm_dead, false);
        t.only(2, "Resurrect", "Ethereum address manager only", &[Eam], p(&evm_ctor([0xAB; 20], INIT_INERT)));
        t.actor("evm", c.evm, false);
        t.any(3, "GetBytecode", none());
        t.any(4, "GetBytecodeHash", none());
        t.only(5, "GetStorageAt", "system actor only (off-chain queries)", &[System], p(&GetStorageAtParams { storage_key: fil_actors_evm_shared::uints::U256::from(0u64) }));
        let code = vm.state_of::<State>(c.evm).map(|s| s.bytecode).unwrap_or(EMPTY_ARR_CID);
        let dp = DelegateCallParams { code, input: vec![], caller: EthAddress(c.evm_eth), value: TokenAmount::zero() };
        let blk = IpldBlock::serialize_dag_cbor(&dp).unwrap();
        t.only(6, "InvokeContractDelegate", "the contract itself only", &[EvmContract], Rc::new(move |_| blk.clone()));
        t.any(Method::InvokeContract as u64, "InvokeContract", p(&InvokeContractParams { input_data: vec![] }));
    }

    miner_rows(vm, c, &mut t);
    complete(&mut t, c);
    t.rows
}

fn miner_rows(vm: &Vm, c: &Cast, t: &mut Table) {
    use fm::Method as M;
    let now = vm.epoch();
    let m = c.m1;
    let ctor = "Constructor";
    t.actor("miner", c.shells["miner"], true);
    t.only(
        1,
        ctor,
        "Init actor only (constructor, called from Init.Exec by the power actor)",
        &[Init],
        p(&fm::MinerConstructorParams { owner: c.a(Stranger), worker: c.a(Stranger), control_addresses: vec![], window_post_proof_type: POST_PROOF, peer_id: b"c11".to_vec(), multi_addresses: vec![BytesDe(b"c11".to_vec())] }),
    );
    t.actor("miner", m, true);
    let st: fm::State = vm.state_of(m).unwrap();
    let info: fm::MinerInfo = fvm_ipld_encoding::CborStore::get_cbor(&vm.store, &st.info).unwrap().unwrap();
    let cur = view(vm, m).map(|v| v.dl_info.index).unwrap_or(0);
    let lay = c.lay.clone().unwrap_or(Layout { dl_open: cur, dl_prev: (cur + 3) % 4, dl_mut: (cur + 2) % 4, precommitted: 20, exp: now + 400 });
    let owner_only = "owner only";
    let owc = "owner, worker or a control address";

    t.any(2, "ControlAddresses", none());
    let cw = fm::ChangeWorkerAddressParams { new_worker: c.a(Worker), new_control_addresses: vec![c.a(Control)] };
    for (n, name) in [(3, "ChangeWorkerAddress"), (M::ChangeWorkerAddressExported as u64, "ChangeWorkerAddressExported")] {
        t.only(n, name, owner_only, &[Owner], p(&cw));
    }
    let peer = fm::ChangePeerIDParams { new_id: b"c11-peer".to_vec() };
    for (n, name) in [(4, "ChangePeerID"), (M::ChangePeerIDExported as u64, "ChangePeerIDExported")] {
        t.only(n, name, owc, &OWC, p(&peer));
    }
    // SubmitWindowedPoSt for the open deadline
    {
        let commit_epoch = now - 1;
        let rand = mcvm::fake_randomness(1, fil_actors_runtime::runtime::DomainSeparationTag::PoStChainCommit as i64, commit_epoch, &[]);
        let v = view(vm, m).unwrap();
        let nparts = v.dls[lay.dl_open as usize].parts.len().max(1) as u64;
        let post = fm::SubmitWindowedPoStParams {
            deadline: lay.dl_open,
            partitions: (0..nparts).map(|i| fm::PoStPartition { index: i, skipped: bf(&[]) }).collect(),
            proofs: vec![fvm_shared::sector::PoStProof { post_proof: POST_PROOF, proof_bytes: b"good-proof".to_vec() }],
            chain_commit_epoch: commit_epoch,
            chain_commit_rand: fvm_shared::randomness::Randomness(rand.to_vec()),
        };
        t.only(5, "SubmitWindowedPoSt", owc, &OWC, p(&post));
    }
    t.only(9, "TerminateSectors", owc, &OWC, p(&fm::TerminateSectorsParams { terminations: vec![fm::TerminationDeclaration { deadline: lay.dl_mut, partition: 0, sectors: bf(&[4]) }] }));
    t.only(10, "DeclareFaults", owc, &OWC, p(&fm::DeclareFaultsParams { faults: vec![fm::FaultDeclaration { deadline: lay.dl_mut, partition: 0, sectors: bf(&[4]) }] }));
    t.only(11, "DeclareFaultsRecovered", owc, &OWC, p(&fm::DeclareFaultsRecoveredParams { recoveries: vec![fm::RecoveryDeclaration { deadline: lay.dl_mut, partition: 1, sectors: bf(&[7]) }] }));
    // network estimates as the power actor would pass them
    let rst: fil_actor_reward::State = vm.state_of(2).unwrap();
    let pst: fil_actor_power::State = vm.state_of(4).unwrap();
    let payload = fvm_ipld_encoding::to_vec(&fm::CronEventPayload { event_type: fm::CRON_EVENT_PROCESS_EARLY_TERMINATIONS }).unwrap();
    t.only(
        12,
        "OnDeferredCronEvent",
        "power actor only",
        &[Power],
        p(&fm::DeferredCronEventParams { event_payload: payload, reward_smoothed: rst.this_epoch_reward_smoothed.clone(), quality_adj_power_smoothed: pst.this_epoch_qa_power_smoothed.clone() }),
    );
    t.any(13, "CheckSectorProven", p(&fm::CheckSectorProvenParams { sector_number: 1 }));
    let r = t.only(14, "ApplyRewards", "reward actor only", &[Reward], p(&fm::ApplyRewardParams { reward: atto(1000), penalty: TokenAmount::zero() }));
    r.value = atto(1000);
    t.any(15, "ReportConsensusFault", p(&fm::ReportConsensusFaultParams { header1: mcvm::fake_fault_header(m, now - 1, 1), header2: vec![2], header_extra: vec![] }));
    let wd = fm::WithdrawBalanceParams { amount_requested: atto(1) };
    for (n, name) in [(16, "WithdrawBalance"), (M::WithdrawBalanceExported as u64, "WithdrawBalanceExported")] {
        t.only(n, name, "owner or beneficiary", &[Owner, Beneficiary], p(&wd));
    }
    t.only(
        17,
        "InternalSectorSetupForPreseal",
        "system actor only (genesis)",
        &[System],
        p(&fm::InternalSectorSetupForPresealParams {
            sectors: vec![lay.precommitted],
            reward_smoothed: rst.this_epoch_reward_smoothed.clone(),
            reward_baseline_power: rst.this_epoch_baseline_power.clone(),
            quality_adj_power_smoothed: pst.this_epoch_qa_power_smoothed.clone(),
        }),
    );
    let ma = fm::ChangeMultiaddrsParams { new_multi_addrs: vec![BytesDe(b"c11-addr".to_vec())] };
    for (n, name) in [(18, "ChangeMultiaddrs"), (M::ChangeMultiaddrsExported as u64, "ChangeMultiaddrsExported")] {
        t.only(n, name, owc, &OWC, p(&ma));
    }
    t.only(19, "CompactPartitions", owc, &OWC, p(&fm::CompactPartitionsParams { deadline: lay.dl_mut, partitions: bf(&[]) }));
    t.only(20, "CompactSectorNumbers", owc, &OWC, p(&fm::CompactSectorNumbersParams { mask_sector_numbers: bf(&[1000, 1001]) }));
    for (n, name) in [(21, "ConfirmChangeWorkerAddress"), (M::ConfirmChangeWorkerAddressExported as u64, "ConfirmChangeWorkerAddressExported")] {
        t.only(n, name, owner_only, &[Owner], none());
    }
    for (n, name) in [(22, "RepayDebt"), (M::RepayDebtExported as u64, "RepayDebtExported")] {
        t.only(n, name, owc, &OWC, none());
    }
    // the owner may (re-)nominate; the nominee may confirm by naming itself
    let co = fm::ChangeOwnerAddressParams { new_owner: c.a(PendingOwner) };
    for (n, name) in [(23, "ChangeOwnerAddress"), (M::ChangeOwnerAddressExported as u64, "ChangeOwnerAddressExported")] {
        t.only(n, name, "owner (nominates), or the nominee (confirms itself)", &[Owner, PendingOwner], p(&co));
    }
    t.any(24, "DisputeWindowedPoSt", p(&fm::DisputeWindowedPoStParams { deadline: lay.dl_prev, post_index: 0 }));
    t.only(28, "PreCommitSectorBatch2", owc, &OWC, p(&fm::PreCommitSectorBatchParams2 { sectors: vec![precommit_info(m, 21, now, now + 31 * 2880 + 200)] }));
    // the owner's last proposal: the owner may re-propose it; the active beneficiary and the
    // nominee may approve it while it is pending. A proposal lapses when the miner changes owner:
    // in the base where the proposal was made by the previous owner only the (new) owner is
    // designated, the stale nominee and the beneficiary are not.
    let cb = fm::ChangeBeneficiaryParams { new_beneficiary: id(c.ben_proposal.0), new_quota: c.ben_proposal.1.clone(), new_expiration: c.ben_proposal.2 };
    let _ = &info;
    for (n, name) in [(30, "ChangeBeneficiary"), (M::ChangeBeneficiaryExported as u64, "ChangeBeneficiaryExported")] {
        if c.proposal_stale {
            t.only(n, name, "owner only (the proposal of the previous owner lapsed with the owner change: nothing is pending that the beneficiary or the former nominee could approve)", &[Owner], p(&cb));
        } else {
            t.only(n, name, "owner (proposes), or the active beneficiary / the nominee (approve the pending proposal)", &[Owner, Beneficiary, PendingBeneficiary], p(&cb));
        }
    }
    for (n, name) in [(31, "GetBeneficiary"), (M::GetBeneficiaryExported as u64, "GetBeneficiaryExported")] {
        t.any(n, name, none());
    }
    t.only(
        32,
        "ExtendSectorExpiration2",
        owc,
        &OWC,
        p(&fm::ExtendSectorExpiration2Params { extensions: vec![fm::ExpirationExtension2 { deadline: lay.dl_prev, partition: 0, sectors: bf(&[6]), sectors_with_claims: vec![], new_expiration: lay.exp + 200 }] }),
    );
    t.only(
        34,
        "ProveCommitSectors3",
        owc,
        &OWC,
        p(&fm::ProveCommitSectors3Params {
            sector_activations: vec![fm::SectorActivationManifest { sector_number: lay.precommitted, pieces: vec![] }],
            sector_proofs: vec![RawBytes::new(vec![1u8; 192])],
            aggregate_proof: RawBytes::default(),
            aggregate_proof_type: None,
            require_activation_success: true,
            require_notification_success: true,
        }),
    );
    t.only(
        35,
        "ProveReplicaUpdates3",
        owc,
        &OWC,
        p(&fm::ProveReplicaUpdates3Params {
            sector_updates: vec![fm::SectorUpdateManifest {
                sector: 6,
                deadline: lay.dl_prev,
                partition: 0,
                new_sealed_cid: make_sealed_cid(b"c11-replica"),
                pieces: vec![fm::PieceActivationManifest { cid: make_piece_cid(b"c11-replica-piece"), size: PaddedPieceSize(2048), verified_allocation_key: None, notify: vec![] }],
            }],
            sector_proofs: vec![RawBytes::new(vec![1u8; 192])],
            aggregate_proof: RawBytes::default(),
            update_proofs_type: RegisteredUpdateProof::StackedDRG2KiBV1,
            aggregate_proof_type: None,
            require_activation_success: true,
            require_notification_success: true,
        }),
    );
    {
        let ni = fm::ProveCommitSectorsNIParams {
            sectors: vec![fm::SectorNIActivationInfo { sealing_number: 30, sealer_id: m, sealed_cid: make_sealed_cid(b"c11-ni-30"), sector_number: 30, seal_rand_epoch: now - 1, expiration: now + 400 }],
            aggregate_proof: RawBytes::new(vec![1u8; 1024]),
            seal_proof_type: SEAL_PROOF_NI,
            aggregate_proof_type: fvm_shared::sector::RegisteredAggregateProof::SnarkPackV2,
            proving_deadline: lay.dl_mut,
            require_activation_success: true,
        };
        t.only(36, "ProveCommitSectorsNI", owc, &OWC, p(&ni));
    }
    t.any(M::GetOwnerExported as u64, "GetOwnerExported", none());
    t.any(M::IsControllingAddressExported as u64, "IsControllingAddressExported", p(&fm::IsControllingAddressParam { address: c.a(Control) }));
    t.any(M::GetSectorSizeExported as u64, "GetSectorSizeExported", none());
    t.any(M::GetAvailableBalanceExported as u64, "GetAvailableBalanceExported", none());
    t.any(M::GetVestingFundsExported as u64, "GetVestingFundsExported", none());
    t.any(M::GetPeerIDExported as u64, "GetPeerIDExported", none());
    t.any(M::GetMultiaddrsExported as u64, "GetMultiaddrsExported", none());
    t.any(M::MaxTerminationFeeExported as u64, "MaxTerminationFeeExported", p(&fm::MaxTerminationFeeParams { power: BigInt::from(2048), initial_pledge: atto(1000) }));
    t.any(M::InitialPledgeExported as u64, "InitialPledgeExported", none());
    t.any(M::GenerateSectorLocationExported as u64, "GenerateSectorLocationExported", p(&fm::GenerateSectorLocationParams { sector_number: 1 }));
    // the location blob is whatever GenerateSectorLocation returns for sector 1 (probe, rolled back)
    let aux = probe(vm, || {
        let r = ext(vm, c.id(Stranger), &id(m), &TokenAmount::zero(), M::GenerateSectorLocationExported as u64, Some(&fm::GenerateSectorLocationParams { sector_number: 1 }));
        r.ret.as_ref().filter(|_| r.ok()).and_then(|b| b.deserialize::<fm::GenerateSectorLocationReturn>().ok())
    });
    let (status, aux_data) = match aux {
        Some(g) => (g.status, g.aux_data),
        None => (fm::SectorStatusCode::Dead, vec![]),
    };
    t.any(M::ValidateSectorStatusExported as u64, "ValidateSectorStatusExported", p(&fm::ValidateSectorStatusParams { sector_number: 1, status, aux_data }));
    t.any(M::GetNominalSectorExpirationExported as u64, "GetNominalSectorExpirationExported", p(&1u64));
}

/// Add, for every actor type: the bare send (0), every defined method number the table forgot
/// (reported as undecided), and the undefined numbers {max+1, an unassigned FRC-42 hash,
/// 2^24-1, 2^24} with the actor's documented behaviour for undefined methods.
fn complete(t: &mut Table, c: &Cast) {
    for actor in ACTORS {
        let (target, restricted) = {
            let rows: Vec<&Row> = t.rows.iter().filter(|r| r.actor == actor).collect();
            let main = rows.iter().rev().find(|r| r.method != 1).or(rows.last()).expect("actor has rows");
            (main.target, main.restricted)
        };
        // the live instance of the type (constructor shells only serve row 1)
        let target = match actor {
            "system" => 0,
            "paych" => c.paych,
            "evm" => c.evm,
            "ethaccount" => c.id(EthAccount),
            _ => target,
        };
        t.actor(actor, target, restricted);
        let have: BTreeSet<u64> = t.rows.iter().filter(|r| r.actor == actor).map(|r| r.method).collect();
        let names = method_names(actor);
        let mut cands: BTreeSet<u64> = (0..=64).collect();
        cands.extend(frc42_names().into_iter().map(|(_, h)| h));
        let defined_nums: Vec<u64> = cands.iter().copied().filter(|n| defined(actor, *n)).collect();
        for n in &defined_nums {
            if !have.contains(n) {
                let name = names.get(n).cloned().unwrap_or(format!("method {n}"));
                let r = t.push(*n, &name, "NO ENTRY IN THE AUTHORITY TABLE", &[], false, none());
                r.missing = true;
            }
        }
        let r = t.push(0, "Send", "bare value transfer: handled by the VM, no actor code runs, any caller", &[Stranger], true, none());
        r.defined = false;
        r.value = atto(1);
        let max_internal = defined_nums.iter().copied().filter(|n| *n < FIRST_EXPORTED).max().unwrap_or(1);
        let mut undefined: Vec<(u64, &str)> = vec![(max_internal + 1, "undefined (max+1)"), (UNASSIGNED_HASH, "undefined (unassigned FRC-42 hash)"), (FIRST_EXPORTED - 1, "undefined (2^24-1)"), (FIRST_EXPORTED, "undefined (2^24)")];
        undefined.retain(|(n, _)| !defined(actor, *n));
        for (n, name) in undefined {
            // documented fall-backs for method numbers the actor does not define
            let open = match actor {
                // FRC-42 universal receivers: unknown methods of the exported range are accepted no-ops
                "account" | "ethaccount" | "multisig" => n >= FIRST_EXPORTED,
                // every number above the reserved range (1023) is handed to the contract's bytecode
                "evm" => n > 1023,
                _ => false,
            };
            let r = if open {
                let why = if actor == "evm" {
                    "undefined method above 1023: passed to the contract's bytecode, any caller (this contract accepts everything)"
                } else {
                    "undefined method in the exported range: accepted as a no-op from any caller (documented fallback)"
                };
                t.push(n, name, why, &[Stranger], true, none())
            } else {
                t.push(n, name, "undefined method: nobody", &[], false, none())
            };
            r.defined = false;
        }
    }
}

// =========================================================================================
// Engine: one world per worker thread, one fresh restore per cell
// =========================================================================================

pub struct World {
    pub vm: Vm,
    pub cast: Cast,
    pub base: Snapshot,
    /// root of the base state after the placeholder column has been promoted to an Ethereum
    /// account (the VM does this when the placeholder sends its first message, accepted or not)
    pub promoted_root: Cid,
    pub rows: Vec<Row>,
    pub variant: String,
}

/// Everything a worker needs to open its own VM handle on the (shared, immutable) base state.
#[derive(Clone)]
pub struct Seed {
    pub store: Store,
    pub cast: Cast,
    pub base: Snapshot,
    pub promoted_root: Cid,
    pub circ: TokenAmount,
    pub variant: String,
}

/// Build the base state once (real messages) and publish its blocks.
pub fn seed(variant: &str) -> Seed {
    let store = Store::new();
    let vm = Vm::genesis(store.clone(), c11_policy());
    let cast = build(&vm, variant);
    let base = vm.snapshot();
    // promotion only: a message to a method nobody defines
    let _ = ext(&vm, cast.id(FreshEthAccount), &SYSTEM_ACTOR_ADDR, &TokenAmount::zero(), FIRST_EXPORTED - 1, NOP);
    let promoted_root = vm.snapshot().root;
    vm.restore(&base);
    let circ = vm.circ_supply.borrow().clone();
    store.commit();
    Seed { store, cast, base, promoted_root, circ, variant: variant.to_string() }
}

/// A worker's private VM handle over the shared base state, with the table built for it.
pub fn attach(s: &Seed) -> World {
    let vm = Vm::attach(s.store.fork(), c11_policy(), &s.base, s.circ.clone());
    let rows = build_rows(&vm, &s.cast);
    vm.restore(&s.base);
    vm.store.keep();
    World { vm, cast: s.cast.clone(), base: s.base.clone(), promoted_root: s.promoted_root, rows, variant: s.variant.clone() }
}

pub fn world(variant: &str) -> World {
    attach(&seed(variant))
}

#[derive(Clone, Debug, Serialize)]
pub struct Cell {
    pub col: Col,
    pub exp: Exp,
    pub ok: bool,
    pub code: u32,
    pub root_unchanged: bool,
    /// some invocation in the trace completed without validating its caller
    pub unvalidated: bool,
    pub msg: String,
}

pub fn call(w: &World, row: &Row, col: Col) -> Cell {
    let vm = &w.vm;
    vm.restore(&w.base);
    let kind = if col.external() { MsgKind::External } else { MsgKind::Impersonated };
    let inv = vm.apply(kind, &id(w.cast.id(col)), &id(row.target), &row.value, row.method, (row.params)(col));
    let after = vm.snapshot().root;
    vm.store.discard();
    let expected_root = if col == FreshEthAccount { w.promoted_root } else { w.base.root };
    let unvalidated = inv.flat().iter().any(|i| !i.ok() && i.msg.contains("failed to validate caller"));
    Cell {
        col,
        exp: row.expect(col),
        ok: inv.ok(),
        code: inv.code.value(),
        root_unchanged: after == expected_root,
        unvalidated,
        msg: inv.msg.chars().take(200).collect(),
    }
}

#[derive(Clone, Debug, Serialize)]
pub struct RowResult {
    pub index: usize,
    pub actor: String,
    pub method: u64,
    pub name: String,
    pub rule: String,
    pub control: Option<String>,
    /// why the row is undecided (None = decided)
    pub undecided: Option<String>,
    pub trivial: bool,
    pub cells: Vec<Cell>,
    /// (column, message)
    pub violations: Vec<(Col, String)>,
    /// cells whose outcome was judged against the table
    pub judged: u64,
}

/// The oracle for one cell. `decided` = the row's positive control succeeded (or the row has no
/// designated caller at all).
pub fn judge(row: &Row, cell: &Cell, decided: bool) -> (bool, Option<String>) {
    let what = format!("{}.{} (method {}) called by {:?}", row.actor, row.name, row.method, cell.col);
    // clause (b): valid in every cell
    if cell.unvalidated {
        return (true, Some(format!("{what}: an invocation completed without validating its caller (exit {}, {})", cell.code, cell.msg)));
    }
    let clause_a = row.restricted && row.method != METHOD_SEND && row.method < FIRST_EXPORTED && (cell.col == EvmContract || cell.col == Foreign);
    if !decided && !clause_a {
        return (false, None);
    }
    match cell.exp {
        Exp::Either => (false, None),
        Exp::Allow => {
            if cell.ok {
                (true, None)
            } else {
                (true, Some(format!("{what}: the table designates this caller ({}) and the same call succeeds for {:?}, but it was rejected: exit {} {}", row.rule, row.control(), cell.code, cell.msg)))
            }
        }
        Exp::Deny => {
            if cell.ok {
                let why = if clause_a { "methods below 2^24 must be refused for EVM contracts and non-built-in callers".to_string() } else { format!("authority: {}", row.rule) };
                (true, Some(format!("{what}: accepted, but this caller is not designated ({why})")))
            } else if !cell.root_unchanged {
                (true, Some(format!("{what}: rejected (exit {}) but the state root changed", cell.code)))
            } else {
                (true, None)
            }
        }
    }
}

pub fn run_row(w: &World, index: usize) -> RowResult {
    let row = &w.rows[index];
    let mut res = RowResult {
        index,
        actor: row.actor.to_string(),
        method: row.method,
        name: row.name.clone(),
        rule: row.rule.clone(),
        control: row.control().map(|c| c.name()),
        undecided: None,
        trivial: row.method == METHOD_SEND,
        cells: vec![],
        violations: vec![],
        judged: 0,
    };
    let mut decided = true;
    if row.missing {
        res.undecided = Some("the method is defined by the actor but the authority table has no entry for it".into());
        decided = false;
    } else if let Some(ctl) = row.control() {
        let cell = call(w, row, ctl);
        if !cell.ok && !cell.unvalidated {
            res.undecided = Some(format!("positive control ({ctl:?}) did not succeed in this base state: exit {} {}", cell.code, cell.msg));
            decided = false;
        }
    }
    for col in COLS {
        let cell = call(w, row, col);
        let (judged, viol) = judge(row, &cell, decided);
        if judged {
            res.judged += 1;
        }
        if let Some(v) = viol {
            res.violations.push((col, v));
        }
        res.cells.push(cell);
    }
    res
}

pub fn run_base(variant: &str, threads: usize) -> (Vec<RowResult>, usize) {
    let sd = seed(variant);
    let next = std::sync::atomic::AtomicUsize::new(0);
    let out: std::sync::Mutex<Vec<RowResult>> = std::sync::Mutex::new(vec![]);
    let nrows = std::sync::atomic::AtomicUsize::new(0);
    std::thread::scope(|s| {
        for k in 0..threads {
            let (next, out, nrows, sd) = (&next, &out, &nrows, &sd);
            std::thread::Builder::new()
                .name(format!("c11-{k}"))
                .stack_size(64 << 20)
                .spawn_scoped(s, move || {
                    let w = attach(sd);
                    nrows.store(w.rows.len(), std::sync::atomic::Ordering::SeqCst);
                    loop {
                        let i = next.fetch_add(1, std::sync::atomic::Ordering::SeqCst);
                        if i >= w.rows.len() {
                            break;
                        }
                        let r = run_row(&w, i);
                        out.lock().unwrap().push(r);
                    }
                })
                .expect("spawn worker");
        }
    });
    let mut v = out.into_inner().unwrap();
    v.sort_by_key(|r| r.index);
    let n = nrows.load(std::sync::atomic::Ordering::SeqCst);
    assert_eq!(v.len(), n, "every row is executed exactly once");
    (v, n)
}

fn threads() -> usize {
    std::env::var("MC_THREADS").ok().and_then(|s| s.parse().ok()).unwrap_or_else(|| std::thread::available_parallelism().map(|n| n.get()).unwrap_or(8))
}

pub fn run(tier: &str) -> ! {
    if let Ok(v) = std::env::var("MC_C11_DUMP") {
        dump(&v);
        std::process::exit(0);
    }
    let mut run = mcx::evidence::Run::new("C11", tier, "exploration");
    let bases: Vec<&str> = if tier_is_thorough(tier) { BASES_THOROUGH.to_vec() } else { BASES_QUICK.to_vec() };
    let mut evaluations = 0u64;
    let mut judged = 0u64;
    let mut per_base = vec![];
    let mut samples: Vec<Value> = vec![];
    let mut all_viol: Vec<(String, RowResult, Col, String)> = vec![];
    for b in &bases {
        let t0 = std::time::Instant::now();
        let (rows, nrows) = run_base(b, threads());
        let mut per_actor: BTreeMap<String, (u64, u64, u64, u64)> = BTreeMap::new();
        let mut undecided = vec![];
        let mut outcome_counts: BTreeMap<String, u64> = BTreeMap::new();
        for r in &rows {
            let e = per_actor.entry(r.actor.clone()).or_default();
            e.0 += 1;
            e.2 += r.cells.len() as u64;
            if let Some(u) = &r.undecided {
                undecided.push(json!({"actor": r.actor, "method": r.method, "name": r.name, "why": u}));
            } else {
                e.1 += 1;
            }
            if !r.trivial {
                e.3 += r.judged;
                judged += r.judged;
            }
            evaluations += r.cells.len() as u64 + r.control.is_some() as u64;
            for c in &r.cells {
                *outcome_counts.entry(format!("{:?}/{}", c.exp, if c.ok { "accepted" } else { "rejected" })).or_default() += 1;
            }
            for (col, m) in &r.violations {
                all_viol.push((b.to_string(), r.clone(), *col, m.clone()));
            }
        }
        if *b == "rich" || *b == "stale-nominee" {
            let keys: &[&str] = if *b == "rich" { &["miner:3", "market:6", "power:6", "multisig:5", "multisig#tx1:4", "evm:6", "account:16777216"] } else { &["miner:30"] };
            for key in keys.iter().copied() {
                if let Some(r) = rows.iter().find(|r| format!("{}:{}", r.actor, r.method) == key) {
                    samples.push(json!({
                        "base": b, "actor": r.actor, "method": r.method, "name": r.name, "authority": r.rule, "positive_control": r.control,
                        "undecided": r.undecided,
                        "cells": r.cells.iter().map(|c| json!({"caller": c.col, "expected": c.exp, "accepted": c.ok, "exit": c.code, "root_unchanged": c.root_unchanged})).collect::<Vec<_>>(),
                    }));
                }
            }
        }
        eprintln!(
            "[C11] base {b}: rows={nrows} columns={} undecided={} wall={:.1}s outcomes={:?}",
            COLS.len(),
            undecided.len(),
            t0.elapsed().as_secs_f64(),
            outcome_counts
        );
        for u in &undecided {
            eprintln!("[C11]   undecided {}:{} {} — {}", u["actor"].as_str().unwrap(), u["method"], u["name"].as_str().unwrap(), u["why"].as_str().unwrap());
        }
        per_base.push(json!({
            "base": b, "rows": nrows, "columns": COLS.len(), "undecided_rows": undecided, "wall_s": t0.elapsed().as_secs_f64(),
            "outcomes_expected_vs_observed": outcome_counts,
            "per_actor": per_actor.iter().map(|(a, (rows, dec, cells, j))| json!({"actor": a, "rows": rows, "decided_rows": dec, "cells": cells, "cells_judged": j})).collect::<Vec<_>>(),
        }));
    }
    let total_viol = all_viol.len();
    // one replay file per violating row (its first violating caller); the message names them all
    let mut by_row: Vec<(String, RowResult, Vec<Col>, String)> = vec![];
    for (base, r, col, m) in &all_viol {
        match by_row.last_mut() {
            Some(l) if l.0 == *base && l.1.index == r.index => l.2.push(*col),
            _ => by_row.push((base.clone(), r.clone(), vec![*col], m.clone())),
        }
    }
    let violating_rows = by_row.len();
    for (base, r, cols, m) in &by_row {
        eprintln!("[C11] VIOLATING ROW base {base} {}:{} {} — callers {:?}", r.actor, r.method, r.name, cols);
        if run.extra_violations.len() < 24 {
            let more = if cols.len() > 1 { format!(" [same row also violated by: {:?}]", &cols[1..]) } else { String::new() };
            run.extra_violations.push(mcx::ViolationReport {
                scenario: "c11".into(),
                base: base.clone(),
                path: vec![mcx::PathStep { action: json!({"actor": r.actor, "method": r.method, "caller": cols[0].name()}), faults: vec![] }],
                message: format!("{m}{more}"),
            });
        }
    }
    if violating_rows > 24 {
        eprintln!("[C11] {violating_rows} violating rows ({total_viol} cells); replay files are written for the first 24 rows");
    }
    let cx = &mut run.coverage_extra;
    cx.insert("evaluations".into(), json!(evaluations));
    cx.insert("distinct_nontrivial".into(), json!(judged));
    cx.insert(
        "rule".into(),
        json!("one evaluation = one (base state, actor type, method number, caller class) cell executed against the real actor code from a fresh restore of the base snapshot (plus one positive-control execution per row). All cells are distinct by construction. A cell is non-trivial (counted) when its outcome was judged against the authority table: its row's positive control succeeded (or the row has no designated caller: undefined methods) or the universal clause (a) applies, the table does not mark the cell 'either', and the row is not the bare send (method 0). Method numbers per actor: every n in 0..=64 and every FRC-42 hash of a method name used anywhere in the repository for which Method::from_u64(n) is defined, plus 0, max+1, an unassigned FRC-42 hash, 2^24-1, 2^24."),
    );
    cx.insert("samples".into(), Value::Array(samples));
    cx.insert("columns".into(), json!(COLS.iter().map(|c| c.name()).collect::<Vec<_>>()));
    cx.insert("bases".into(), Value::Array(per_base));
    cx.insert("violating_cells".into(), json!(total_viol));
    cx.insert("violating_rows".into(), json!(violating_rows));
    cx.insert("not_covered".into(), json!(["placeholder actor (no actor code in the repository: the FVM itself answers)", "runtime/src/runtime/fvm.rs (FvmRuntime cannot run natively; mcvm mirrors its validate_* and trampoline)"]));
    cx.insert("exhaustive".into(), json!(total_viol == 0));
    run.assumptions = vec![
        "mcvm mirrors the FVM: caller validation exactly once, a successful return without validation becomes an assertion failure, value transfer before dispatch, rollback on abort; method 0 never reaches actor code".into(),
        "policy: SMALL (4 deadlines x 6 epochs, 2 KiB sectors) with the mainnet maximum sector lifetime, so that pre-commits are possible".into(),
        "actor callers are impersonated at the API seam (MsgKind::Impersonated), accounts send External messages without nonce bump so that a rejected message leads back to the same root".into(),
        "constructor rows run against unconstructed shells (code CID installed, empty state) – the state Init.Exec / genesis creates right before calling the constructor; the foreign-code caller is installed the same way".into(),
        "the authority table is hand-written from the protocol's access rules; cells it marks 'either' (burnt-funds as an account origin, the system actor as origin of an actor creation) are executed but not judged; rows whose positive control fails in a base state are undecided, listed and not judged".into(),
    ];
    run.finish()
}

pub fn replay(v: &Value) -> ! {
    let base = v["base"].as_str().unwrap_or("rich").to_string();
    let a = &v["path"][0]["action"];
    let (actor, method, caller) = (a["actor"].as_str().unwrap().to_string(), a["method"].as_u64().unwrap(), a["caller"].as_str().unwrap().to_string());
    let col = Col::parse(&caller).expect("caller class");
    let h = std::thread::Builder::new()
        .stack_size(64 << 20)
        .spawn(move || {
            let w = world(&base);
            let Some(i) = w.rows.iter().position(|r| r.actor == actor && r.method == method) else {
                eprintln!("replay: no row {actor}:{method}");
                return 2;
            };
            let res = run_row(&w, i);
            if let Some(u) = &res.undecided {
                eprintln!("row is undecided on this tree: {u}");
            }
            match res.violations.iter().find(|(c, _)| *c == col) {
                Some((_, m)) => {
                    println!("REPRODUCED property=C11 {m}");
                    1
                }
                None => {
                    println!("NOT-REPRODUCED: the recorded cell passes on this tree");
                    0
                }
            }
        })
        .unwrap();
    std::process::exit(h.join().unwrap_or(2))
}

/// Debug aid: `MC_C11_DUMP=1 mc C11 quick` prints every row's control outcome.
pub fn dump(variant: &str) {
    let w = world(variant);
    let only = std::env::var("MC_C11_ROW").ok();
    for (i, r) in w.rows.iter().enumerate() {
        if let Some(o) = &only {
            if *o != r.key() {
                continue;
            }
            for c in run_row(&w, i).cells {
                eprintln!("  {:?} exp={:?} ok={} code={} {}", c.col, c.exp, c.ok, c.code, c.msg);
            }
            continue;
        }
        let res = run_row(&w, i);
        let acc: Vec<String> = res.cells.iter().filter(|c| c.ok).map(|c| c.col.name()).collect();
        eprintln!("{:>10}:{:<10} {:<38} ctl={:?} undecided={:?}\n      accepted={:?}\n      viol={:?}", r.actor, r.method, r.name, res.control, res.undecided, acc, res.violations.iter().map(|v| &v.1).collect::<Vec<_>>());
    }
}
