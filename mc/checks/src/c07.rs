//! C07 — deal payments are exact and independent of the settlement schedule.
use crate::market::*;
use crate::util::*;
use mcx::Bounds;

pub fn scenario(tier: &str) -> (Market, Bounds) {
    let th = tier_is_thorough(tier);
    let specs = vec![spec(Who::A, Who::M1, 1, 3, 10), spec(Who::B, Who::M1, 2, 3, 3)];
    let cfg = Cfg {
        name: "payments",
        specs,
        batches: vec![],
        bases: if th { vec!["active-1", "active-2", "published-1", "published-2"] } else { vec!["active-1", "published-1", "published-2"] },
        publishes: 0,
        withdraws: 0,
        adds: 0,
        settles: if th { 9 } else { 6 },
        terms: 1,
        acts: 0,
        withdraw_sels: vec![],
        withdraw_callers: vec![],
        activate_variants: false,
        tick_lookahead: if th { 3 } else { 2 },
        boundaries: if th { vec!["start", "cron", "mid", "end", "late"] } else { vec!["start", "cron", "end"] },
    };
    let b = if th {
        Bounds { max_depth: 14, wall_cap_s: 1500.0, replay_sample: 16, ..Default::default() }
    } else {
        Bounds { max_depth: 6, wall_cap_s: 40.0, replay_sample: 8, ..Default::default() }
    };
    (Market { cfg }, b)
}

pub fn run(tier: &str) -> ! {
    let (scn, b) = scenario(tier);
    let mut run = mcx::evidence::Run::new("C07", tier, "model_checking");
    run.assumptions = vec![
        "mcvm mirrors the FVM message semantics; termination is the impersonated miner's OnMinerSectorsTerminate".into(),
        "long time spans use sparse ticking (real cron at every scheduled epoch and at the target)".into(),
        "deal shapes: price 10 and 3 atto/epoch, minimum duration; timeline points start-1..start+1, first cron epoch..+2, mid, end-1..end+1, end+interval".into(),
    ];
    run.add(mcx::explore(&scn, &b));
    run.finish()
}
