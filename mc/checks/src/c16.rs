//! C16 — payment channel: vouchers redeem once and the payout is exact. DESIGN §3 C16.
use crate::util::*;
use fil_actor_paych::{
    LaneState, Merge, Method, SETTLE_DELAY, SignedVoucher, State as PState, UpdateChannelStateParams,
};
use fil_actors_runtime::runtime::Policy;
use fil_actors_runtime::{Array, INIT_ACTOR_ADDR};
use fvm_shared::ActorID;
use fvm_shared::address::Address;
use fvm_shared::crypto::signature::{Signature, SignatureType};
use fvm_shared::econ::TokenAmount;
use mcvm::{Store, Vm, fake_sign};
use mcx::{Bounds, Key, Scenario, Step};
use num_traits::Zero;
use serde::{Deserialize, Serialize};
use serde_json::json;
use std::collections::BTreeMap;

#[derive(Clone, Copy, Debug, Serialize, Deserialize, PartialEq, Eq, PartialOrd, Ord)]
pub enum Party {
    A,
    B,
    Z,
}
#[derive(Clone, Copy, Debug, Serialize, Deserialize, PartialEq, Eq)]
pub enum Lock {
    None,
    Future,
    Past,
    MaxNow,
}
#[derive(Clone, Copy, Debug, Serialize, Deserialize, PartialEq, Eq)]
pub enum Secret {
    None,
    Right,
    Wrong,
}

#[derive(Clone, Debug, Serialize, Deserialize)]
pub struct Voucher {
    pub lane: u64,
    pub nonce: u64,
    pub amount: i64,
    pub merges: Vec<(u64, u64)>,
    pub signer: Party,
    pub submitter: Party,
    pub lock: Lock,
    pub msh: i64,
    pub secret: Secret,
    pub other_channel: bool,
    pub tamper: bool,
}

#[derive(Clone, Debug, Serialize, Deserialize)]
pub enum Act {
    Update(Voucher),
    Settle(Party),
    Collect(Party),
    Tick1,
    TickDelay,
    /// one epoch short of the settle delay (collect must still be refused right after a settle)
    TickDelayShort,
}

#[derive(Clone, Debug, Serialize, Default)]
pub struct Model {
    pub lanes: BTreeMap<u64, (u64, i64)>, // lane -> (nonce, redeemed)
    pub to_send: i64,
    pub settling_at: i64,
    pub min_settle: i64,
    pub balance: i64,
    pub collected: bool,
    pub ticks_left: u32,
    pub delay_left: u32,
}

pub struct Paych {
    pub amounts: Vec<i64>,
    pub nonces: Vec<u64>,
    pub lanes: Vec<u64>,
    pub ticks: u32,
}

pub struct Cast {
    pub a: (ActorID, Address),
    pub b: (ActorID, Address),
    pub z: (ActorID, Address),
    pub p: ActorID,
    pub p2: ActorID,
}

pub struct W {
    pub vm: Vm,
    pub cast: Cast,
}

const FAR: i64 = 5000;
const NEAR: i64 = 200;
const FUND: i64 = 10;

impl Paych {
    fn cast_of<'a>(&self, w: &'a W, p: Party) -> &'a (ActorID, Address) {
        match p {
            Party::A => &w.cast.a,
            Party::B => &w.cast.b,
            Party::Z => &w.cast.z,
        }
    }

    fn build_voucher(&self, w: &W, v: &Voucher, now: i64) -> UpdateChannelStateParams {
        let secret_right = b"s3cret".to_vec();
        let pre = w.vm.prims_hash(&secret_right);
        let (tl_min, tl_max) = match v.lock {
            Lock::None => (0, 0),
            Lock::Future => (now + 1, 0),
            Lock::Past => (0, now - 1),
            Lock::MaxNow => (now, now),
        };
        let mut sv = SignedVoucher {
            channel_addr: Address::new_id(if v.other_channel { w.cast.p2 } else { w.cast.p }),
            time_lock_min: tl_min,
            time_lock_max: tl_max,
            secret_pre_image: if v.secret == Secret::None { vec![] } else { pre.to_vec() },
            extra: None,
            lane: v.lane,
            nonce: v.nonce,
            amount: TokenAmount::from_atto(v.amount),
            min_settle_height: v.msh,
            merges: v.merges.iter().map(|&(lane, nonce)| Merge { lane, nonce }).collect(),
            signature: None,
        };
        let bz = sv.signing_bytes().unwrap();
        let mut sig = fake_sign(&self.cast_of(w, v.signer).1, &bz);
        if v.tamper {
            sig[0] ^= 1;
        }
        sv.signature = Some(Signature { sig_type: SignatureType::BLS, bytes: sig });
        UpdateChannelStateParams {
            sv,
            secret: match v.secret {
                Secret::None => vec![],
                Secret::Right => secret_right,
                Secret::Wrong => b"wrong".to_vec(),
            },
        }
    }

    /// The specification: does the lane model accept this voucher, and what does it become.
    fn model_update(&self, m: &Model, v: &Voucher, now: i64) -> Option<Model> {
        if m.collected {
            return None;
        }
        let counter = match v.submitter {
            Party::A => Party::B,
            Party::B => Party::A,
            Party::Z => return None,
        };
        if v.signer != counter || v.tamper || v.other_channel {
            return None;
        }
        if m.settling_at != 0 && now >= m.settling_at {
            return None;
        }
        match v.lock {
            Lock::Future | Lock::Past => return None,
            _ => {}
        }
        if v.secret == Secret::Wrong || v.amount < 0 {
            return None;
        }
        let mut n = m.clone();
        let (ln, lred) = n.lanes.get(&v.lane).cloned().unwrap_or((0, 0));
        if n.lanes.contains_key(&v.lane) && v.nonce <= ln {
            return None;
        }
        let mut others = 0i64;
        let mut seen: Vec<u64> = vec![];
        for &(ml, mn) in &v.merges {
            if ml == v.lane {
                return None;
            }
            let (on, ored) = *n.lanes.get(&ml)?;
            if mn <= on {
                return None;
            }
            // what a merged lane already redeemed counts once, however often the list names it
            if !seen.contains(&ml) {
                others += ored;
                seen.push(ml);
            }
            n.lanes.insert(ml, (mn, ored));
        }
        let new_send = m.to_send + v.amount - lred - others;
        if new_send < 0 || new_send > m.balance {
            return None;
        }
        n.lanes.insert(v.lane, (v.nonce, v.amount));
        n.to_send = new_send;
        if v.msh != 0 {
            if n.settling_at != 0 && n.settling_at < v.msh {
                n.settling_at = v.msh;
            }
            if n.min_settle < v.msh {
                n.min_settle = v.msh;
            }
        }
        Some(n)
    }

    /// Decode the implementation's channel state into the model's vocabulary.
    fn observe(&self, w: &W) -> Option<Model> {
        let st: PState = w.vm.state_of(w.cast.p)?;
        let arr: Array<LaneState, _> = Array::load(&st.lane_states, &w.vm.store).unwrap();
        let mut lanes = BTreeMap::new();
        arr.for_each(|i, l| {
            lanes.insert(i, (l.nonce, l.redeemed.atto().try_into().unwrap()));
            Ok(())
        })
        .unwrap();
        Some(Model {
            lanes,
            to_send: st.to_send.atto().try_into().unwrap(),
            settling_at: st.settling_at,
            min_settle: st.min_settle_height,
            balance: w.vm.balance(w.cast.p).atto().try_into().unwrap(),
            collected: false,
            ticks_left: 0,
            delay_left: 0,
        })
    }

    fn compare(&self, w: &W, m: &Model) -> Result<(), String> {
        match self.observe(w) {
            None => {
                if m.collected {
                    Ok(())
                } else {
                    Err("channel actor disappeared but the model says it was not collected".into())
                }
            }
            Some(o) => {
                if m.collected {
                    return Err("model says collected but the channel actor still exists".into());
                }
                if o.to_send < 0 || o.to_send > o.balance {
                    return Err(format!("to_send {} outside [0, balance {}]", o.to_send, o.balance));
                }
                if (o.lanes.clone(), o.to_send, o.settling_at, o.min_settle, o.balance)
                    != (m.lanes.clone(), m.to_send, m.settling_at, m.min_settle, m.balance)
                {
                    return Err(format!("implementation {:?} != lane model {:?}", o, m));
                }
                Ok(())
            }
        }
    }
}

impl Scenario for Paych {
    type S = VS<Model>;
    type A = Act;
    type W = W;

    fn name(&self) -> String {
        "paych".into()
    }

    fn worker(&self, store: &Store) -> W {
        let vm = Vm::genesis(store.clone(), Policy::default());
        vm.bump_nonce.set(true);
        let a = vm.new_account(1, &fil(1000));
        let b = vm.new_account(2, &fil(1000));
        let z = vm.new_account(3, &fil(1000));
        for _ in 0..10 {
            vm.tick();
        }
        let mk = |from: ActorID, to: ActorID| -> ActorID {
            let ctor = fil_actor_paych::ConstructorParams { from: id(from), to: id(to) };
            let r = ext(
                &vm,
                from,
                &INIT_ACTOR_ADDR,
                &atto(FUND as i128),
                fil_actor_init::Method::Exec as u64,
                Some(&fil_actor_init::ExecParams {
                    code_cid: *fil_actors_runtime::test_utils::PAYCH_ACTOR_CODE_ID,
                    constructor_params: fvm_ipld_encoding::RawBytes::serialize(&ctor).unwrap(),
                }),
            );
            assert!(r.ok(), "SETUP-FAILED paych create: {}", r.tree());
            let ret: fil_actor_init::ExecReturn = r.ret.unwrap().deserialize().unwrap();
            ret.id_address.id().unwrap()
        };
        let p = mk(a.0, b.0);
        let p2 = mk(a.0, b.0);
        vm.bump_nonce.set(false);
        W { vm, cast: Cast { a, b, z, p, p2 } }
    }

    fn bases(&self, w: &W) -> Vec<(String, VS<Model>)> {
        let m = Model { balance: FUND, ticks_left: self.ticks, delay_left: 1, ..Default::default() };
        vec![("fresh-channel".into(), VS { snap: w.vm.snapshot(), m })]
    }

    fn key(&self, s: &VS<Model>) -> Key {
        vs_key(s)
    }

    fn kind(&self, a: &Act) -> String {
        match a {
            Act::Update(v) => {
                if v.submitter == Party::B
                    && v.signer == Party::A
                    && !v.tamper
                    && !v.other_channel
                    && v.lock == Lock::None
                    && v.secret == Secret::None
                {
                    if v.merges.is_empty() { "update".into() } else { "update+merge".into() }
                } else {
                    "update(deviant field)".into()
                }
            }
            Act::Settle(p) => format!("settle({p:?})"),
            Act::Collect(p) => format!("collect({p:?})"),
            Act::Tick1 => "tick(1)".into(),
            Act::TickDelay => "tick(settle-delay)".into(),
            Act::TickDelayShort => "tick(settle-delay - 1)".into(),
        }
    }

    fn actions(&self, _w: &W, s: &VS<Model>) -> Vec<Act> {
        let mut v = vec![];
        if s.m.collected {
            return v;
        }
        let base = Voucher {
            lane: 0,
            nonce: 1,
            amount: 3,
            merges: vec![],
            signer: Party::A,
            submitter: Party::B,
            lock: Lock::None,
            msh: 0,
            secret: Secret::None,
            other_channel: false,
            tamper: false,
        };
        // main grid: lane x nonce x amount x merges, payee submits a payer-signed voucher
        for &lane in &self.lanes {
            for &nonce in &self.nonces {
                for &amount in &self.amounts {
                    let others: Vec<u64> = self.lanes.iter().cloned().filter(|l| *l != lane).collect();
                    let mut merge_sets: Vec<Vec<(u64, u64)>> = vec![vec![]];
                    for &o in &others {
                        for &n in &self.nonces {
                            merge_sets.push(vec![(o, n)]);
                        }
                    }
                    if others.len() >= 2 {
                        for &n in &self.nonces[1..] {
                            merge_sets.push(vec![(others[0], n), (others[1], n)]);
                        }
                    }
                    merge_sets.push(vec![(lane, nonce)]); // merge into own lane: must be rejected
                    if !others.is_empty() {
                        // the same lane named twice in one merge list (increasing nonces): its
                        // redeemed amount may be deducted once at most (KF-5: now rejected outright)
                        merge_sets.push(vec![(others[0], 2), (others[0], 3)]);
                    }
                    for ms in merge_sets {
                        v.push(Act::Update(Voucher { lane, nonce, amount, merges: ms, ..base.clone() }));
                    }
                }
            }
        }
        // one-field deviations on two vouchers that would otherwise be acceptable
        let cur0 = s.m.lanes.get(&0).map(|l| l.0).unwrap_or(0);
        for b in [
            Voucher { nonce: cur0 + 1, amount: 5, ..base.clone() },
            Voucher { lane: 1, nonce: s.m.lanes.get(&1).map(|l| l.0).unwrap_or(0) + 1, amount: 3, ..base.clone() },
        ] {
            for signer in [Party::A, Party::B, Party::Z] {
                for submitter in [Party::A, Party::B, Party::Z] {
                    if !(signer == Party::A && submitter == Party::B) {
                        v.push(Act::Update(Voucher { signer, submitter, ..b.clone() }));
                    }
                }
            }
            for lock in [Lock::Future, Lock::Past, Lock::MaxNow] {
                v.push(Act::Update(Voucher { lock, ..b.clone() }));
            }
            for secret in [Secret::Right, Secret::Wrong] {
                v.push(Act::Update(Voucher { secret, ..b.clone() }));
            }
            v.push(Act::Update(Voucher { msh: FAR, ..b.clone() }));
            v.push(Act::Update(Voucher { msh: 1, ..b.clone() }));
            // a height in the near future: later than now, earlier than now + the settle delay
            v.push(Act::Update(Voucher { msh: NEAR, ..b.clone() }));
            v.push(Act::Update(Voucher { other_channel: true, ..b.clone() }));
            v.push(Act::Update(Voucher { tamper: true, ..b.clone() }));
            v.push(Act::Update(Voucher { amount: -1, ..b.clone() }));
        }
        for p in [Party::A, Party::B, Party::Z] {
            v.push(Act::Settle(p));
            v.push(Act::Collect(p));
        }
        if s.m.ticks_left > 0 {
            v.push(Act::Tick1);
        }
        if s.m.delay_left > 0 {
            v.push(Act::TickDelay);
            v.push(Act::TickDelayShort);
        }
        v
    }

    fn step(&self, w: &W, s: &VS<Model>, a: &Act, _faults: &[usize]) -> Step<VS<Model>> {
        let vm = &w.vm;
        vm.restore(&s.snap);
        let now = vm.epoch();
        let mut m = s.m.clone();
        let p = id(w.cast.p);
        let mut agreed = 0;
        let outcome;
        let mut viol: Option<String> = None;
        match a {
            Act::Update(v) => {
                let prm = self.build_voucher(w, v, now);
                let r = ext(vm, self.cast_of(w, v.submitter).0, &p, &TokenAmount::zero(), Method::UpdateChannelState as u64, Some(&prm));
                let expect = self.model_update(&m, v, now);
                match (&expect, r.ok()) {
                    (Some(n), true) => {
                        m = n.clone();
                        outcome = "accepted";
                    }
                    (None, false) => outcome = "rejected",
                    (Some(_), false) if { let mut l: Vec<u64> = v.merges.iter().map(|x| x.0).collect(); l.sort(); l.windows(2).any(|w| w[0] == w[1]) } => {
                        // a merge list naming a lane twice: the property fixes what an accepted
                        // voucher may do (deduct once), not that it must be accepted
                        outcome = "rejected";
                    }
                    (Some(_), false) => {
                        outcome = "rejected";
                        viol = Some(format!("voucher the lane model accepts was rejected: {}", r.tree()));
                    }
                    (None, true) => {
                        outcome = "accepted";
                        viol = Some("voucher the lane model rejects was accepted".into());
                    }
                }
                if r.any_panicked() {
                    viol = Some(format!("panic: {}", r.tree()));
                }
                agreed += 1;
            }
            Act::Settle(who) => {
                let r = ext(vm, self.cast_of(w, *who).0, &p, &TokenAmount::zero(), Method::Settle as u64, NOP);
                let expect = *who != Party::Z && m.settling_at == 0;
                if expect != r.ok() {
                    viol = Some(format!("settle by {who:?}: model accept={expect}, implementation: {}", r.tree()));
                }
                if expect {
                    let before = m.settling_at;
                    m.settling_at = (now + SETTLE_DELAY).max(m.min_settle);
                    if m.settling_at < before {
                        viol = Some("settling_at decreased".into());
                    }
                }
                outcome = if r.ok() { "accepted" } else { "rejected" };
                agreed += 1;
            }
            Act::Collect(who) => {
                let (ba, bb) = (vm.balance(w.cast.a.0), vm.balance(w.cast.b.0));
                let r = ext(vm, self.cast_of(w, *who).0, &p, &TokenAmount::zero(), Method::Collect as u64, NOP);
                let expect = *who != Party::Z && m.settling_at != 0 && now >= m.settling_at;
                if expect != r.ok() {
                    viol = Some(format!("collect by {who:?} at {now}: model accept={expect} (settling_at {}), implementation: {}", m.settling_at, r.tree()));
                }
                if r.ok() {
                    let da = vm.balance(w.cast.a.0) - ba;
                    let db = vm.balance(w.cast.b.0) - bb;
                    if db != atto(m.to_send as i128) || da != atto((m.balance - m.to_send) as i128) {
                        viol = Some(format!("collect paid payee {db} payer {da}; model: owed {} remainder {}", m.to_send, m.balance - m.to_send));
                    }
                    if vm.actor(w.cast.p).is_some() {
                        viol = Some("channel actor still exists after collect".into());
                    }
                    m.collected = true;
                }
                outcome = if r.ok() { "accepted" } else { "rejected" };
                agreed += 1;
            }
            Act::Tick1 => {
                vm.tick();
                m.ticks_left -= 1;
                outcome = "ok";
            }
            Act::TickDelay | Act::TickDelayShort => {
                // nothing is scheduled in this scenario (no miners, no deals): idle epochs are skipped
                vm.tick();
                vm.set_epoch(now + SETTLE_DELAY - if matches!(a, Act::TickDelayShort) { 1 } else { 0 });
                m.delay_left -= 1;
                outcome = "ok";
            }
        }
        if viol.is_none()
            && let Err(e) = self.compare(w, &m)
        {
            viol = Some(e);
        }
        let mut st = Step::new(VS { snap: vm.snapshot(), m }, outcome);
        st.agreed = agreed;
        st.violation = viol;
        st
    }

    fn describe(&self) -> serde_json::Value {
        json!({"policy": "MAINNET", "fund": FUND, "lanes": self.lanes, "nonces": self.nonces, "amounts": self.amounts,
               "deviant_fields": ["signer x submitter (3x3)", "time lock {future, past, max=now}", "secret {right, wrong}", "min_settle_height {1, far}", "other channel", "tampered signature", "negative amount", "merge into own lane"],
               "tick_budget": self.ticks, "oracle": "lane model in lock-step after every step; payout deltas on collect"})
    }
}

pub fn scenario(tier: &str) -> (Paych, Bounds) {
    if tier_is_thorough(tier) {
        (
            Paych { amounts: vec![0, 3, 5, 11], nonces: vec![1, 2, 3], lanes: vec![0, 1, 2], ticks: 1 },
            Bounds { max_depth: 6, wall_cap_s: 1500.0, ..Default::default() },
        )
    } else {
        (
            Paych { amounts: vec![0, 3, 5, 11], nonces: vec![1, 2, 3], lanes: vec![0, 1, 2], ticks: 1 },
            Bounds { max_depth: 3, wall_cap_s: 40.0, ..Default::default() },
        )
    }
}

pub fn run(tier: &str) -> ! {
    let (scn, b) = scenario(tier);
    let mut run = mcx::evidence::Run::new("C16", tier, "model_checking");
    run.assumptions = vec![
        "mcvm mirrors the FVM message semantics (value transfer, rollback, caller validation)".into(),
        "signatures are faked: valid iff blake2b(signer key address || message)".into(),
        "voucher `extra` calls are outside the alphabet; a merge list naming a lane twice may be rejected or accepted with a single deduction".into(),
    ];
    run.add(mcx::explore(&scn, &b));
    run.finish()
}
