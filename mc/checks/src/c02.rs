//! C02 — miner-life walk (SMALL policy); see minerlife.rs and DESIGN §3 C02.
use crate::minerlife::*;
use crate::util::*;
use mcx::Bounds;

pub fn scenario(tier: &str) -> (Life, Bounds) {
    let th = tier_is_thorough(tier);
    let cfg = LifeCfg {
        name: "c02",
        periods: if th { 5 } else { 3 },
        devs: if th { 2 } else { 1 },
        bases: if th { vec!["one-deadline", "two-deadlines", "one-deadline-aged", "two-deadlines-aged"] } else { vec!["one-deadline-aged", "two-deadlines"] },
        oracles: Oracles { c02: true, ..Default::default() },
        sector_sets: if th { sets_all() } else { sets_small() },
        known_open: mcx::evidence::known_open("C02"),
        property: "C02",
        poor: None,
        money_devs: false,
        precommits: th,
        horizon: None,
        big: false,
        tick_faults: false,
        bystander: false,
        extensions: true,
        backlog: false,
    };
    let b = if th {
        Bounds { max_depth: 400, wall_cap_s: 1500.0, ..Default::default() }
    } else {
        Bounds { max_depth: 400, wall_cap_s: 45.0, ..Default::default() }
    };
    (Life { cfg }, b)
}

/// Two deviations inside the dispute window of a bad-proof PoSt (8 epochs).
pub fn scenario_dispute(tier: &str) -> (Life, Bounds) {
    let (mut l, mut b) = scenario(tier);
    l.cfg.name = "c02-dispute";
    l.cfg.bases = vec!["bad-post-closed", "bad-post-closed-2dl"];
    l.cfg.devs = if tier_is_thorough(tier) { 3 } else { 2 };
    l.cfg.horizon = Some(8);
    l.cfg.precommits = false;
    b.wall_cap_s = if tier_is_thorough(tier) { 600.0 } else { 30.0 };
    (l, b)
}

/// Bursts: several deviations close together (short horizon), also from a pre-faulted base.
pub fn scenario_burst(tier: &str) -> (Life, Bounds) {
    let (mut l, mut b) = scenario(tier);
    let th = tier_is_thorough(tier);
    l.cfg.name = "c02-burst";
    l.cfg.bases = vec!["one-deadline-aged-f12", "two-deadlines"];
    l.cfg.devs = if th { 3 } else { 2 };
    l.cfg.horizon = Some(if th { 10 } else { 7 });
    l.cfg.precommits = false;
    l.cfg.sector_sets = vec![vec![1], vec![2], vec![1, 2], vec![3]];
    b.wall_cap_s = if th { 900.0 } else { 30.0 };
    (l, b)
}

pub fn run(tier: &str) -> ! {
    let (scn, b) = scenario(tier);
    let mut run = mcx::evidence::Run::new("C02", tier, "model_checking");
    run.assumptions = vec![
        "SMALL policy: same actor code with scaled protocol parameters (24-epoch proving period, 2 KiB sectors, partitions of 2); constants that are not policy (vesting spec, termination fee days) are as on mainnet".into(),
        "mcvm stands in for the FVM; proofs are faked (valid unless marked BAD); the real cron tick runs at every epoch".into(),
        "a second 'ballast' miner holds a large locked reward so that the network pledge total stays positive (see KF-1)".into(),
    ];
    run.add(mcx::explore(&scn, &b));
    let (sb, bb) = scenario_burst(tier);
    run.add(mcx::explore(&sb, &bb));
    let (scn2, b2) = scenario_dispute(tier);
    run.add(mcx::explore(&scn2, &b2));
    let po = poweronly::PowerOnly { miners: 5 };
    run.add(mcx::explore(&po, &Bounds { max_depth: if tier_is_thorough(tier) { 6 } else { 4 }, wall_cap_s: if tier_is_thorough(tier) { 600.0 } else { 20.0 }, replay_sample: 16, ..Default::default() }));
    run.finish()
}

// ------------------------------------------------------------------ power-only sub-scenario

pub mod poweronly {
    //! Five real miner actors; the harness plays each of them calling `UpdateClaimedPower`
    //! (the power actor's contract is with miner-typed callers). Exhaustive over deltas.
    use crate::chain::create_miner;
    use crate::miner::{POST_PROOF, SECTOR_SIZE, small_policy};
    use crate::util::*;
    use fil_actor_power::{Method as PM, State as PowerState, UpdateClaimedPowerParams};
    use fil_actors_runtime::STORAGE_POWER_ACTOR_ADDR;
    use fvm_shared::ActorID;
    use fvm_shared::bigint::BigInt;
    use fvm_shared::econ::TokenAmount;
    use mcvm::{Store, Vm};
    use mcx::{Key, Scenario, Step};
    use num_traits::Zero;
    use serde::{Deserialize, Serialize};
    use std::collections::BTreeMap;

    #[derive(Clone, Debug, Serialize, Deserialize)]
    pub enum Act {
        /// miner index, raw delta in sectors, quality multiplier of the delta (1 or 10)
        Update(usize, i64, i64),
        Tick,
    }

    #[derive(Clone, Debug, Serialize)]
    pub struct M {
        pub claims: BTreeMap<usize, (i64, i64)>,
        pub ticks_left: u8,
    }

    pub struct PowerOnly {
        pub miners: usize,
    }
    pub struct W {
        pub vm: Vm,
        pub ms: Vec<ActorID>,
        pub base: mcvm::Snapshot,
    }

    impl PowerOnly {
        fn check(&self, w: &W, m: &M) -> Result<(), String> {
            let vm = &w.vm;
            let ps: PowerState = vm.state_of(4).unwrap();
            let min = 2 * SECTOR_SIZE as i64;
            let (mut tb, mut tqb, mut tr, mut tq, mut above) = (0i64, 0i64, 0i64, 0i64, 0i64);
            for (i, mid) in w.ms.iter().enumerate() {
                let c = ps.get_claim(&vm.store, &id(*mid)).unwrap().ok_or_else(|| format!("miner {mid} lost its claim"))?;
                let (r, q) = m.claims.get(&i).cloned().unwrap_or((0, 0));
                if c.raw_byte_power != BigInt::from(r) || c.quality_adj_power != BigInt::from(q) {
                    return Err(format!("claim of miner {i} ({}, {}) != sum of accepted deltas ({r}, {q})", c.raw_byte_power, c.quality_adj_power));
                }
                tb += r;
                tqb += q;
                if r >= min {
                    above += 1;
                    tr += r;
                    tq += q;
                }
            }
            // other miners (none) - totals must match exactly
            if ps.total_bytes_committed != BigInt::from(tb) || ps.total_qa_bytes_committed != BigInt::from(tqb) {
                return Err(format!("committed totals ({}, {}) != sum of claims ({tb}, {tqb})", ps.total_bytes_committed, ps.total_qa_bytes_committed));
            }
            if ps.total_raw_byte_power != BigInt::from(tr) || ps.total_quality_adj_power != BigInt::from(tq) {
                return Err(format!("network power ({}, {}) != sum of claims at or above the minimum ({tr}, {tq})", ps.total_raw_byte_power, ps.total_quality_adj_power));
            }
            if ps.miner_above_min_power_count != above {
                return Err(format!("miners above minimum {} != {above}", ps.miner_above_min_power_count));
            }
            let cur = ps.current_total_power();
            let want = if above < 4 { (BigInt::from(tb), BigInt::from(tqb)) } else { (BigInt::from(tr), BigInt::from(tq)) };
            if cur != want {
                return Err(format!("current total power {:?} does not follow the minimum-miners rule (above = {above})", cur));
            }
            Ok(())
        }
    }

    impl Scenario for PowerOnly {
        type S = VS<M>;
        type A = Act;
        type W = W;
        fn name(&self) -> String {
            "power-only".into()
        }
        fn worker(&self, store: &Store) -> W {
            let vm = Vm::genesis(store.clone(), small_policy());
            vm.bump_nonce.set(true);
            let mut ms = vec![];
            for i in 0..self.miners {
                let o = vm.new_account(60 + i as u8, &fil(5000)).0;
                ms.push(create_miner(&vm, o, o, POST_PROOF, &fil(100)).unwrap_or_else(|r| panic!("SETUP-FAILED: {}", r.tree())));
            }
            vm.bump_nonce.set(false);
            let base = vm.snapshot();
            W { vm, ms, base }
        }
        fn bases(&self, w: &W) -> Vec<(String, VS<M>)> {
            vec![("five-empty-miners".into(), VS { snap: w.base.clone(), m: M { claims: BTreeMap::new(), ticks_left: 1 } })]
        }
        fn key(&self, s: &VS<M>) -> Key {
            vs_key(s)
        }
        fn kind(&self, a: &Act) -> String {
            match a {
                Act::Update(_, d, q) => format!("update-claimed-power {d:+} x{q}"),
                Act::Tick => "tick".into(),
            }
        }
        fn actions(&self, w: &W, s: &VS<M>) -> Vec<Act> {
            let mut v = vec![];
            for i in 0..w.ms.len() {
                for d in [1i64, 2, -1, -2] {
                    v.push(Act::Update(i, d, 1));
                }
                v.push(Act::Update(i, 1, 10));
                v.push(Act::Update(i, -1, 10));
            }
            if s.m.ticks_left > 0 {
                v.push(Act::Tick);
            }
            v
        }
        fn step(&self, w: &W, s: &VS<M>, a: &Act, _f: &[usize]) -> Step<VS<M>> {
            let vm = &w.vm;
            vm.restore(&s.snap);
            let mut m = s.m.clone();
            let mut viol = None;
            let outcome;
            match a {
                Act::Update(i, d, q) => {
                    let raw = d * SECTOR_SIZE as i64;
                    let qa = raw * q;
                    let r = imp(vm, w.ms[*i], &STORAGE_POWER_ACTOR_ADDR, &TokenAmount::zero(), PM::UpdateClaimedPower as u64, Some(&UpdateClaimedPowerParams { raw_byte_delta: BigInt::from(raw), quality_adjusted_delta: BigInt::from(qa) }));
                    let (cr, cq) = m.claims.get(i).cloned().unwrap_or((0, 0));
                    let expect = cr + raw >= 0 && cq + qa >= 0;
                    if r.any_panicked() {
                        viol = Some(format!("panic: {}", r.tree()));
                    } else if r.ok() != expect {
                        viol = Some(format!("power delta ({raw}, {qa}) on claim ({cr}, {cq}): model accept={expect}: {}", r.tree()));
                    }
                    if expect {
                        m.claims.insert(*i, (cr + raw, cq + qa));
                    }
                    outcome = if r.ok() { "accepted" } else { "rejected" };
                }
                Act::Tick => {
                    m.ticks_left -= 1;
                    let r = vm.tick();
                    if r.flat().iter().any(|i| !i.ok()) {
                        viol = Some(format!("tick failed: {}", r.tree()));
                    }
                    outcome = "ok";
                }
            }
            if viol.is_none()
                && let Err(e) = self.check(w, &m)
            {
                viol = Some(e);
            }
            let _ = BigInt::zero();
            let mut st = Step::new(VS { snap: vm.snapshot(), m }, outcome);
            st.agreed = 1;
            st.violation = viol;
            st
        }
    }
}
