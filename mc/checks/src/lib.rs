//! All property checks (one module per property or shared scenario).
pub mod chain;
pub mod market;
pub mod miner;
pub mod minercheck;
pub mod minerlife;
pub mod penalties;
pub mod util;

pub mod c01;
pub mod c02;
pub mod c03;
pub mod c04;
pub mod c05;
pub mod c06;
pub mod c07;
pub mod c08;
pub mod c09;
pub mod c10;
pub mod c11;
pub mod c12;
pub mod c13;
pub mod c14;
pub mod c15;
pub mod c16;
pub mod c17;
pub mod c18;
pub mod c19;
pub mod c20;
pub mod evmkit;
pub mod refevm;

use mcx::Scenario;
use serde_json::Value;

/// Generic replay of a recorded violation path through a scenario (no explorer involved).
pub fn replay_with<Sc: Scenario>(scn: &Sc, v: &Value) -> ! {
    let base = v["base"].as_str().unwrap();
    let mut path = vec![];
    for st in v["path"].as_array().unwrap() {
        let a: Sc::A = serde_json::from_value(st["action"].clone()).expect("action decodes");
        let f: Vec<usize> = serde_json::from_value(st["faults"].clone()).unwrap();
        path.push((a, f));
    }
    match mcx::replay_path(scn, base, &path) {
        Ok(Some(msg)) => {
            println!("REPRODUCED property={} {}", v["property"].as_str().unwrap_or("?"), msg);
            std::process::exit(1);
        }
        Ok(None) => {
            println!("NOT-REPRODUCED: the recorded path passes on this tree");
            std::process::exit(0);
        }
        Err(e) => {
            eprintln!("replay machinery error: {e}");
            std::process::exit(2);
        }
    }
}
