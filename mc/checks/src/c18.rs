//! C18 — EVM totality and read-only mode. DESIGN §3 C18.
//!
//! Enumeration (no BFS). Totality: byte strings as run-time and init code, every opcode at
//! boundary stack heights, truncated PUSHn, jumps to every offset of codes with 0x5b inside
//! push data, memory instructions at the 32-bit boundary. Oracle for every message: it ENDS
//! (hook H1 turns an endless loop into a distinguished failure), nothing panicked anywhere in
//! the invocation tree, no invocation ends with a crash-like exit code, and where the
//! property promises a rejection (stack beyond 1024, underflow, undefined opcode, memory beyond
//! 2^32, jump into push data) the message fails. Read-only: call-tree scripts in which a
//! state-changing instruction sits beneath a STATICCALL; oracle: actor table, balances and
//! events unchanged, the frame that attempted the change observed as failed.
use crate::evmkit::{self, Asm, Deployed, World, classify, op};
use crate::refevm::{self, Account, Fail, Limits, Outcome, Verdict, Word, max_word, two_pow, w};
use fvm_shared::econ::TokenAmount;
use fvm_shared::error::ExitCode;
use mcvm::Inv;
use mcx::{PathStep, ViolationReport};
use num_traits::Zero;
use serde::{Deserialize, Serialize};
use serde_json::{Value, json};
use std::collections::BTreeMap;
use std::sync::atomic::{AtomicBool, AtomicUsize, Ordering};
use std::time::Instant;

// ------------------------------------------------------------------------------ cases

#[derive(Clone, Debug, Serialize, Deserialize, PartialEq, Eq)]
pub enum Kind {
    /// `code` is deployed as run-time code, then called with every call data in turn.
    Runtime,
    /// `code` is the init code given to `EAM.CreateExternal`; the result is then called.
    Init,
}

#[derive(Clone, Debug, Serialize, Deserialize)]
pub struct Tc {
    pub group: String,
    pub kind: Kind,
    #[serde(with = "hexbytes")]
    pub code: Vec<u8>,
    pub calls: Vec<HexBytes>,
    /// The property promises that the (last) message fails, for this reason.
    pub must_fail: Option<String>,
    /// Compare the outcome of every message with refevm whenever refevm defines it.
    pub match_ref: bool,
    /// Allocates close to 4 GiB of EVM memory: run under the global "huge" semaphore.
    pub huge: bool,
    pub desc: String,
}

#[derive(Clone, Debug, Serialize, Deserialize)]
pub struct HexBytes(#[serde(with = "hexbytes")] pub Vec<u8>);

mod hexbytes {
    use serde::{Deserialize, Deserializer, Serializer};
    pub fn serialize<S: Serializer>(b: &Vec<u8>, s: S) -> Result<S::Ok, S::Error> {
        s.serialize_str(&hex::encode(b))
    }
    pub fn deserialize<'de, D: Deserializer<'de>>(d: D) -> Result<Vec<u8>, D::Error> {
        let s = String::deserialize(d)?;
        hex::decode(s).map_err(serde::de::Error::custom)
    }
}

#[derive(Clone, Debug, Serialize, Deserialize)]
pub enum Case {
    Total(Tc),
    ReadOnly(Script),
}

#[derive(Default)]
pub struct Verdicts {
    pub violation: Option<String>,
    pub nontrivial: bool,
    pub messages: u64,
    /// exit code (top level) -> count
    pub codes: Vec<u32>,
    pub note: Option<String>,
}



fn crash_like(i: &Inv) -> bool {
    let c = i.code;
    if c == ExitCode::SYS_ASSERTION_FAILED && i.msg.starts_with("send syscall error") {
        // mcvm records a failed send *syscall* (receiver not found, insufficient funds, ...) as
        // a pseudo-invocation with this code; the callee never ran.
        return false;
    }
    c == ExitCode::USR_ASSERTION_FAILED
        || c == ExitCode::SYS_ASSERTION_FAILED
        || c == ExitCode::USR_ILLEGAL_STATE
        || c == ExitCode::USR_SERIALIZATION
        || c == ExitCode::SYS_MISSING_RETURN
        || c == ExitCode::SYS_ILLEGAL_INSTRUCTION
        || c == ExitCode::SYS_ILLEGAL_EXIT_CODE
}

/// The totality oracle on one top-level message.
fn total(inv: &Inv, what: &str) -> Result<(), String> {
    if inv.any_panicked() {
        return Err(format!("{what}: an actor panicked:\n{}", inv.tree()));
    }
    for i in inv.flat() {
        if crash_like(i) {
            return Err(format!("{what}: invocation ended with crash-like exit code {}:\n{}", i.code.value(), inv.tree()));
        }
    }
    Ok(())
}

pub fn run_total(world: &World, c: &Tc) -> Verdicts {
    let mut v = Verdicts::default();
    world.reset();
    // only the explicit 4 GiB cases run without the memory cap of hook H1
    world.memory_cap.set(if c.huge { u64::MAX } else { evmkit::DEFAULT_MEMORY_CAP });
    let (d, inv) = match c.kind {
        Kind::Runtime => world.deploy(&c.code),
        Kind::Init => world.create(&c.code, &TokenAmount::zero(), evmkit::DEFAULT_BUDGET),
    };
    v.messages += 1;
    v.codes.push(inv.code.value());
    if c.kind == Kind::Init && world.last_steps.get() >= 2 {
        v.nontrivial = true;
    }
    if let Err(e) = total(&inv, "deployment") {
        v.violation = Some(e);
        return v;
    }
    let Some(d) = d else {
        // a rejected deployment is a defined end (EIP-3541 0xEF prefix, reverting or failing
        // init code); for generated run-time code it must be the EIP-3541 case
        if c.kind == Kind::Runtime && c.code.first() != Some(&0xEF) {
            v.violation = Some(format!("deployment of run-time code failed: {}", inv.tree()));
        }
        world.reset();
        return v;
    };
    let mut acct = Account::default();
    let code_for_ref: Option<Vec<u8>> = match c.kind {
        Kind::Runtime => Some(c.code.clone()),
        Kind::Init => None,
    };
    let lim = Limits::default();
    let n = c.calls.len();
    for (i, HexBytes(cd)) in c.calls.iter().enumerate() {
        let inv = world.invoke(&d, cd);
        v.messages += 1;
        v.codes.push(inv.code.value());
        if world.last_steps.get() >= 2 {
            v.nontrivial = true;
        }
        if let Err(e) = total(&inv, &format!("call {i}")) {
            v.violation = Some(e);
            return v;
        }
        let got = classify(&inv);
        if i + 1 == n
            && let Some(why) = &c.must_fail
            && !matches!(got, Outcome::Failure(f) if f != Fail::StepBudget)
        {
            v.violation = Some(format!("call {i}: expected a failure ({why}) but the actor ended with {}", got.brief()));
            return v;
        }
        if c.match_ref
            && let Some(code) = &code_for_ref
        {
            match refevm::execute(code, cd, &mut acct, lim).verdict {
                Verdict::Defined(want) => {
                    if want != got {
                        v.violation = Some(format!("call {i}: actor {} != reference {}", got.brief(), want.brief()));
                        return v;
                    }
                }
                Verdict::Undefined(_) => {
                    v.note = Some("reference undefined".into());
                    break;
                }
            }
        }
    }
    world.reset();
    v
}

// ------------------------------------------------------------------------------ generators

pub trait Gen: Sync {
    fn name(&self) -> String;
    fn len(&self) -> usize;
    fn get(&self, i: usize) -> Case;
    /// Work-distribution granularity (cases handed to a worker at a time).
    fn chunk(&self) -> usize {
        if self.len() > 1_000_000 { 4096 } else { 64 }
    }
    fn describe(&self) -> Value;
}

fn cd36() -> Vec<u8> {
    (1u8..=36).collect()
}

/// (a) every byte string with length in `min..=max`.
pub struct Strings {
    kind: Kind,
    min: usize,
    max: usize,
}

impl Gen for Strings {
    fn name(&self) -> String {
        format!("c18/strings-{}-len{}..{}", if self.kind == Kind::Runtime { "runtime" } else { "init" }, self.min, self.max)
    }
    fn len(&self) -> usize {
        (self.min..=self.max).map(|l| 256usize.pow(l as u32)).sum()
    }
    fn get(&self, mut i: usize) -> Case {
        let mut l = self.min;
        while i >= 256usize.pow(l as u32) {
            i -= 256usize.pow(l as u32);
            l += 1;
        }
        let mut code = vec![0u8; l];
        for b in code.iter_mut().rev() {
            *b = (i & 0xff) as u8;
            i >>= 8;
        }
        Case::Total(Tc {
            group: "strings".into(),
            kind: self.kind.clone(),
            code,
            calls: vec![HexBytes(vec![]), HexBytes(cd36())],
            must_fail: None,
            match_ref: false,
            huge: false,
            desc: String::new(),
        })
    }
    fn describe(&self) -> Value {
        json!({"every byte string of length": [self.min, self.max], "as": format!("{:?}", self.kind), "calldatas": ["", hex::encode(cd36())]})
    }
}

pub const HEIGHTS: [usize; 21] = [0, 1, 2, 3, 4, 5, 6, 7, 8, 9, 10, 11, 12, 13, 14, 15, 16, 17, 1022, 1023, 1024];

/// (b) every opcode at boundary stack heights, three fill values.
pub struct OpcodeHeights;

impl Gen for OpcodeHeights {
    fn name(&self) -> String {
        "c18/opcode-x-stack-height".into()
    }
    fn len(&self) -> usize {
        256 * HEIGHTS.len() * 3
    }
    fn get(&self, i: usize) -> Case {
        let fill = i % 3;
        let h = HEIGHTS[(i / 3) % HEIGHTS.len()];
        let opcode = (i / 3 / HEIGHTS.len()) as u8;
        let mut code = vec![];
        for _ in 0..h {
            match fill {
                0 => code.push(op::PUSH0),
                1 => code.extend_from_slice(&[op::PUSH1, 1]),
                _ => code.extend_from_slice(&[op::PUSH0, op::NOT]),
            }
        }
        code.push(opcode);
        code.extend_from_slice(&[0u8; 33]);
        let must_fail = match refevm::stack_io(opcode) {
            None => Some("undefined opcode".to_string()),
            Some(_) if opcode == op::INVALID => Some("INVALID".to_string()),
            Some((d, _)) if h < d => Some(format!("stack underflow: {h} items, instruction takes {d}")),
            Some((d, a)) if h - d + a > 1024 => Some(format!("stack overflow: {h} items, instruction leaves {}", h - d + a)),
            _ => None,
        };
        Case::Total(Tc {
            group: "opcode-height".into(),
            kind: Kind::Runtime,
            code,
            calls: vec![HexBytes(cd36())],
            must_fail,
            match_ref: false,
            huge: false,
            desc: format!("opcode 0x{opcode:02x} at stack height {h}, fill {}", ["0", "1", "2^256-1"][fill]),
        })
    }
    fn describe(&self) -> Value {
        json!({"opcodes": "0x00..0xff", "heights": HEIGHTS, "fill_values": ["0", "1", "2^256-1"],
               "expected_failures": "undefined opcode / fewer items than the instruction takes / more than 1024 items after it (arity table written from the Yellow Paper and EIPs, refevm::stack_io)"})
    }
}

/// (c) PUSHn with fewer than n immediate bytes at the end of the code.
pub struct TruncatedPush {
    cases: Vec<Case>,
}

impl TruncatedPush {
    pub fn new() -> Self {
        let mut cases = vec![];
        for kind in [Kind::Runtime, Kind::Init] {
            for prefix in [&[][..], &[op::JUMPDEST][..], &[op::PUSH1, 0x5b, op::POP][..]] {
                for n in 1..=32u8 {
                    for k in 0..n {
                        for fillb in [0x5bu8, 0xff] {
                            let mut code = prefix.to_vec();
                            code.push(0x5f + n);
                            code.extend(std::iter::repeat_n(fillb, k as usize));
                            cases.push(Case::Total(Tc {
                                group: "truncated-push".into(),
                                kind: kind.clone(),
                                code,
                                calls: vec![HexBytes(vec![]), HexBytes(cd36())],
                                must_fail: None,
                                match_ref: true,
                                huge: false,
                                desc: format!("PUSH{n} with {k} immediate bytes"),
                            }));
                        }
                    }
                }
            }
        }
        TruncatedPush { cases }
    }
}

impl Gen for TruncatedPush {
    fn name(&self) -> String {
        "c18/truncated-push".into()
    }
    fn len(&self) -> usize {
        self.cases.len()
    }
    fn get(&self, i: usize) -> Case {
        self.cases[i].clone()
    }
    fn describe(&self) -> Value {
        json!({"push_widths": "1..32", "available_immediate_bytes": "0..n-1", "prefixes": 3, "fill_bytes": ["5b", "ff"], "as": ["Runtime", "Init"],
               "oracle": "totality + outcome equal to refevm (code is implicitly followed by zeros, execution stops)"})
    }
}

/// (d) jumps to every offset of codes whose push data contains 0x5b.
pub struct JumpTargets {
    cases: Vec<Case>,
    templates: usize,
}

fn arm(a: &mut Asm, id: u8) {
    // a genuine JUMPDEST followed by code that identifies it
    a.op(op::JUMPDEST).push_exact(&[id]).push(0).op(op::MSTORE).push(32).push(0).op(op::RETURN);
}

impl JumpTargets {
    pub fn new() -> Self {
        let mut templates: Vec<Vec<u8>> = vec![];
        {
            let mut a = Asm::new();
            a.push_exact(&[0x5b]).op(op::POP);
            arm(&mut a, 1);
            a.push_exact(&[0x5b, 0x5b]).op(op::POP);
            arm(&mut a, 2);
            a.push_exact(&[0x5b; 32]).op(op::POP);
            arm(&mut a, 3);
            templates.push(a.finish());
        }
        {
            // push data that looks like PUSH opcodes: 60 60 5b -> the 5b IS an instruction;
            // 61 60 5b -> it is data; 7f followed by 31 bytes then 5b as the last data byte
            let mut a = Asm::new();
            a.raw(&[0x60, 0x60]);
            arm(&mut a, 4);
            a.raw(&[0x61, 0x60, 0x5b]).op(op::POP);
            arm(&mut a, 5);
            let mut imm = [0x60u8; 32];
            imm[31] = 0x5b;
            a.push_exact(&imm).op(op::POP);
            a.op(op::JUMPDEST).op(op::JUMPDEST);
            arm(&mut a, 6);
            templates.push(a.finish());
        }
        {
            // a truncated PUSH32 at the very end whose data are JUMPDEST bytes
            let mut a = Asm::new();
            arm(&mut a, 7);
            a.raw(&[0x7f, 0x5b, 0x5b, 0x5b, 0x5b]);
            templates.push(a.finish());
        }
        {
            // PUSH0 has no immediate: the byte after it is an instruction
            let mut a = Asm::new();
            a.op(op::PUSH0).op(op::POP).op(op::PUSH0);
            arm(&mut a, 8);
            a.raw(&[0x7e]).raw(&[0x5b; 31]);
            arm(&mut a, 9);
            templates.push(a.finish());
        }
        let mut cases = vec![];
        let highs: Vec<(&str, Word)> = vec![
            ("", w(0)),
            ("+2^32", two_pow(32)),
            ("+2^64", two_pow(64)),
            ("+2^255", two_pow(255)),
        ];
        for (ti, t) in templates.iter().enumerate() {
            for conditional in [false, true] {
                // prefix: [PUSH1 1] PUSH32 <dest> JUMP|JUMPI  -> 34 or 36 bytes
                let plen = if conditional { 36 } else { 34 };
                for o in 0..=(plen + t.len() + 1) {
                    for (hn, hv) in &highs {
                        let dest = w(o as u64) + hv;
                        let mut code = vec![];
                        if conditional {
                            code.extend_from_slice(&[op::PUSH1, 1]);
                        }
                        code.push(op::PUSH32);
                        code.extend_from_slice(&refevm::word_to_be(&dest));
                        code.push(if conditional { op::JUMPI } else { op::JUMP });
                        assert_eq!(code.len(), plen);
                        code.extend_from_slice(t);
                        let valid = refevm::jumpdests(&code);
                        let lands_ok = hv.is_zero() && o < code.len() && valid[o];
                        cases.push(Case::Total(Tc {
                            group: "jump-targets".into(),
                            kind: Kind::Runtime,
                            code,
                            calls: vec![HexBytes(vec![])],
                            must_fail: if lands_ok { None } else { Some("jump destination is not a JUMPDEST instruction outside push data".into()) },
                            match_ref: true,
                            huge: false,
                            desc: format!("template {ti} {} to offset {o}{hn}", if conditional { "JUMPI" } else { "JUMP" }),
                        }));
                    }
                }
            }
        }
        JumpTargets { cases, templates: templates.len() }
    }
}

impl Gen for JumpTargets {
    fn name(&self) -> String {
        "c18/jump-targets".into()
    }
    fn len(&self) -> usize {
        self.cases.len()
    }
    fn get(&self, i: usize) -> Case {
        self.cases[i].clone()
    }
    fn describe(&self) -> Value {
        json!({"templates": self.templates, "destinations": "every offset 0..=len+1 of the whole program, each also with 2^32, 2^64, 2^255 added", "via": ["JUMP", "JUMPI"],
               "oracle": "totality + must fail unless refevm's jump-destination analysis accepts the offset + outcome equal to refevm"})
    }
}

/// (e) memory instructions with operands at the 32-bit boundary.
pub struct MemoryEdges {
    cases: Vec<Case>,
    /// cases that would allocate ~4 GiB of EVM memory and are not run (see `HugeMemory`)
    huge_skipped: usize,
}

/// The few ~4 GiB cases that are run (thorough tier only, concurrently with everything else):
/// with the framework's debug-assertion profile one such allocation costs minutes of CPU.
pub struct HugeMemory {
    cases: Vec<Case>,
}

pub fn memory_edge_values() -> Vec<Word> {
    vec![w(0), w(1), two_pow(32) - w(33), two_pow(32) - w(32), two_pow(32) - w(1), two_pow(32), two_pow(64), max_word()]
}

impl MemoryEdges {
    pub fn new() -> (MemoryEdges, HugeMemory) {
        let thorough = true;
        let vals = memory_edge_values();
        let mut cases = vec![];
        let huge_cases = std::cell::Cell::new(0usize);
        let tail = |a: &mut Asm| {
            a.op(op::MSIZE).push(0).op(op::MSTORE).push(32).push(0).op(op::RETURN);
        };
        // regions: list of (offset, size) touched; returns (must_fail, huge)
        let judge = |regions: &[(Word, Word)]| -> (Option<String>, bool) {
            let mut huge = false;
            let mut fail = None;
            for (o, s) in regions {
                if s.is_zero() {
                    continue;
                }
                let end = o + s;
                if end > two_pow(32) {
                    fail = Some(format!("memory range [{o:x}, +{s:x}) ends beyond 2^32"));
                } else if end > two_pow(28) {
                    huge = true;
                }
            }
            // (an accepted range may be grown before another range of the same instruction is
            // rejected, so `huge` does not depend on `fail`)
            (fail, huge)
        };
        let add = |name: &str, code: Vec<u8>, regions: Vec<(Word, Word)>, match_ref: bool, heavy: bool, cases: &mut Vec<Case>| {
            let (must_fail, huge) = judge(&regions);
            // cases that both allocate ~4 GiB and then hash / copy / serialise it are kept for
            // the thorough tier
            if huge && heavy && !thorough {
                return;
            }
            if huge {
                huge_cases.set(huge_cases.get() + 1);
            }
            cases.push(Case::Total(Tc {
                group: "memory-edges".into(),
                kind: Kind::Runtime,
                code,
                calls: vec![HexBytes(cd36())],
                must_fail,
                match_ref,
                huge,
                desc: format!("{name} regions {:?}", regions.iter().map(|(o, s)| format!("[0x{o:x},+0x{s:x})")).collect::<Vec<_>>()),
            }));
        };
        for o in &vals {
            let mut a = Asm::new();
            a.push_word(o).op(op::MLOAD).op(op::POP);
            tail(&mut a);
            add("MLOAD", a.finish(), vec![(o.clone(), w(32))], true, false, &mut cases);
            let mut a = Asm::new();
            a.push(0xab).push_word(o).op(op::MSTORE);
            tail(&mut a);
            add("MSTORE", a.finish(), vec![(o.clone(), w(32))], true, false, &mut cases);
            let mut a = Asm::new();
            a.push(0xab).push_word(o).op(op::MSTORE8);
            tail(&mut a);
            add("MSTORE8", a.finish(), vec![(o.clone(), w(1))], true, false, &mut cases);
        }
        for o in &vals {
            for s in &vals {
                let two: [(&str, u8, bool, bool); 5] = [
                    ("KECCAK256", op::KECCAK256, true, true),
                    ("RETURN", op::RETURN, true, true),
                    ("REVERT", op::REVERT, true, true),
                    ("LOG0", op::LOG0, false, true),
                    ("CREATE", op::CREATE, false, true),
                ];
                for (name, opc, in_ref, heavy) in two {
                    let mut a = Asm::new();
                    a.push_word(s).push_word(o);
                    if opc == op::CREATE {
                        a.push(0);
                    }
                    a.op(opc);
                    if opc == op::KECCAK256 || opc == op::CREATE {
                        a.op(op::POP);
                    }
                    tail(&mut a);
                    add(name, a.finish(), vec![(o.clone(), s.clone())], in_ref, heavy, &mut cases);
                }
                // copies into memory: (dest = o, src = 0 and src = 2^256-1, size = s)
                for (name, opc) in [("CALLDATACOPY", op::CALLDATACOPY), ("CODECOPY", op::CODECOPY)] {
                    for src in [w(0), max_word()] {
                        let mut a = Asm::new();
                        a.push_word(s).push_word(&src).push_word(o).op(opc);
                        tail(&mut a);
                        add(name, a.finish(), vec![(o.clone(), s.clone())], true, false, &mut cases);
                    }
                }
                {
                    // RETURNDATACOPY with an empty buffer: any size > 0 is out of bounds
                    let mut a = Asm::new();
                    a.push_word(s).push(0).push_word(o).op(op::RETURNDATACOPY);
                    tail(&mut a);
                    let (code, regions) = (a.finish(), vec![(o.clone(), s.clone())]);
                    let (mf, huge) = judge(&regions);
                    if !(huge && !thorough) {
                        if huge {
                            huge_cases.set(huge_cases.get() + 1);
                        }
                        cases.push(Case::Total(Tc {
                            group: "memory-edges".into(),
                            kind: Kind::Runtime,
                            code,
                            calls: vec![HexBytes(cd36())],
                            must_fail: if !s.is_zero() { Some(mf.unwrap_or_else(|| "RETURNDATACOPY beyond the (empty) return-data buffer".into())) } else { None },
                            match_ref: true,
                            huge,
                            desc: format!("RETURNDATACOPY dest 0x{o:x} size 0x{s:x}"),
                        }));
                    }
                }
                {
                    // EXTCODECOPY(self, dest, src, size)
                    let mut a = Asm::new();
                    a.push_word(s).push(0).push_word(o).op(op::ADDRESS).op(op::EXTCODECOPY);
                    tail(&mut a);
                    add("EXTCODECOPY", a.finish(), vec![(o.clone(), s.clone())], false, false, &mut cases);
                }
                {
                    // CALL to a non-existent address with (in_off, in_size) = (o, s), then with the output region
                    for output in [false, true] {
                        let mut a = Asm::new();
                        if output {
                            a.push_word(s).push_word(o).push(0).push(0);
                        } else {
                            a.push(0).push(0).push_word(s).push_word(o);
                        }
                        a.push(0).push(0xdead_beef).op(op::GAS).op(op::CALL).op(op::POP);
                        tail(&mut a);
                        // an output region is only touched when there is return data to copy:
                        // the property promises nothing there, so only input regions are judged
                        let regions = if output { vec![] } else { vec![(o.clone(), s.clone())] };
                        let heavy = true;
                        let (_, huge_in) = judge(&[(o.clone(), s.clone())]);
                        if output && huge_in && !thorough {
                            continue;
                        }
                        let before = cases.len();
                        add(if output { "CALL(output region)" } else { "CALL(input region)" }, a.finish(), regions, false, heavy, &mut cases);
                        if output
                            && huge_in
                            && cases.len() > before
                            && let Some(Case::Total(tc)) = cases.last_mut()
                        {
                            tc.huge = true;
                        }
                    }
                }
            }
        }
        // MCOPY(dst, src, len) over the full cube
        for d in &vals {
            for s in &vals {
                for n in &vals {
                    let mut a = Asm::new();
                    a.push_word(n).push_word(s).push_word(d).op(op::MCOPY);
                    tail(&mut a);
                    add("MCOPY", a.finish(), vec![(s.clone(), n.clone()), (d.clone(), n.clone())], true, true, &mut cases);
                }
            }
        }
        let _ = huge_cases.get();
        let is_huge = |c: &Case| matches!(c, Case::Total(tc) if tc.huge);
        let huge_all: Vec<Case> = cases.iter().filter(|c| is_huge(c)).cloned().collect();
        let normal: Vec<Case> = cases.into_iter().filter(|c| !is_huge(c)).collect();
        let m32 = two_pow(32);
        let wanted = [
            format!("MLOAD regions [\"[0x{:x},+0x20)\"]", &m32 - w(33)),
            format!("MSTORE8 regions [\"[0x{:x},+0x1)\"]", &m32 - w(32)),
            format!("CODECOPY regions [\"[0x0,+0x{:x})\"]", &m32 - w(1)),
        ];
        let mut chosen = vec![];
        for wd in &wanted {
            let c = huge_all.iter().find(|c| matches!(c, Case::Total(tc) if &tc.desc == wd)).unwrap_or_else(|| panic!("huge case {wd} not generated"));
            chosen.push(c.clone());
        }
        (MemoryEdges { cases: normal, huge_skipped: huge_all.len() - chosen.len() }, HugeMemory { cases: chosen })
    }
}

impl Gen for MemoryEdges {
    fn name(&self) -> String {
        "c18/memory-edges".into()
    }
    fn len(&self) -> usize {
        self.cases.len()
    }
    fn get(&self, i: usize) -> Case {
        self.cases[i].clone()
    }
    fn describe(&self) -> Value {
        json!({"operand_values": memory_edge_values().iter().map(|x| format!("0x{x:x}")).collect::<Vec<_>>(),
               "instructions": ["MLOAD", "MSTORE", "MSTORE8", "KECCAK256", "RETURN", "REVERT", "LOG0", "CREATE", "CALLDATACOPY", "CODECOPY", "RETURNDATACOPY", "EXTCODECOPY", "CALL in/out", "MCOPY"],
               "cases_not_run_because_they_allocate_about_4GiB": self.huge_skipped,
               "oracle": "totality; a non-empty range ending beyond 2^32 must fail; ranges ending at or below 2^32 - 1 are not judged beyond totality (and agreement with refevm below 4 MiB)"})
    }
}

impl Gen for HugeMemory {
    fn name(&self) -> String {
        "c18/memory-edges-4GiB".into()
    }
    fn len(&self) -> usize {
        self.cases.len()
    }
    fn get(&self, i: usize) -> Case {
        self.cases[i].clone()
    }
    fn chunk(&self) -> usize {
        1
    }
    fn describe(&self) -> Value {
        json!({"cases": self.cases.iter().map(|c| match c { Case::Total(tc) => tc.desc.clone(), _ => String::new() }).collect::<Vec<_>>(),
               "note": "largest accepted ranges (end = 2^32 - 1 resp. 2^32 - 31): memory really grows to 4 GiB; oracle: totality"})
    }
}

// ------------------------------------------------------------------------------ read-only scripts

#[derive(Clone, Copy, Debug, Serialize, Deserialize, PartialEq, Eq)]
pub enum RoOp {
    Sstore,
    SstoreReadBack,
    Tstore,
    TstoreReadBack,
    Log(u8),
    CallValue,
    Create,
    Create2,
    SelfDestruct,
}

#[derive(Clone, Copy, Debug, Serialize, Deserialize, PartialEq, Eq)]
pub enum Hop {
    Call,
    Delegate,
}

#[derive(Clone, Debug, Serialize, Deserialize)]
pub struct Script {
    pub op: RoOp,
    /// Frames between the STATICCALL and the frame executing `op` (depth = hops.len() + 1).
    pub hops: Vec<Hop>,
    /// An additional ordinary CALL frame above the contract that issues the STATICCALL.
    pub outer_call: bool,
    /// Control experiment: CALL instead of STATICCALL (the effect must then be visible).
    pub control: bool,
}

const MARK: u8 = 0xA0;
const WRITTEN: u8 = 0x77;

fn target_code(o: RoOp, beneficiary: &[u8; 20]) -> Vec<u8> {
    let mut a = Asm::new();
    let report_top_or_mark = |a: &mut Asm| {
        // word on the stack -> OR with MARK -> return it
        a.push(MARK as u64).op(op::OR).push(0).op(op::MSTORE).push(32).push(0).op(op::RETURN);
    };
    match o {
        RoOp::Sstore | RoOp::Tstore => {
            a.push(WRITTEN as u64).push(5).op(if o == RoOp::Sstore { op::SSTORE } else { op::TSTORE });
            a.push(1);
            report_top_or_mark(&mut a);
        }
        RoOp::SstoreReadBack | RoOp::TstoreReadBack => {
            let (st, ld) = if o == RoOp::SstoreReadBack { (op::SSTORE, op::SLOAD) } else { (op::TSTORE, op::TLOAD) };
            a.push(WRITTEN as u64).push(5).op(st).push(5).op(ld);
            a.push(0).op(op::MSTORE).push(32).push(0).op(op::REVERT);
        }
        RoOp::Log(n) => {
            a.push(0xfeed).push(0).op(op::MSTORE);
            for t in 0..n {
                a.push(0x100 + t as u64);
            }
            a.push(4).push(28).op(0xa0 + n);
            a.push(1);
            report_top_or_mark(&mut a);
        }
        RoOp::CallValue => {
            a.push(0).push(0).push(0).push(0).push(1).push_exact(beneficiary).op(op::GAS).op(op::CALL);
            report_top_or_mark(&mut a);
        }
        RoOp::Create => {
            a.push(0).push(0).push(0).op(op::CREATE).op(op::ISZERO).op(op::ISZERO);
            report_top_or_mark(&mut a);
        }
        RoOp::Create2 => {
            a.push(0x5a17).push(0).push(0).push(0).op(op::CREATE2).op(op::ISZERO).op(op::ISZERO);
            report_top_or_mark(&mut a);
        }
        RoOp::SelfDestruct => {
            a.push_exact(beneficiary).op(op::SELFDESTRUCT);
        }
    }
    a.finish()
}

/// A frame that calls `next` with `kind` and returns `flag ‖ return data of the callee`.
fn forwarder(kind: u8, next: &[u8; 20]) -> Vec<u8> {
    let mut a = Asm::new();
    a.push(0).push(0).push(0).push(0);
    if kind == op::CALL {
        a.push(0);
    }
    a.push_exact(next).op(op::GAS).op(kind);
    a.push(0).op(op::MSTORE);
    a.op(op::RETURNDATASIZE).push(0).push(32).op(op::RETURNDATACOPY);
    a.op(op::RETURNDATASIZE).push(32).op(op::ADD).push(0).op(op::RETURN);
    a.finish()
}

fn world_fingerprint(world: &World) -> BTreeMap<u64, (String, String, String, u64)> {
    world
        .vm
        .actor_states()
        .into_iter()
        .map(|(id, a)| {
            let seq = if id == world.user { 0 } else { a.sequence };
            (id, (a.code.to_string(), a.state.to_string(), a.balance.atto().to_string(), seq))
        })
        .collect()
}

pub fn run_script(world: &World, s: &Script) -> Verdicts {
    let mut v = Verdicts::default();
    world.reset();
    let fund = TokenAmount::from_atto(1000);
    let mut beneficiary = [0u8; 20];
    beneficiary[0] = 0xff;
    beneficiary[12..].copy_from_slice(&world.user.to_be_bytes());
    let deploy = |code: &[u8], what: &str| -> Result<Deployed, String> {
        let (d, inv) = world.deploy_funded(code, &fund);
        d.ok_or_else(|| format!("SETUP-FAILED deploying {what}: {}", inv.tree()))
    };
    let chain = (|| -> Result<(Deployed, usize), String> {
        let mut cur = deploy(&target_code(s.op, &beneficiary), "target")?;
        let mut forwarders = 0;
        for h in s.hops.iter().rev() {
            let k = if *h == Hop::Call { op::CALL } else { op::DELEGATECALL };
            cur = deploy(&forwarder(k, &cur.eth), "intermediate frame")?;
            forwarders += 1;
        }
        cur = deploy(&forwarder(if s.control { op::CALL } else { op::STATICCALL }, &cur.eth), "static caller")?;
        forwarders += 1;
        if s.outer_call {
            cur = deploy(&forwarder(op::CALL, &cur.eth), "outer frame")?;
            forwarders += 1;
        }
        Ok((cur, forwarders))
    })();
    let (top, forwarders) = match chain {
        Ok(x) => x,
        Err(e) => {
            v.violation = Some(e);
            return v;
        }
    };
    let before = world_fingerprint(world);
    let inv = world.invoke(&top, &[]);
    v.messages = 1;
    v.codes.push(inv.code.value());
    v.nontrivial = world.last_steps.get() >= 2;
    if let Err(e) = total(&inv, "script") {
        v.violation = Some(e);
        return v;
    }
    let after = world_fingerprint(world);
    let events = inv.effective_events().len();
    let out = classify(&inv);
    let Outcome::Return(data) = &out else {
        v.violation = Some(format!("the top-level frame of the script did not return: {}\n{}", out.brief(), inv.tree()));
        return v;
    };
    if data.len() < 32 * forwarders {
        v.violation = Some(format!("script returned {} bytes, expected at least {}", data.len(), 32 * forwarders));
        return v;
    }
    let flags: Vec<bool> = (0..forwarders).map(|i| data[32 * i..32 * i + 32].iter().any(|b| *b != 0)).collect();
    let tdata = &data[32 * forwarders..];
    let target_flag = *flags.last().unwrap();
    let tword = if tdata.len() >= 32 { Some(tdata[31]) } else { None };
    let changed: Vec<u64> = {
        let mut ids: Vec<u64> = before.keys().chain(after.keys()).cloned().collect();
        ids.sort();
        ids.dedup();
        ids.into_iter().filter(|id| before.get(id) != after.get(id)).collect()
    };
    let static_seen = inv.flat().iter().any(|i| i.read_only);
    if s.control {
        // the same tree without STATICCALL must show the effect, otherwise the script is vacuous
        let effect = !changed.is_empty() || events > 0;
        if !effect || !target_flag {
            v.violation = Some(format!(
                "MACHINERY: control run of {:?} shows no effect (changed actors {:?}, events {events}, target flag {target_flag}): {}",
                s, changed, inv.tree()
            ));
        }
        return v;
    }
    if !static_seen {
        v.violation = Some(format!("MACHINERY: no read-only invocation in the trace of {:?}", s));
        return v;
    }
    if !changed.is_empty() {
        v.violation = Some(format!("state changed beneath a STATICCALL: actors {:?} differ after the message ({:?})\n{}", changed, s, inv.tree()));
        return v;
    }
    if events > 0 {
        v.violation = Some(format!("{events} event(s) took effect beneath a STATICCALL ({:?})\n{}", s, inv.tree()));
        return v;
    }
    // the frame that attempted the change must be observed as failed by its caller
    let observed_failure = match s.op {
        RoOp::SstoreReadBack | RoOp::TstoreReadBack => {
            // the frame reverts by construction; what matters is that the write was not readable
            if tword == Some(WRITTEN) {
                v.violation = Some(format!("a write made in a static context was read back inside the frame ({:?})\n{}", s, inv.tree()));
                return v;
            }
            !target_flag
        }
        RoOp::CallValue | RoOp::Create | RoOp::Create2 => !target_flag || tword == Some(MARK),
        _ => !target_flag,
    };
    if !observed_failure {
        v.violation = Some(format!(
            "the frame executing {:?} beneath a STATICCALL was not observed as failed (flags {:?}, data {})\n{}",
            s.op,
            flags,
            hex::encode(tdata),
            inv.tree()
        ));
    }
    world.reset();
    v
}

pub struct ReadOnlyScripts {
    scripts: Vec<Script>,
    max_depth: usize,
}

impl ReadOnlyScripts {
    pub fn new(max_depth: usize) -> Self {
        let mut ops = vec![RoOp::Sstore, RoOp::SstoreReadBack, RoOp::Tstore, RoOp::TstoreReadBack];
        for n in 0..=4 {
            ops.push(RoOp::Log(n));
        }
        ops.extend([RoOp::CallValue, RoOp::Create, RoOp::Create2, RoOp::SelfDestruct]);
        let mut shapes: Vec<Vec<Hop>> = vec![vec![]];
        let mut last: Vec<Vec<Hop>> = vec![vec![]];
        for _ in 1..max_depth {
            let mut next = vec![];
            for s in &last {
                for h in [Hop::Call, Hop::Delegate] {
                    let mut t = s.clone();
                    t.push(h);
                    next.push(t);
                }
            }
            shapes.extend(next.iter().cloned());
            last = next;
        }
        let mut scripts = vec![];
        for control in [true, false] {
            for o in &ops {
                for hops in &shapes {
                    for outer_call in [false, true] {
                        if control && matches!(o, RoOp::SstoreReadBack | RoOp::TstoreReadBack) {
                            continue; // these frames revert by construction: no effect to show
                        }
                        scripts.push(Script { op: *o, hops: hops.clone(), outer_call, control });
                    }
                }
            }
        }
        ReadOnlyScripts { scripts, max_depth }
    }
}

impl Gen for ReadOnlyScripts {
    fn name(&self) -> String {
        "c18/read-only-scripts".into()
    }
    fn len(&self) -> usize {
        self.scripts.len()
    }
    fn get(&self, i: usize) -> Case {
        Case::ReadOnly(self.scripts[i].clone())
    }
    fn describe(&self) -> Value {
        json!({"operations": ["SSTORE", "SSTORE+SLOAD read-back", "TSTORE", "TSTORE+TLOAD read-back", "LOG0..LOG4", "CALL with value 1", "CREATE", "CREATE2", "SELFDESTRUCT"],
               "depth_beneath_staticcall": format!("1..{}", self.max_depth), "frames_in_between": ["CALL", "DELEGATECALL"], "outer_call_frame": [false, true],
               "control_runs": "every script is also run with CALL in place of STATICCALL and must then show the effect (non-vacuity; a failure there is a machinery error)",
               "oracle": "actor table (code, state CID, balance, nonce) identical before/after, no effective event, the attempting frame observed as failed"})
    }
}

// ------------------------------------------------------------------------------ engine

#[derive(Default)]
pub struct Stats {
    pub name: String,
    pub cases: u64,
    pub messages: u64,
    pub must_fail_checked: u64,
    pub ref_compared: u64,
    pub codes: BTreeMap<u32, u64>,
    pub nontrivial_keys: Vec<[u8; 16]>,
    pub violations: Vec<(usize, Case, String)>,
    pub samples: Vec<Value>,
    pub capped: bool,
    pub wall_s: f64,
    pub describe: Value,
}

pub fn run_case(world: &World, c: &Case) -> Verdicts {
    match c {
        Case::Total(tc) => run_total(world, tc),
        Case::ReadOnly(s) => run_script(world, s),
    }
}

fn case_key(c: &Case) -> [u8; 16] {
    match c {
        Case::Total(tc) => mcx::hash_key(&[&[tc.kind.clone() as u8], &tc.code]),
        Case::ReadOnly(s) => mcx::hash_key(&[b"ro", serde_json::to_string(s).unwrap().as_bytes()]),
    }
}

pub fn run_gen(g: &dyn Gen, threads: usize, deadline: Option<Instant>) -> Stats {
    let t0 = Instant::now();
    let n = g.len();
    let next = AtomicUsize::new(0);
    let stop = AtomicBool::new(false);
    // first index that need not be run any more: end of the first chunk containing a violation
    let limit = AtomicUsize::new(n);
    let chunk = g.chunk();
    let sample_at: Vec<usize> = (0..4).map(|k| n.saturating_sub(1) * (k + 1) / 4).collect();
    let parts = evmkit::parallel(threads, |_, world| {
        let mut st = Stats::default();
        loop {
            if stop.load(Ordering::Relaxed) {
                break;
            }
            if let Some(d) = deadline
                && Instant::now() > d
            {
                stop.store(true, Ordering::Relaxed);
                break;
            }
            let lo = next.fetch_add(chunk, Ordering::Relaxed);
            if lo >= n.min(limit.load(Ordering::Relaxed)) {
                break;
            }
            for i in lo..(lo + chunk).min(n) {
                if i >= limit.load(Ordering::Relaxed) {
                    break;
                }
                let c = g.get(i);
                let r = run_case(world, &c);
                st.cases += 1;
                st.messages += r.messages;
                for code in &r.codes {
                    *st.codes.entry(*code).or_default() += 1;
                }
                if let Case::Total(tc) = &c {
                    if tc.must_fail.is_some() {
                        st.must_fail_checked += 1;
                    }
                    if tc.match_ref && r.note.is_none() {
                        st.ref_compared += 1;
                    }
                }
                if let Some(mut v) = r.violation {
                    // replay before reporting (the ~4 GiB cases are too expensive to repeat)
                    let is_huge = matches!(&c, Case::Total(tc) if tc.huge);
                    if !is_huge && !v.starts_with("MACHINERY") && !v.starts_with("SETUP-FAILED") && run_case(world, &c).violation.is_none() {
                        v = format!("MACHINERY: not reproducible on immediate re-execution: {v}");
                    }
                    limit.fetch_min((lo + chunk).min(n), Ordering::Relaxed);
                    if st.violations.len() < 5 {
                        st.violations.push((i, c, v));
                    }
                    continue;
                }
                if r.nontrivial {
                    st.nontrivial_keys.push(case_key(&c));
                }
                if sample_at.contains(&i) {
                    st.samples.push(json!({"generator": g.name(), "index": i, "case": serde_json::to_value(&c).unwrap(), "exit_codes": r.codes}));
                }
            }
        }
        st
    });
    let mut out = Stats { name: g.name(), describe: g.describe(), ..Default::default() };
    for p in parts {
        out.cases += p.cases;
        out.messages += p.messages;
        out.must_fail_checked += p.must_fail_checked;
        out.ref_compared += p.ref_compared;
        for (k, v) in p.codes {
            *out.codes.entry(k).or_default() += v;
        }
        out.nontrivial_keys.extend(p.nontrivial_keys);
        out.violations.extend(p.violations);
        out.samples.extend(p.samples);
    }
    // deterministic report: everything below the final limit was run completely
    let final_limit = limit.load(Ordering::Relaxed);
    out.violations.retain(|v| v.0 < final_limit);
    out.violations.sort_by_key(|v| v.0);
    out.violations.truncate(3);
    out.samples.sort_by_key(|s| s["index"].as_u64());
    out.capped = stop.load(Ordering::Relaxed) || (out.cases as usize) < n;
    out.wall_s = t0.elapsed().as_secs_f64();
    out
}

pub fn run(tier: &str) -> ! {
    let thorough = tier == "thorough";
    let t0 = Instant::now();
    if let Err(e) = evmkit::self_test() {
        eprintln!("C18: machinery self-test failed: {e}");
        std::process::exit(2);
    }
    let threads = evmkit::threads();
    let cap_s: f64 = if thorough { 1300.0 } else { 26.0 };
    let deadline = Some(t0 + std::time::Duration::from_secs_f64(cap_s));
    let mut run = mcx::evidence::Run::new("C18", tier, "exploration");
    run.assumptions = vec![
        "mcvm mirrors the FVM message semantics (value transfer, rollback, read-only propagation, panic -> USR_ASSERTION_FAILED)".into(),
        "hook H1 bounds every message to 200000 interpreter steps and every EVM memory to 64 MiB (except the three explicit 4 GiB cases of the thorough tier); its exit code is the 'out of gas' outcome of this bench".into(),
        "crash-like exit codes: USR_ASSERTION_FAILED, SYS_ASSERTION_FAILED (except mcvm's record of a failed send syscall), USR_ILLEGAL_STATE, USR_SERIALIZATION, SYS_MISSING_RETURN, SYS_ILLEGAL_INSTRUCTION, SYS_ILLEGAL_EXIT_CODE; every other code is a defined end".into(),
        "native 64-bit build: 32-bit-only arithmetic of the Wasm target (usize = u32) is not exercised".into(),
    ];
    let g_ro = ReadOnlyScripts::new(if thorough { 4 } else { 3 });
    let g_heights = OpcodeHeights;
    let g_trunc = TruncatedPush::new();
    let g_jumps = JumpTargets::new();
    let (g_mem, g_huge) = MemoryEdges::new();
    let g_init = Strings { kind: Kind::Init, min: 0, max: 2 };
    let g_rt = Strings { kind: Kind::Runtime, min: 0, max: 2 };
    let g_rt3 = Strings { kind: Kind::Runtime, min: 3, max: 3 };
    let mut gens: Vec<&dyn Gen> = vec![&g_ro, &g_trunc, &g_jumps, &g_heights, &g_mem, &g_init, &g_rt];
    if thorough {
        gens.push(&g_rt3);
    }
    let mut parts = vec![];
    let mut messages = 0u64;
    let mut keys: Vec<[u8; 16]> = vec![];
    let mut samples = vec![];
    let mut codes: BTreeMap<u32, u64> = BTreeMap::new();
    let mut complete = true;
    let mut all_stats: Vec<Stats> = vec![];
    std::thread::scope(|sc| {
        // the ~4 GiB cases run beside everything else (thorough tier only)
        let huge = if thorough {
            let g = &g_huge;
            Some(sc.spawn(move || run_gen(g, g.len(), None)))
        } else {
            None
        };
        let main_threads = if thorough { threads.saturating_sub(g_huge.len()).max(1) } else { threads };
        for g in &gens {
            let s = run_gen(*g, main_threads, deadline);
            eprintln!(
                "[C18] {}: cases={} messages={} must-fail={} ref-compared={} violations={} complete={} wall={:.1}s codes={:?}",
                s.name, s.cases, s.messages, s.must_fail_checked, s.ref_compared, s.violations.len(), !s.capped, s.wall_s, s.codes
            );
            all_stats.push(s);
        }
        if let Some(h) = huge {
            let s = h.join().expect("huge-memory worker panicked (machinery error)");
            eprintln!("[C18] {}: cases={} messages={} violations={} wall={:.1}s codes={:?}", s.name, s.cases, s.messages, s.violations.len(), s.wall_s, s.codes);
            all_stats.push(s);
        }
    });
    for mut s in all_stats {
        messages += s.messages;
        for (k, v) in &s.codes {
            *codes.entry(*k).or_default() += v;
        }
        for (_, c, msg) in &s.violations {
            let machinery = msg.starts_with("MACHINERY") || msg.starts_with("SETUP-FAILED");
            if machinery {
                eprintln!("C18: {msg}");
                std::process::exit(2);
            }
            run.extra_violations.push(ViolationReport {
                scenario: s.name.clone(),
                base: "genesis+account".into(),
                path: vec![PathStep { action: serde_json::to_value(c).unwrap(), faults: vec![] }],
                message: msg.clone(),
            });
        }
        let mut ks = std::mem::take(&mut s.nontrivial_keys);
        ks.sort();
        ks.dedup();
        samples.extend(s.samples.iter().take(2).cloned());
        complete &= !s.capped;
        parts.push(json!({
            "generator": s.name, "cases": s.cases, "messages": s.messages, "expected_failures_checked": s.must_fail_checked,
            "outcomes_compared_with_refevm": s.ref_compared, "distinct_nontrivial": ks.len(),
            "exit_codes": s.codes.iter().map(|(k, v)| (k.to_string(), *v)).collect::<BTreeMap<_, _>>(),
            "complete": !s.capped, "wall_s": s.wall_s, "describe": s.describe,
        }));
        keys.extend(ks);
    }
    keys.sort();
    keys.dedup();
    let cx = &mut run.coverage_extra;
    cx.insert("evaluations".into(), json!(messages));
    cx.insert("distinct_nontrivial".into(), json!(keys.len()));
    cx.insert("rule".into(), json!(
        "evaluations = top-level messages (deployments and calls) judged by the totality oracle. Generators enumerate their finite spaces completely (see generators[].describe). \
         A case is non-trivial when hook H1 measured >= 2 interpreter steps in at least one of its messages (i.e. the code got past its first instruction); distinct = distinct (kind, code bytes) or distinct read-only script, de-duplicated across generators."));
    cx.insert("samples".into(), Value::Array(samples));
    cx.insert("generators".into(), Value::Array(parts));
    cx.insert("exit_codes".into(), json!(codes.iter().map(|(k, v)| (k.to_string(), *v)).collect::<BTreeMap<_, _>>()));
    cx.insert("exhaustive".into(), json!(complete && run.extra_violations.is_empty()));
    cx.insert("threads".into(), json!(threads));
    cx.insert("wall_cap_s".into(), json!(cap_s));
    // the verdict line printed by `finish` takes `exhaustive` from the reports
    run.reports.push(mcx::Report { scenario: "c18/enumeration".into(), exhaustive: complete, ..Default::default() });
    run.finish()
}

/// Replay a violation file written by this check; `v` is the parsed replay JSON.
pub fn replay(v: &Value) -> ! {
    let Some(c) = v["path"].get(0).and_then(|s| serde_json::from_value::<Case>(s["action"].clone()).ok()) else {
        eprintln!("C18 replay: malformed replay file");
        std::process::exit(2)
    };
    let store = mcvm::Store::new();
    let world = World::new(&store);
    let r = run_case(&world, &c);
    match r.violation {
        Some(m) if m.starts_with("MACHINERY") || m.starts_with("SETUP-FAILED") => {
            eprintln!("C18 replay: {m}");
            std::process::exit(2)
        }
        Some(m) => {
            println!("REPRODUCED property=C18 {m}");
            std::process::exit(1)
        }
        None => {
            println!("NOT-REPRODUCED: the recorded case passes on this tree");
            std::process::exit(0)
        }
    }
}
