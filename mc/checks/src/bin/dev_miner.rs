use checks::miner::*;
use mcvm::{Store, Vm};
fn main() {
    mcvm::install_panic_hook();
    let big = std::env::var("BIG").is_ok();
    let vm = Vm::genesis(Store::new(), if big { big_policy() } else { small_policy() });
    let c = if big { setup_with(&vm, true, Some(fvm_shared::econ::TokenAmount::from_whole(6))) } else { setup(&vm, true) };
    println!("balance {} circ {}", vm.balance(c.m), vm.circ_supply.borrow());
    let v = view(&vm, c.m).unwrap();
    println!("epoch {} pps {} cur_dl {} dlinfo idx {} open {} close {} locked {} cron_active {}", vm.epoch(), v.st.proving_period_start, v.st.current_deadline, v.dl_info.index, v.dl_info.open, v.dl_info.close, v.st.locked_funds, v.st.deadline_cron_active);
    // choose a mutable deadline: current+2
    let d = (v.dl_info.index + 2) % 4;
    let r = ni_commit(&vm, c.w, c.m, &[1, 2, 3], d, vm.epoch() + 200);
    println!("ni commit ok={} \n{}", r.ok(), if r.ok() { String::new() } else { r.tree() });
    let v = view(&vm, c.m).unwrap();
    println!("locations {:?} claim {:?} ip {} ", v.locations(), v.claim, v.st.initial_pledge);
    let t = std::time::Instant::now();
    for step in 0..60 {
        let v = view(&vm, c.m).unwrap();
        let di = v.dl_info;
        if di.open == vm.epoch() {
            let dl = &v.dls[di.index as usize];
            if !dl.parts.is_empty() {
                let parts: Vec<(u64, Vec<u64>)> = (0..dl.parts.len() as u64).map(|i| (i, vec![])).collect();
                let r = submit_post(&vm, c.w, c.m, di.index, &parts, false);
                println!("  epoch {} post dl {} ok={} {}", vm.epoch(), di.index, r.ok(), if r.ok() { String::new() } else { r.tree() });
            }
        }
        let r = vm.tick();
        if !r.ok() || r.flat().iter().any(|i| !i.ok()) {
            println!("tick at {} failed: {}", vm.epoch() - 1, r.tree());
        }
        let v2 = view(&vm, c.m).unwrap();
        if step % 6 == 5 {
            println!("epoch {} claim {:?} cur_dl {} fee_debt {} locked {} ip {}", vm.epoch(), v2.claim, v2.st.current_deadline, v2.st.fee_debt, v2.st.locked_funds, v2.st.initial_pledge);
        }
    }
    println!("60 epochs with views: {:?}", t.elapsed());
    println!("queue {:?}", chain::power_cron_queue(&vm));
}
use checks::chain;
