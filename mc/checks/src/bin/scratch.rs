use fil_actors_runtime::runtime::Policy;
use mcvm::{Store, Vm};
fn main() {
    let vm = Vm::genesis(Store::new(), Policy::default());
    for _ in 0..5 { vm.tick(); }
    let t = std::time::Instant::now();
    for _ in 0..2880 { vm.tick(); }
    println!("2880 idle ticks: {:?}", t.elapsed());
    let t = std::time::Instant::now();
    vm.set_epoch(vm.epoch() + 518400);
    let r = vm.tick();
    println!("one tick after 518400 gap: {:?} ok={}", t.elapsed(), r.ok());
    let t = std::time::Instant::now();
    vm.set_epoch(vm.epoch() + 2880);
    let r = vm.tick();
    println!("one tick after 2880 gap: {:?} ok={}", t.elapsed(), r.ok());
}
