//! C08 — deal lifecycle: unique publication, one timely activation by the provider.
use crate::market::*;
use crate::util::*;
use mcx::Bounds;

pub fn scenario(tier: &str) -> (Market, Bounds) {
    let th = tier_is_thorough(tier);
    let specs = vec![
        spec(Who::A, Who::M1, 1, 2, 10),
        spec(Who::A, Who::M1, 2, 4, 10),
        PSpec { client_by_key: true, ..spec(Who::A, Who::M1, 1, 2, 10) }, // same proposal, client named by key address
        PSpec { sig: Sig::ByStranger, ..spec(Who::A, Who::M1, 3, 2, 10) },
        PSpec { sig: Sig::Tampered, ..spec(Who::A, Who::M1, 3, 2, 10) },
        spec(Who::B, Who::M2, 4, 2, 10),
        spec(Who::A, Who::M1, 5, 2, 1_000_000_000_000_000), // unaffordable fee
        PSpec { client_by_key: true, ..spec(Who::A, Who::M1, 2, 4, 10) }, // second proposal, client named by key address
    ];
    let mut batches = vec![
        (Who::W1, vec![0]),
        (Who::W1, vec![0, 0]),
        (Who::W1, vec![0, 2]),
        (Who::W1, vec![2]),
        (Who::W1, vec![1]),
        (Who::W1, vec![3]),
        (Who::W1, vec![4, 1]),
        (Who::W1, vec![0, 5]),
        (Who::W1, vec![6, 1]),
        (Who::Z, vec![0]),
        (Who::O2, vec![0]),
        (Who::W1, vec![2, 7]), // two different proposals naming the client by key address (escrow for one)
        (Who::W1, vec![0, 7]),
    ];
    if th {
        batches.push((Who::O1, vec![0, 1]));
        batches.push((Who::W1, vec![1, 0, 1]));
        batches.push((Who::W1, vec![6]));
    }
    let cfg = Cfg {
        name: "lifecycle",
        specs,
        batches,
        bases: vec!["funded", "tight-client"],
        publishes: if th { 3 } else { 2 },
        withdraws: 0,
        adds: 0,
        settles: 2,
        terms: 1,
        acts: if th { 3 } else { 2 },
        withdraw_sels: vec![],
        withdraw_callers: vec![],
        activate_variants: true,
        tick_lookahead: 2,
        boundaries: vec!["start", "cron"],
    };
    let b = if th {
        Bounds { max_depth: 7, wall_cap_s: 1500.0, ..Default::default() }
    } else {
        Bounds { max_depth: 4, wall_cap_s: 40.0, ..Default::default() }
    };
    (Market { cfg }, b)
}

pub fn run(tier: &str) -> ! {
    let (scn, b) = scenario(tier);
    let mut run = mcx::evidence::Run::new("C08", tier, "model_checking");
    run.assumptions = vec![
        "mcvm mirrors the FVM message semantics; signatures are faked but bound to the signer (blake2b(signer key || message))".into(),
        "activation calls are impersonated from real miner actors' addresses (the market's contract is with miner-typed callers)".into(),
        "whether an activated deal's proposal still blocks an identical re-publication is not fixed by the property: the implementation's answer is adopted there".into(),
    ];
    run.add(mcx::explore(&scn, &b));
    run.finish()
}
