//! Helpers shared by all scenarios.
use fvm_ipld_encoding::ipld_block::IpldBlock;
use fvm_shared::address::Address;
use fvm_shared::econ::TokenAmount;
use fvm_shared::{ActorID, MethodNum};
use mcvm::{Inv, MsgKind, Snapshot, Vm};
use mcx::Key;
use serde::Serialize;

/// Explicit state of a VM scenario: VM snapshot + reference-model / budget state.
#[derive(Clone)]
pub struct VS<M> {
    pub snap: Snapshot,
    pub m: M,
}

pub fn vs_key<M: Serialize>(s: &VS<M>) -> Key {
    let m = serde_json::to_vec(&s.m).unwrap();
    mcx::hash_key(&[&s.snap.root.to_bytes(), &s.snap.epoch.to_le_bytes(), &m])
}

pub fn params<T: Serialize>(t: &T) -> Option<IpldBlock> {
    IpldBlock::serialize_cbor(t).unwrap()
}

pub fn id(a: ActorID) -> Address {
    Address::new_id(a)
}

pub fn atto(n: i128) -> TokenAmount {
    TokenAmount::from_atto(n)
}

pub fn fil(n: i64) -> TokenAmount {
    TokenAmount::from_whole(n)
}

/// External message from an account.
pub fn ext<T: Serialize>(
    vm: &Vm,
    from: ActorID,
    to: &Address,
    value: &TokenAmount,
    method: MethodNum,
    p: Option<&T>,
) -> Inv {
    vm.apply(MsgKind::External, &id(from), to, value, method, p.and_then(|p| params(p)))
}

/// The harness plays an actor caller.
pub fn imp<T: Serialize>(
    vm: &Vm,
    from: ActorID,
    to: &Address,
    value: &TokenAmount,
    method: MethodNum,
    p: Option<&T>,
) -> Inv {
    vm.apply(MsgKind::Impersonated, &id(from), to, value, method, p.and_then(|p| params(p)))
}

pub const NOP: Option<&()> = None;

/// Run `f` on the VM and roll everything back (probe).
pub fn probe<R>(vm: &Vm, f: impl FnOnce() -> R) -> R {
    let s = vm.snapshot();
    let r = f();
    vm.restore(&s);
    r
}

pub fn tier_is_thorough(tier: &str) -> bool {
    tier == "thorough"
}
