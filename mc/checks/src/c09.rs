//! C09 — DataCap is conserved and each allocation is spent exactly once. DESIGN §3 C09.
//!
//! Scenario `c09/datacap` (MAINNET policy): the real verified registry, DataCap token, market,
//! root multisig and two real miner actors. A reference **token ledger + allocation table**,
//! written from the property text, is stepped in lock-step with the implementation and compared
//! after every step (all holder balances, supply, verifier allowances, allocation table, claim
//! table, `TotalSupply` / `Balance` method probes).
//!
//! What the model defines (judged) and what it adopts (not judged):
//! * judged: supply = Σ balances = minted − burnt; verifier allowance −= grant; only verifiers
//!   mint, never beyond their allowance; registry balance = Σ open allocation sizes; transferred
//!   amount = Σ requested sizes (+ sizes of extended claims, which are burnt); fresh increasing
//!   allocation ids; a claim group succeeds iff every entry names an open allocation of the calling
//!   provider with matching client / data / size at `epoch <= expiration` and sector lifetime in
//!   [term_min, term_max] (no id twice); a successful claim removes the allocation, creates one
//!   claim record with the same identity and burns `size`; an allocation is removed-and-refunded
//!   only when `epoch >= expiration` (and must be when `epoch > expiration` and it was named),
//!   the refund goes to its client, once; client → third-party transfers, stranger
//!   Mint/Destroy/TransferFrom are rejected.
//! * adopted: who may become verifier / client beyond the allowance rule, allocation policy limits
//!   (term / expiration / size / provider type), what happens to a batch that names an id twice in
//!   one sector group (group failure or message abort — never a second claim), removal exactly at
//!   `epoch == expiration`, every claim-term rule (C10), authorisation of
//!   `RemoveVerifiedClientDataCap` (only its ledger effect is judged), market-side deal rules.
use crate::chain::*;
use crate::util::*;
use fil_actor_datacap::{DestroyParams, Method as DcMethod, MintParams, State as DcState};
use fil_actor_market::{
    AddBalanceParams, BatchActivateDealsParams, BatchActivateDealsResult, ClientDealProposal,
    DealProposal, Label, Method as MarketMethod, PublishStorageDealsParams,
    PublishStorageDealsReturn, SectorDeals,
};
use fil_actor_multisig::{Method as MsigMethod, ProposeParams, ProposeReturn};
use fil_actor_verifreg::state::{REMOVE_DATACAP_PROPOSALS_CONFIG, RemoveDataCapProposalMap};
use fil_actor_verifreg::{
    AddrPairKey, Allocation, AllocationClaim, AllocationRequest, AllocationRequests,
    AllocationsResponse, Claim, ClaimAllocationsParams, ClaimAllocationsReturn,
    ClaimExtensionRequest, ClaimTerm, ExtendClaimTermsParams, Method as VrMethod,
    RemoveDataCapParams, RemoveDataCapProposal, RemoveDataCapProposalID, RemoveDataCapRequest,
    RemoveExpiredAllocationsParams, RemoveExpiredAllocationsReturn, RemoveExpiredClaimsParams,
    RemoveVerifierParams, SIGNATURE_DOMAIN_SEPARATION_REMOVE_DATA_CAP, SectorAllocationClaims,
    State as VrState, VerifierParams,
};
use fil_actors_runtime::runtime::Policy;
use fil_actors_runtime::test_utils::make_piece_cid;
use fil_actors_runtime::{
    DATACAP_TOKEN_ACTOR_ADDR, DEFAULT_HAMT_CONFIG, Map2, STORAGE_MARKET_ACTOR_ADDR,
    VERIFIED_REGISTRY_ACTOR_ADDR,
};
use frc46_token::token::state::decode_actor_id;
use frc46_token::token::types::{BurnParams, TransferFromParams, TransferParams, TransferReturn};
use fvm_ipld_encoding::RawBytes;
use fvm_shared::ActorID;
use fvm_shared::address::Address;
use fvm_shared::bigint::BigInt;
use fvm_shared::crypto::signature::{Signature, SignatureType};
use fvm_shared::econ::TokenAmount;
use fvm_shared::piece::PaddedPieceSize;
use fvm_shared::sector::{RegisteredPoStProof, RegisteredSealProof};
use mcvm::{Inv, Store, VERIFREG_ROOT_ID, VERIFREG_ROOT_SIGNER_ID, Vm, fake_sign};
use mcx::{Bounds, Key, Scenario, Step};
use num_traits::Zero;
use serde::{Deserialize, Serialize};
use serde_json::json;
use std::collections::{BTreeMap, BTreeSet};

/// One "unit" of DataCap = the policy's minimum verified allocation size (1 MiB).
pub const UNIT: i128 = 1 << 20;
pub const MINTERM: i64 = 180 * 2880;
pub const MAXTERM: i64 = 5 * 365 * 2880;
pub const MAXEXP: i64 = 60 * 2880;
pub const SLOT: i64 = 20;
pub const DEAL_DURATION: i64 = 180 * 2880;
const PCOLL: i128 = 1_000_000_000_000_000_000;
const REG: ActorID = 6;
const DCAP: ActorID = 7;

#[derive(Clone, Copy, Debug, Serialize, Deserialize, PartialEq, Eq, PartialOrd, Ord)]
pub enum P {
    V,
    V2,
    C1,
    C2,
    Z,
    O1,
    O2,
    M1,
    M2,
    Reg,
}

/// Allocation request as put into the operator data (absolute numbers; sizes in bytes).
#[derive(Clone, Debug, Serialize, Deserialize, PartialEq, Eq)]
pub struct Req {
    pub provider: P,
    pub data: u8,
    pub size: i128,
    pub term_min: i64,
    pub term_max: i64,
    pub expiration: i64,
}

#[derive(Clone, Debug, Serialize, Deserialize, PartialEq, Eq)]
pub struct Ext {
    pub provider: P,
    pub claim: u64,
    pub term_max: i64,
}

#[derive(Clone, Debug, Serialize, Deserialize, PartialEq, Eq)]
pub struct CE {
    pub client: P,
    pub id: u64,
    pub data: u8,
    pub size: i128,
}

#[derive(Clone, Debug, Serialize, Deserialize, PartialEq, Eq)]
pub struct SC {
    pub sector: u64,
    pub expiry: i64,
    pub claims: Vec<CE>,
}

#[derive(Clone, Copy, Debug, Serialize, Deserialize, PartialEq, Eq)]
pub enum RdcSig {
    Good,
    Tampered,
    SameVerifierTwice,
}

#[derive(Clone, Debug, Serialize, Deserialize)]
pub enum Act {
    /// root multisig signer proposes (threshold 1 ⇒ executes) VerifiedRegistry.AddVerifier
    AddVerifier { who: P, bytes: i128 },
    RemoveVerifier { who: P },
    Grant { by: P, to: P, bytes: i128 },
    /// DataCap.Transfer(by → registry, amount, operator_data = allocation / extension requests)
    Alloc { label: String, by: P, amount: i128, reqs: Vec<Req>, exts: Vec<Ext> },
    /// VerifiedRegistry.ClaimAllocations by an impersonated (real) miner actor, or a plain account
    Claim { label: String, by: P, sectors: Vec<SC>, aon: bool },
    RemoveExpiredAllocs { by: P, client: P, ids: Vec<u64> },
    RemoveExpiredClaims { by: P, provider: P, ids: Vec<u64> },
    ExtendClaimTerms { by: P, terms: Vec<(P, u64, i64)> },
    RemoveDataCap { client: P, bytes: i128, sig: RdcSig },
    Burn { by: P, bytes: i128 },
    Transfer { by: P, to: P, bytes: i128 },
    /// operator `by` moves `from`'s tokens; `req` = allocation request when the target is the registry
    TransferFrom { by: P, from: P, to: P, bytes: i128, req: Option<Req> },
    Mint { by: P, to: P, bytes: i128 },
    Destroy { by: P, owner: P, bytes: i128 },
    /// Market.PublishStorageDeals of one verified deal (client, provider, piece tag, start epoch)
    Publish { by: P, client: P, provider: P, piece: u8, start: i64 },
    /// impersonated miner → Market.BatchActivateDeals, then claims what the market returned
    ActivateClaim { by: P, deal: u64, sector: u64 },
    TickTo(i64),
    /// far jump to the end of a claim's term: one real cron tick, then the epoch is set
    JumpTo(i64),
}

#[derive(Clone, Debug, Serialize, PartialEq, Eq)]
pub struct AllocM {
    pub client: u64,
    pub provider: u64,
    pub data: u8,
    pub size: i128,
    pub term_min: i64,
    pub term_max: i64,
    pub expiration: i64,
}

#[derive(Clone, Debug, Serialize, PartialEq, Eq)]
pub struct ClaimM {
    pub provider: u64,
    pub client: u64,
    pub data: u8,
    pub size: i128,
    // adopted from the implementation (claim terms are C10's subject)
    pub term_min: i64,
    pub term_max: i64,
    pub term_start: i64,
    pub sector: u64,
}

#[derive(Clone, Copy, Debug, Serialize, PartialEq, Eq)]
pub enum Fate {
    Open,
    Claimed,
    Refunded,
}

#[derive(Clone, Debug, Serialize, PartialEq, Eq)]
pub struct DealM {
    pub client: u64,
    pub provider: u64,
    pub start: i64,
    pub alloc: Option<u64>,
    pub activated: bool,
}

#[derive(Clone, Debug, Serialize, PartialEq, Eq, Default)]
pub struct Budget {
    pub root_ops: u32,
    pub grants: u32,
    pub allocs: u32,
    pub claims: u32,
    pub removes: u32,
    pub claim_removes: u32,
    pub extends: u32,
    pub exts: u32,
    pub burns: u32,
    pub rdc: u32,
    pub publishes: u32,
    pub activations: u32,
    pub ticks: u32,
    pub jumps: u32,
}

/// The reference model: token ledger + allocation table (+ exploration budgets).
#[derive(Clone, Debug, Serialize, PartialEq, Eq, Default)]
pub struct Model {
    pub base: usize,
    /// holder -> whole DataCap bytes (1 byte = 1 whole token); zero entries are dropped
    pub bal: BTreeMap<u64, i128>,
    pub minted: i128,
    pub burnt: i128,
    pub verifiers: BTreeMap<u64, i128>,
    pub allocs: BTreeMap<u64, AllocM>,
    pub claims: BTreeMap<u64, ClaimM>,
    pub fate: BTreeMap<u64, Fate>,
    pub next_id: u64,
    pub deals: BTreeMap<u64, DealM>,
    pub b: Budget,
}

impl Model {
    fn credit(&mut self, who: u64, d: i128) {
        let e = self.bal.entry(who).or_insert(0);
        *e += d;
        if *e == 0 {
            self.bal.remove(&who);
        }
    }
    fn balance(&self, who: u64) -> i128 {
        *self.bal.get(&who).unwrap_or(&0)
    }
}

#[derive(Clone)]
pub struct Cast {
    pub v: (ActorID, Address),
    pub v2: (ActorID, Address),
    pub c1: (ActorID, Address),
    pub c2: (ActorID, Address),
    pub z: (ActorID, Address),
    pub o1: ActorID,
    pub o2: ActorID,
    pub m1: ActorID,
    pub m2: ActorID,
    pub epoch0: i64,
}

impl Cast {
    pub fn id(&self, p: P) -> ActorID {
        match p {
            P::V => self.v.0,
            P::V2 => self.v2.0,
            P::C1 => self.c1.0,
            P::C2 => self.c2.0,
            P::Z => self.z.0,
            P::O1 => self.o1,
            P::O2 => self.o2,
            P::M1 => self.m1,
            P::M2 => self.m2,
            P::Reg => REG,
        }
    }
    fn key(&self, p: P) -> Address {
        match p {
            P::V => self.v.1,
            P::V2 => self.v2.1,
            P::C1 => self.c1.1,
            P::C2 => self.c2.1,
            _ => self.z.1,
        }
    }
    fn is_miner(&self, p: P) -> bool {
        matches!(p, P::M1 | P::M2)
    }
}

pub struct W {
    pub vm: Vm,
    pub cast: Cast,
    pub bases: Vec<(String, mcvm::Snapshot, Model)>,
    /// base recipes whose own steps violate the oracle: (base, script up to the failing step, message)
    pub failures: Vec<(String, Vec<Act>, String)>,
}

pub struct DataCapScn {
    pub budget: Budget,
    pub thorough: bool,
    /// deep configuration: only the core alphabet (valid / repeated / foreign claims, removals,
    /// valid allocation and extension transfers, burn, market path, time), explored deeper
    pub deep: bool,
    pub bases: Vec<&'static str>,
    /// the bases exploration starts from (all of `bases` are built, so that any replay file finds its base)
    pub start: Vec<&'static str>,
    /// scenario name (must start with "c09": `mc replay` dispatches on it)
    pub tag: &'static str,
}

/// Is `a` part of the core alphabet of the deep configuration?
fn core(a: &Act) -> bool {
    match a {
        Act::Alloc { label, .. } => matches!(label.as_str(), "1 valid request" | "2 valid requests" | "extension"),
        Act::Claim { label, aon, .. } => {
            !*aon && matches!(label.as_str(), "valid" | "foreign provider" | "id twice in one sector" | "id in two sectors" | "two ids in one sector" | "two ids in two sectors" | "claimed id again" | "refunded id again")
        }
        Act::RemoveExpiredAllocs { by, ids, .. } => *by == P::Z && ids.len() <= 1,
        Act::RemoveExpiredClaims { ids, .. } => ids.is_empty(),
        Act::Burn { bytes, .. } => *bytes == UNIT,
        Act::Publish { client, .. } => *client == P::C1,
        Act::ActivateClaim { .. } | Act::TickTo(_) | Act::JumpTo(_) => true,
        _ => false,
    }
}

fn tok(bytes: i128) -> TokenAmount {
    TokenAmount::from_atto(BigInt::from(bytes) * BigInt::from(1_000_000_000_000_000_000u64))
}

fn data_cid(tag: u8) -> cid::Cid {
    make_piece_cid(&[b'd', tag])
}

/// What the implementation's two actors say (decoded from their state trees).
pub struct Obs {
    pub supply: TokenAmount,
    pub bals: BTreeMap<u64, TokenAmount>,
    pub verifiers: BTreeMap<u64, i128>,
    /// (outer key, id, record)
    pub allocs: Vec<(u64, u64, Allocation)>,
    pub claims: Vec<(u64, u64, Claim)>,
}

fn observe(vm: &Vm) -> Obs {
    let dc: DcState = vm.state_of(DCAP).expect("datacap state");
    let mut bals = BTreeMap::new();
    dc.token
        .get_balance_map(&vm.store)
        .unwrap()
        .for_each(|k, v: &TokenAmount| {
            bals.insert(decode_actor_id(k).unwrap(), v.clone());
            Ok(())
        })
        .unwrap();
    let vr: VrState = vm.state_of(REG).expect("verifreg state");
    let mut verifiers = BTreeMap::new();
    vr.load_verifiers(&vm.store)
        .unwrap()
        .for_each(|a, cap| {
            verifiers.insert(a.id().unwrap(), i128::try_from(cap.0.clone()).unwrap());
            Ok(())
        })
        .unwrap();
    let mut allocs = vec![];
    vr.load_allocs(&vm.store)
        .unwrap()
        .for_each(|k, root| {
            let outer = decode_actor_id(k).unwrap();
            Map2::<&Store, u64, Allocation>::load(&vm.store, root, DEFAULT_HAMT_CONFIG, "allocs")
                .unwrap()
                .for_each(|id, a| {
                    allocs.push((outer, id, a.clone()));
                    Ok(())
                })
                .unwrap();
            Ok(())
        })
        .unwrap();
    let mut claims = vec![];
    vr.load_claims(&vm.store)
        .unwrap()
        .for_each(|k, root| {
            let outer = decode_actor_id(k).unwrap();
            Map2::<&Store, u64, Claim>::load(&vm.store, root, DEFAULT_HAMT_CONFIG, "claims")
                .unwrap()
                .for_each(|id, c| {
                    claims.push((outer, id, c.clone()));
                    Ok(())
                })
                .unwrap();
            Ok(())
        })
        .unwrap();
    allocs.sort_by_key(|a| (a.1, a.0));
    claims.sort_by_key(|a| (a.1, a.0));
    Obs { supply: dc.token.supply.clone(), bals, verifiers, allocs, claims }
}

fn alloc_ids(vm: &Vm) -> BTreeSet<u64> {
    observe(vm).allocs.iter().map(|a| a.1).collect()
}

/// Expected result of one sector group of a claim message.
#[derive(Clone, Debug, PartialEq, Eq)]
enum G {
    Ok(Vec<u64>),
    Fail,
    /// names an id twice inside the group: never a success; group failure or message abort
    Dup,
}

impl DataCapScn {
    fn req(&self, c: &Cast, r: &Req) -> AllocationRequest {
        AllocationRequest {
            provider: c.id(r.provider),
            data: data_cid(r.data),
            size: PaddedPieceSize(r.size as u64),
            term_min: r.term_min,
            term_max: r.term_max,
            expiration: r.expiration,
        }
    }

    fn op_data(&self, c: &Cast, reqs: &[Req], exts: &[Ext]) -> RawBytes {
        RawBytes::serialize(&AllocationRequests {
            allocations: reqs.iter().map(|r| self.req(c, r)).collect(),
            extensions: exts
                .iter()
                .map(|e| ClaimExtensionRequest { provider: c.id(e.provider), claim: e.claim, term_max: e.term_max })
                .collect(),
        })
        .unwrap()
    }

    /// The standing oracle. Also adopts the claim-term fields (not this property's subject).
    fn compare(&self, vm: &Vm, c: &Cast, m: &mut Model) -> Result<(), String> {
        let o = observe(vm);
        // token ledger
        let sum: TokenAmount = o.bals.values().cloned().sum();
        if sum != o.supply {
            return Err(format!("DataCap supply {} != sum of holder balances {}", o.supply, sum));
        }
        if o.supply != tok(m.minted - m.burnt) {
            return Err(format!("DataCap supply {} != minted {} - burnt {} (whole tokens) of the ledger model", o.supply, m.minted, m.burnt));
        }
        let holders: BTreeSet<u64> = o.bals.keys().chain(m.bal.keys()).cloned().collect();
        for h in holders {
            let ib = o.bals.get(&h).cloned().unwrap_or_default();
            if ib != tok(m.balance(h)) {
                return Err(format!("holder {h}: DataCap balance {} != ledger model {} whole tokens", ib, m.balance(h)));
            }
        }
        // verifier allowances
        if o.verifiers != m.verifiers {
            return Err(format!("verifier allowances {:?} != model {:?}", o.verifiers, m.verifiers));
        }
        // allocation table
        let mut seen = BTreeSet::new();
        let mut open_total: i128 = 0;
        for (outer, aid, a) in &o.allocs {
            if !seen.insert(*aid) {
                return Err(format!("allocation id {aid} is stored twice"));
            }
            open_total += a.size.0 as i128;
            let Some(ma) = m.allocs.get(aid) else {
                return Err(format!("allocation {aid} ({a:?}) is in the registry but the model has it as {:?}", m.fate.get(aid)));
            };
            let same = *outer == ma.client
                && a.client == ma.client
                && a.provider == ma.provider
                && a.data == data_cid(ma.data)
                && a.size.0 as i128 == ma.size
                && a.term_min == ma.term_min
                && a.term_max == ma.term_max
                && a.expiration == ma.expiration;
            if !same {
                return Err(format!("allocation {aid}: registry has {a:?} under client {outer}, model {ma:?}"));
            }
        }
        for aid in m.allocs.keys() {
            if !seen.contains(aid) {
                return Err(format!("open allocation {aid} of the model is missing from the registry"));
            }
        }
        let reg_bal = o.bals.get(&REG).cloned().unwrap_or_default();
        if reg_bal != tok(open_total) {
            return Err(format!("registry token balance {} != total size of unclaimed allocations {} bytes", reg_bal, open_total));
        }
        // claim table
        let mut seen_c = BTreeSet::new();
        for (outer, cid_, cl) in &o.claims {
            if !seen_c.insert(*cid_) {
                return Err(format!("claim id {cid_} is stored twice"));
            }
            let Some(mc) = m.claims.get_mut(cid_) else {
                return Err(format!("claim {cid_} ({cl:?}) exists but the model has allocation {cid_} as {:?}", m.fate.get(cid_)));
            };
            let same = *outer == mc.provider
                && cl.provider == mc.provider
                && cl.client == mc.client
                && cl.data == data_cid(mc.data)
                && cl.size.0 as i128 == mc.size;
            if !same {
                return Err(format!("claim {cid_}: registry has {cl:?} under provider {outer}, model {mc:?}"));
            }
            mc.term_min = cl.term_min;
            mc.term_max = cl.term_max;
            mc.term_start = cl.term_start;
            mc.sector = cl.sector;
        }
        for cid_ in m.claims.keys() {
            if !seen_c.contains(cid_) {
                return Err(format!("claim {cid_} of the model is missing from the registry"));
            }
        }
        // an id is open, claimed or refunded — never two of them
        for (aid, f) in &m.fate {
            let open = m.allocs.contains_key(aid);
            if open != (*f == Fate::Open) || (m.claims.contains_key(aid) && *f != Fate::Claimed) {
                return Err(format!("model inconsistency for allocation {aid}: {f:?}"));
            }
        }
        // API probes (read-only methods, no state change): TotalSupply, Balance
        let dcap = DATACAP_TOKEN_ACTOR_ADDR;
        let z = TokenAmount::zero();
        let r = ext(vm, c.z.0, &dcap, &z, DcMethod::TotalSupplyExported as u64, NOP);
        match r.ret.as_ref().filter(|_| r.ok()).map(|b| b.deserialize::<TokenAmount>()) {
            Some(Ok(s)) if s == o.supply => {}
            other => return Err(format!("TotalSupply probe returned {:?}, token state says {}", other, o.supply)),
        }
        for h in [c.c1.0, c.c2.0, REG] {
            let r = ext(vm, c.z.0, &dcap, &z, DcMethod::BalanceExported as u64, Some(&id(h)));
            match r.ret.as_ref().filter(|_| r.ok()).map(|b| b.deserialize::<TokenAmount>()) {
                Some(Ok(s)) if s == tok(m.balance(h)) => {}
                other => return Err(format!("Balance({h}) probe returned {:?}, ledger model {} whole tokens", other, m.balance(h))),
            }
        }
        Ok(())
    }

    /// Specification of a claim message (see module doc).
    fn model_claim(&self, c: &Cast, m: &Model, by: P, sectors: &[SC], now: i64) -> Vec<G> {
        let caller = c.id(by);
        let mut claimed: BTreeSet<u64> = BTreeSet::new();
        let mut out = vec![];
        for g in sectors {
            let mut ids: Vec<u64> = g.claims.iter().map(|e| e.id).collect();
            ids.sort();
            if ids.windows(2).any(|w| w[0] == w[1]) {
                out.push(G::Dup);
                continue;
            }
            let life = g.expiry - now;
            let valid = g.claims.iter().all(|e| match m.allocs.get(&e.id) {
                None => false,
                Some(a) => {
                    !claimed.contains(&e.id)
                        && c.is_miner(by)
                        && a.provider == caller
                        && a.client == c.id(e.client)
                        && a.data == e.data
                        && a.size == e.size
                        && now <= a.expiration
                        && life >= a.term_min
                        && life <= a.term_max
                }
            });
            if valid {
                ids = g.claims.iter().map(|e| e.id).collect();
                claimed.extend(ids.iter().cloned());
                out.push(G::Ok(ids));
            } else {
                out.push(G::Fail);
            }
        }
        out
    }

    /// Run a claim message and judge it against the model. Returns (outcome, violation).
    fn do_claim(&self, vm: &Vm, c: &Cast, m: &mut Model, by: P, sectors: &[SC], aon: bool, now: i64) -> (&'static str, Option<String>) {
        let expect = self.model_claim(c, m, by, sectors, now);
        let prm = ClaimAllocationsParams {
            sectors: sectors
                .iter()
                .map(|g| SectorAllocationClaims {
                    sector: g.sector,
                    expiry: g.expiry,
                    claims: g
                        .claims
                        .iter()
                        .map(|e| AllocationClaim { client: c.id(e.client), allocation_id: e.id, data: data_cid(e.data), size: PaddedPieceSize(e.size as u64) })
                        .collect(),
                })
                .collect(),
            all_or_nothing: aon,
        };
        let reg = VERIFIED_REGISTRY_ACTOR_ADDR;
        let z = TokenAmount::zero();
        let r = if c.is_miner(by) {
            imp(vm, c.id(by), &reg, &z, VrMethod::ClaimAllocations as u64, Some(&prm))
        } else {
            ext(vm, c.id(by), &reg, &z, VrMethod::ClaimAllocations as u64, Some(&prm))
        };
        let any_ok = expect.iter().any(|g| matches!(g, G::Ok(_)));
        let all_ok = expect.iter().all(|g| matches!(g, G::Ok(_)));
        let any_dup = expect.iter().any(|g| *g == G::Dup);
        if !r.ok() {
            // defined: the message must go through when a valid group exists, nothing forces an
            // abort (all-or-nothing with a failing group) and no group names an id twice
            if any_ok && !any_dup && (all_ok || !aon) {
                return ("rejected", Some(format!("claim by {by:?} at {now} with a valid group was rejected (model {expect:?}): {}", r.tree())));
            }
            return ("rejected", None);
        }
        if aon && !all_ok {
            return ("accepted", Some(format!("all-or-nothing claim went through although the model fails a group: {expect:?}")));
        }
        let ret: ClaimAllocationsReturn = match r.ret.as_ref().map(|b| b.deserialize()) {
            Some(Ok(x)) => x,
            _ => return ("accepted", Some("ClaimAllocations returned no decodable value".into())),
        };
        let codes = ret.sector_results.codes();
        if codes.len() != expect.len() {
            return ("accepted", Some(format!("ClaimAllocations returned {} sector results for {} sectors", codes.len(), expect.len())));
        }
        let mut k = 0usize;
        for (i, (code, g)) in codes.iter().zip(expect.iter()).enumerate() {
            match (code.is_success(), g) {
                (true, G::Ok(ids)) => {
                    let space: i128 = ids.iter().map(|i| m.allocs[i].size).sum();
                    let got = ret.sector_claims.get(k).map(|s| s.claimed_space.clone());
                    if got != Some(BigInt::from(space)) {
                        return ("accepted", Some(format!("sector group {i}: claimed space {:?} != total size {space} of the claimed allocations", got)));
                    }
                    k += 1;
                    let sector = sectors[i].sector;
                    for aid in ids {
                        let a = m.allocs.remove(aid).unwrap();
                        m.fate.insert(*aid, Fate::Claimed);
                        m.claims.insert(*aid, ClaimM { provider: a.provider, client: a.client, data: a.data, size: a.size, term_min: a.term_min, term_max: a.term_max, term_start: now, sector });
                        m.burnt += a.size;
                        m.credit(REG, -a.size);
                    }
                }
                (false, G::Ok(_)) => {
                    return ("accepted", Some(format!("sector group {i} is a valid claim by the named provider {by:?} at {now} but failed with {code:?}; model {expect:?}")));
                }
                (true, g) => {
                    return ("accepted", Some(format!("sector group {i} succeeded but the model says {g:?}: {:?} by {by:?} at epoch {now}", sectors[i])));
                }
                (false, _) => {}
            }
        }
        (if any_ok { "claimed" } else { "nothing claimed" }, None)
    }

    fn propose(&self, vm: &Vm, method: u64, params: RawBytes) -> (Inv, bool) {
        let r = ext(
            vm,
            VERIFREG_ROOT_SIGNER_ID,
            &id(VERIFREG_ROOT_ID),
            &TokenAmount::zero(),
            MsigMethod::Propose as u64,
            Some(&ProposeParams { to: VERIFIED_REGISTRY_ACTOR_ADDR, value: TokenAmount::zero(), method, params }),
        );
        let applied = r.ok()
            && r.ret
                .as_ref()
                .and_then(|b| b.deserialize::<ProposeReturn>().ok())
                .map(|p| p.applied && p.code.is_success())
                .unwrap_or(false);
        (r, applied)
    }

    fn slot_after(&self, c: &Cast, now: i64) -> i64 {
        let mut e = c.epoch0 + SLOT;
        while e <= now + 1 {
            e += SLOT;
        }
        e
    }

    fn deal_proposal(&self, c: &Cast, client: P, provider: P, piece: u8, start: i64) -> ClientDealProposal {
        let proposal = DealProposal {
            piece_cid: data_cid(piece),
            piece_size: PaddedPieceSize(UNIT as u64),
            verified_deal: true,
            client: id(c.id(client)),
            provider: id(c.id(provider)),
            label: Label::String(format!("vdeal-{piece}")),
            start_epoch: start,
            end_epoch: start + DEAL_DURATION,
            storage_price_per_epoch: TokenAmount::zero(),
            provider_collateral: atto(PCOLL),
            client_collateral: TokenAmount::zero(),
        };
        let bz = RawBytes::serialize(&proposal).unwrap();
        let sig = fake_sign(&c.key(client), &bz);
        ClientDealProposal { proposal, client_signature: Signature { sig_type: SignatureType::BLS, bytes: sig } }
    }

    fn fresh(&self, base: usize) -> Model {
        Model { base, next_id: 1, b: self.budget.clone(), ..Default::default() }
    }
}

impl Scenario for DataCapScn {
    type S = VS<Model>;
    type A = Act;
    type W = W;

    fn name(&self) -> String {
        self.tag.into()
    }

    fn worker(&self, store: &Store) -> W {
        let vm = Vm::genesis(store.clone(), Policy::default());
        vm.bump_nonce.set(true);
        let v = vm.new_account(11, &fil(100));
        let v2 = vm.new_account(12, &fil(100));
        let c1 = vm.new_account(13, &fil(100));
        let c2 = vm.new_account(14, &fil(100));
        let z = vm.new_account(15, &fil(100));
        let o1 = vm.new_account(16, &fil(10_000)).0;
        let o2 = vm.new_account(17, &fil(10_000)).0;
        for _ in 0..3 {
            vm.tick();
        }
        let proof = RegisteredPoStProof::StackedDRGWindow32GiBV1P1;
        let m1 = create_miner(&vm, o1, o1, proof, &fil(2000)).unwrap_or_else(|r| panic!("SETUP-FAILED create miner: {}", r.tree()));
        let m2 = create_miner(&vm, o2, o2, proof, &fil(2000)).unwrap_or_else(|r| panic!("SETUP-FAILED create miner: {}", r.tree()));
        for (to, by) in [(m1, o1), (m2, o2)] {
            let r = ext(&vm, by, &STORAGE_MARKET_ACTOR_ADDR, &atto(4 * PCOLL), MarketMethod::AddBalance as u64, Some(&AddBalanceParams { provider_or_client: id(to) }));
            assert!(r.ok(), "SETUP-FAILED add balance: {}", r.tree());
        }
        for _ in 0..2 {
            vm.tick();
        }
        vm.bump_nonce.set(false);
        let cast = Cast { v, v2, c1, c2, z, o1, o2, m1, m2, epoch0: vm.epoch() };
        let mut w = W { vm, cast, bases: vec![], failures: vec![] };
        let g = w.vm.snapshot();
        let c = w.cast.clone();
        let e = c.epoch0 + SLOT;
        let r1 = |p: P, d: u8| Req { provider: p, data: d, size: UNIT, term_min: MINTERM, term_max: MINTERM + 100, expiration: e };
        let grant: Vec<Act> = vec![
            Act::AddVerifier { who: P::V, bytes: 4 * UNIT },
            Act::Grant { by: P::V, to: P::C1, bytes: 2 * UNIT },
            Act::Grant { by: P::V, to: P::C2, bytes: UNIT },
        ];
        let alloc2 = Act::Alloc { label: "setup".into(), by: P::C1, amount: 2 * UNIT, reqs: vec![r1(P::M1, 11), r1(P::M2, 21)], exts: vec![] };
        let mut bases = vec![];
        let mut failures = vec![];
        for &bn in &self.bases {
            let mut script: Vec<Act> = vec![];
            match bn {
                "genesis" => {}
                "granted" => script.extend(grant.clone()),
                "two-verifiers" => {
                    script.extend(grant.clone());
                    script.push(Act::AddVerifier { who: P::V2, bytes: 4 * UNIT });
                }
                "allocated" => {
                    script.extend(grant.clone());
                    script.push(alloc2.clone());
                }
                "deal" => {
                    script.extend(grant.clone());
                    script.push(Act::Publish { by: P::O1, client: P::C1, provider: P::M1, piece: 31, start: e });
                }
                "claimed" => {
                    script.extend(grant.clone());
                    script.push(alloc2.clone());
                    script.push(Act::Claim {
                        label: "setup".into(),
                        by: P::M1,
                        sectors: vec![SC { sector: 1, expiry: c.epoch0 + MINTERM, claims: vec![CE { client: P::C1, id: 1, data: 11, size: UNIT }] }],
                        aon: true,
                    });
                }
                other => panic!("unknown base {other}"),
            }
            let mut big = self.fresh(bases.len());
            big.b = Budget { root_ops: 9, grants: 9, allocs: 9, claims: 9, removes: 9, claim_removes: 9, extends: 9, exts: 9, burns: 9, rdc: 9, publishes: 9, activations: 9, ticks: 9, jumps: 9 };
            let mut s = VS { snap: g.clone(), m: big };
            let mut failed = false;
            for (i, a) in script.iter().enumerate() {
                let st = self.step(&w, &s, a, &[]);
                if let Some(v) = st.violation {
                    // a recipe step inside the property: reported by `run` as a violation whose
                    // replay path starts at the genesis base
                    failures.push((bn.to_string(), script[..=i].to_vec(), v));
                    failed = true;
                    break;
                }
                s = st.next.unwrap();
            }
            if failed {
                continue;
            }
            let want = match bn {
                "genesis" => (0, 0, 0),
                "granted" | "two-verifiers" => (3 * UNIT, 0, 0),
                "allocated" => (3 * UNIT, 2, 0),
                "deal" => (3 * UNIT, 1, 0),
                _ => (3 * UNIT, 1, 1),
            };
            let got = (s.m.minted, s.m.allocs.len(), s.m.claims.len());
            if got != want {
                // the implementation declined a recipe step the model leaves open: no such base
                if std::env::var("MC_TIMING").is_ok() {
                    eprintln!("SETUP: base {bn} not reachable on this tree: (minted, open allocations, claims) = {got:?}, recipe aims at {want:?}");
                }
                continue;
            }
            s.m.b = self.budget.clone();
            s.m.base = bases.len();
            bases.push((bn.to_string(), s.snap.clone(), s.m.clone()));
        }
        w.bases = bases;
        w.failures = failures;
        w
    }

    fn bases(&self, w: &W) -> Vec<(String, VS<Model>)> {
        w.bases.iter().filter(|b| self.start.contains(&b.0.as_str())).map(|(n, s, m)| (n.clone(), VS { snap: s.clone(), m: m.clone() })).collect()
    }

    fn key(&self, s: &VS<Model>) -> Key {
        vs_key(s)
    }

    fn kind(&self, a: &Act) -> String {
        match a {
            Act::AddVerifier { .. } => "add-verifier (root multisig)".into(),
            Act::RemoveVerifier { .. } => "remove-verifier (root multisig)".into(),
            Act::Grant { by, to, .. } => format!("add-verified-client by {by:?}{}", if *to == P::Reg { " to the registry" } else { "" }),
            Act::Alloc { label, .. } => format!("transfer-to-registry: {label}"),
            Act::Claim { label, aon, .. } => format!("claim: {label}{}", if *aon { " (all-or-nothing)" } else { "" }),
            Act::RemoveExpiredAllocs { ids, .. } => format!("remove-expired-allocations x{}", ids.len()),
            Act::RemoveExpiredClaims { ids, .. } => format!("remove-expired-claims x{}", ids.len()),
            Act::ExtendClaimTerms { by, .. } => format!("extend-claim-terms by {by:?}"),
            Act::RemoveDataCap { sig, .. } => format!("remove-verified-client-datacap sigs {sig:?}"),
            Act::Burn { .. } => "client burn".into(),
            Act::Transfer { .. } => "client transfer to third party".into(),
            Act::TransferFrom { to, .. } => format!("stranger transfer-from to {to:?}"),
            Act::Mint { .. } => "stranger mint".into(),
            Act::Destroy { .. } => "stranger destroy".into(),
            Act::Publish { .. } => "publish verified deal".into(),
            Act::ActivateClaim { by, .. } => format!("activate deal + claim by {by:?}"),
            Act::TickTo(_) => "tick-to".into(),
            Act::JumpTo(_) => "jump-to (claim term end)".into(),
        }
    }

    fn actions(&self, w: &W, s: &VS<Model>) -> Vec<Act> {
        let m = &s.m;
        let c = &w.cast;
        let now = s.snap.epoch;
        let th = self.thorough;
        let mut v = vec![];
        let who_of = |idv: u64| -> P {
            for p in [P::V, P::V2, P::C1, P::C2, P::Z, P::O1, P::O2, P::M1, P::M2, P::Reg] {
                if c.id(p) == idv {
                    return p;
                }
            }
            P::Z
        };
        let other_miner = |p: P| if p == P::M1 { P::M2 } else { P::M1 };
        let other_client = |p: P| if p == P::C1 { P::C2 } else { P::C1 };
        let clients = [P::C1, P::C2];

        // ---- verifiers
        if m.b.root_ops > 0 {
            v.push(Act::AddVerifier { who: P::V, bytes: 4 * UNIT });
            if m.verifiers.contains_key(&c.v.0) {
                v.push(Act::RemoveVerifier { who: P::V });
                v.push(Act::AddVerifier { who: P::V2, bytes: 4 * UNIT });
            }
            if th {
                v.push(Act::AddVerifier { who: P::C1, bytes: 4 * UNIT });
                v.push(Act::RemoveVerifier { who: P::V2 });
            }
        }
        // ---- grants
        if m.b.grants > 0 {
            for to in clients {
                for n in [1, 2, 5] {
                    v.push(Act::Grant { by: P::V, to, bytes: n * UNIT });
                }
            }
            v.push(Act::Grant { by: P::Z, to: P::C1, bytes: UNIT });
            v.push(Act::Grant { by: P::V, to: P::Reg, bytes: UNIT });
            if m.verifiers.contains_key(&c.v2.0) {
                v.push(Act::Grant { by: P::V2, to: P::C1, bytes: UNIT });
            }
            if th {
                v.push(Act::Grant { by: P::C1, to: P::C2, bytes: UNIT });
                v.push(Act::Grant { by: P::V, to: P::V2, bytes: UNIT });
            }
        }
        // ---- allocation requests by direct transfer
        let e = self.slot_after(c, now);
        let rq = |p: P, units: i128| Req { provider: p, data: if p == P::M1 { 10 } else { 20 } + units as u8, size: units * UNIT, term_min: MINTERM, term_max: MINTERM + 100, expiration: e };
        if m.b.allocs > 0 {
            let mut holders: Vec<P> = clients.iter().cloned().filter(|p| m.balance(c.id(*p)) > 0).collect();
            if holders.is_empty() {
                holders.push(P::C1);
            }
            for (hi, by) in holders.iter().cloned().enumerate() {
                let mut add = |label: &str, amount: i128, reqs: Vec<Req>| {
                    v.push(Act::Alloc { label: label.into(), by, amount, reqs, exts: vec![] });
                };
                add("1 valid request", UNIT, vec![rq(P::M1, 1)]);
                add("1 valid request", UNIT, vec![rq(P::M2, 1)]);
                add("1 valid request", 2 * UNIT, vec![rq(P::M1, 2)]);
                if m.b.allocs >= 2 {
                    add("2 valid requests", 2 * UNIT, vec![rq(P::M1, 1), rq(P::M2, 1)]);
                }
                if hi == 0 || th {
                    add("amount above the requested sizes", 2 * UNIT, vec![rq(P::M1, 1)]);
                    add("amount below the requested sizes", UNIT, vec![rq(P::M1, 1), rq(P::M1, 1)]);
                    add("no request", UNIT, vec![]);
                    add("term below minimum", UNIT, vec![Req { term_min: MINTERM - 1, ..rq(P::M1, 1) }]);
                    add("expiration too far", UNIT, vec![Req { expiration: now + MAXEXP + 1, ..rq(P::M1, 1) }]);
                }
                if th && hi == 0 {
                    add("expiration in the past", UNIT, vec![Req { expiration: now - 1, ..rq(P::M1, 1) }]);
                    add("provider is not a miner", UNIT, vec![Req { provider: P::C2, ..rq(P::M1, 1) }]);
                    add("size below minimum", UNIT / 2, vec![Req { size: UNIT / 2, ..rq(P::M1, 1) }]);
                    add("term max above limit", UNIT, vec![Req { term_max: MAXTERM + 1, ..rq(P::M1, 1) }]);
                }
            }
        }
        // ---- claim extensions paid with datacap
        if m.b.exts > 0 {
            if let Some((cid_, cl)) = m.claims.iter().next() {
                let prov = who_of(cl.provider);
                for by in clients {
                    if m.balance(c.id(by)) == 0 {
                        continue;
                    }
                    let x = Ext { provider: prov, claim: *cid_, term_max: cl.term_max + 10 };
                    v.push(Act::Alloc { label: "extension".into(), by, amount: cl.size, reqs: vec![], exts: vec![x.clone()] });
                    v.push(Act::Alloc { label: "extension, wrong amount".into(), by, amount: cl.size + UNIT, reqs: vec![], exts: vec![x.clone()] });
                    if m.b.allocs > 0 {
                        v.push(Act::Alloc { label: "request + extension".into(), by, amount: cl.size + UNIT, reqs: vec![rq(P::M1, 1)], exts: vec![x.clone()] });
                    }
                    if th {
                        v.push(Act::Alloc { label: "extension of unknown claim".into(), by, amount: UNIT, reqs: vec![], exts: vec![Ext { claim: m.next_id + 5, ..x.clone() }] });
                        v.push(Act::Alloc { label: "extension, wrong provider".into(), by, amount: cl.size, reqs: vec![], exts: vec![Ext { provider: other_miner(prov), ..x }] });
                    }
                }
            }
        }
        // ---- claims
        if m.b.claims > 0 {
            let open: Vec<(u64, AllocM)> = m.allocs.iter().map(|(k, a)| (*k, a.clone())).collect();
            let ce = |aid: u64, a: &AllocM| CE { client: who_of(a.client), id: aid, data: a.data, size: a.size };
            let mut unknown_done = false;
            for (aid, a) in &open {
                let p = who_of(a.provider);
                let q = other_miner(p);
                let ok_exp = now + a.term_min;
                let one = |e: CE, exp: i64| vec![SC { sector: 1, expiry: exp, claims: vec![e] }];
                let mut add = |label: &str, by: P, sectors: Vec<SC>, aon: bool| {
                    v.push(Act::Claim { label: label.into(), by, sectors, aon });
                };
                add("valid", p, one(ce(*aid, a), ok_exp), false);
                add("valid", p, one(ce(*aid, a), ok_exp), true);
                add("foreign provider", q, one(ce(*aid, a), ok_exp), false);
                add("wrong size", p, one(CE { size: a.size + UNIT, ..ce(*aid, a) }, ok_exp), false);
                add("wrong data", p, one(CE { data: a.data + 100, ..ce(*aid, a) }, ok_exp), false);
                add("wrong client", p, one(CE { client: other_client(who_of(a.client)), ..ce(*aid, a) }, ok_exp), false);
                add("sector life below term_min", p, one(ce(*aid, a), now + a.term_min - 1), false);
                add("sector life above term_max", p, one(ce(*aid, a), now + a.term_max + 1), false);
                add("sector life = term_max", p, one(ce(*aid, a), now + a.term_max), false);
                add("id twice in one sector", p, vec![SC { sector: 1, expiry: ok_exp, claims: vec![ce(*aid, a), ce(*aid, a)] }], false);
                add("id in two sectors", p, vec![SC { sector: 1, expiry: ok_exp, claims: vec![ce(*aid, a)] }, SC { sector: 2, expiry: ok_exp, claims: vec![ce(*aid, a)] }], false);
                add("id in two sectors", p, vec![SC { sector: 1, expiry: ok_exp, claims: vec![ce(*aid, a)] }, SC { sector: 2, expiry: ok_exp, claims: vec![ce(*aid, a)] }], true);
                if th {
                    add("by a non-miner", P::Z, one(ce(*aid, a), ok_exp), false);
                    add("by the client", who_of(a.client), one(ce(*aid, a), ok_exp), false);
                }
                if !unknown_done {
                    unknown_done = true;
                    add("unknown id", p, one(CE { id: m.next_id + 3, ..ce(*aid, a) }, ok_exp), false);
                    add("valid + unknown id in second sector", p, vec![SC { sector: 1, expiry: ok_exp, claims: vec![ce(*aid, a)] }, SC { sector: 2, expiry: ok_exp, claims: vec![CE { id: m.next_id + 3, ..ce(*aid, a) }] }], false);
                    add("valid + unknown id in second sector", p, vec![SC { sector: 1, expiry: ok_exp, claims: vec![ce(*aid, a)] }, SC { sector: 2, expiry: ok_exp, claims: vec![CE { id: m.next_id + 3, ..ce(*aid, a) }] }], true);
                    add("no sector", p, vec![], false);
                }
            }
            // pairs
            for i in 0..open.len() {
                for j in (i + 1)..open.len() {
                    let (ia, a) = &open[i];
                    let (ib, b) = &open[j];
                    let p = who_of(a.provider);
                    let exp = now + a.term_min.max(b.term_min);
                    let mut add = |label: &str, sectors: Vec<SC>, aon: bool| {
                        v.push(Act::Claim { label: label.into(), by: p, sectors, aon });
                    };
                    add("two ids in one sector", vec![SC { sector: 3, expiry: exp, claims: vec![ce(*ia, a), ce(*ib, b)] }], false);
                    add("two ids in two sectors", vec![SC { sector: 3, expiry: exp, claims: vec![ce(*ia, a)] }, SC { sector: 4, expiry: exp, claims: vec![ce(*ib, b)] }], false);
                    add("two ids in two sectors", vec![SC { sector: 3, expiry: exp, claims: vec![ce(*ia, a)] }, SC { sector: 4, expiry: exp, claims: vec![ce(*ib, b)] }], true);
                    add("a, b, a in one sector", vec![SC { sector: 3, expiry: exp, claims: vec![ce(*ia, a), ce(*ib, b), ce(*ia, a)] }], false);
                    if th {
                        add("second id with wrong size", vec![SC { sector: 3, expiry: exp, claims: vec![ce(*ia, a)] }, SC { sector: 4, expiry: exp, claims: vec![CE { size: b.size + UNIT, ..ce(*ib, b) }] }], false);
                        add("second id with wrong size", vec![SC { sector: 3, expiry: exp, claims: vec![ce(*ia, a)] }, SC { sector: 4, expiry: exp, claims: vec![CE { size: b.size + UNIT, ..ce(*ib, b) }] }], true);
                    }
                }
            }
            // a claimed / refunded id again (claim after claim, claim after removal)
            for (aid, f) in &m.fate {
                if *f == Fate::Open {
                    continue;
                }
                let (client, provider, data, size) = match m.claims.get(aid) {
                    Some(cl) => (who_of(cl.client), who_of(cl.provider), cl.data, cl.size),
                    None => (P::C1, P::M1, 11, UNIT),
                };
                let exp = now + MINTERM;
                for by in [provider, other_miner(provider)] {
                    v.push(Act::Claim { label: format!("{f:?} id again").to_lowercase(), by, sectors: vec![SC { sector: 9, expiry: exp, claims: vec![CE { client, id: *aid, data, size }] }], aon: false });
                }
            }
        }
        // ---- removal of expired allocations
        if m.b.removes > 0 {
            let with_allocs: BTreeSet<u64> = m.allocs.values().map(|a| a.client).collect();
            for cl in clients {
                if with_allocs.contains(&c.id(cl)) {
                    v.push(Act::RemoveExpiredAllocs { by: P::Z, client: cl, ids: vec![] });
                }
            }
            if with_allocs.is_empty() {
                v.push(Act::RemoveExpiredAllocs { by: P::Z, client: P::C1, ids: vec![] });
            }
            for (aid, a) in &m.allocs {
                let cl = who_of(a.client);
                v.push(Act::RemoveExpiredAllocs { by: P::Z, client: cl, ids: vec![*aid] });
                v.push(Act::RemoveExpiredAllocs { by: cl, client: cl, ids: vec![*aid, *aid] });
                v.push(Act::RemoveExpiredAllocs { by: P::Z, client: other_client(cl), ids: vec![*aid] });
            }
            let ids: Vec<u64> = m.allocs.iter().filter(|a| a.1.client == c.c1.0).map(|a| *a.0).collect();
            if ids.len() >= 2 {
                v.push(Act::RemoveExpiredAllocs { by: P::C2, client: P::C1, ids: ids.clone() });
                v.push(Act::RemoveExpiredAllocs { by: P::C2, client: P::C1, ids: vec![ids[0], m.next_id + 3, ids[1]] });
            }
            for (aid, f) in &m.fate {
                if *f != Fate::Open {
                    let cl = m.claims.get(aid).map(|x| who_of(x.client)).unwrap_or(P::C1);
                    v.push(Act::RemoveExpiredAllocs { by: P::Z, client: cl, ids: vec![*aid] });
                }
            }
        }
        // ---- claims: removal, term extension by the client
        if m.b.claim_removes > 0 {
            let provs: BTreeSet<u64> = m.claims.values().map(|x| x.provider).collect();
            for p in provs {
                v.push(Act::RemoveExpiredClaims { by: P::Z, provider: who_of(p), ids: vec![] });
            }
            for (cid_, cl) in &m.claims {
                v.push(Act::RemoveExpiredClaims { by: P::Z, provider: who_of(cl.provider), ids: vec![*cid_] });
            }
        }
        if m.b.extends > 0 {
            for (cid_, cl) in &m.claims {
                v.push(Act::ExtendClaimTerms { by: who_of(cl.client), terms: vec![(who_of(cl.provider), *cid_, MAXTERM)] });
                v.push(Act::ExtendClaimTerms { by: P::Z, terms: vec![(who_of(cl.provider), *cid_, MAXTERM)] });
            }
        }
        // ---- removal of a client's datacap (root + two verifier signatures)
        if m.b.rdc > 0 && m.verifiers.len() >= 2 {
            for cl in clients {
                if m.balance(c.id(cl)) > 0 {
                    v.push(Act::RemoveDataCap { client: cl, bytes: UNIT, sig: RdcSig::Good });
                    v.push(Act::RemoveDataCap { client: cl, bytes: 5 * UNIT, sig: RdcSig::Good });
                    v.push(Act::RemoveDataCap { client: cl, bytes: UNIT, sig: RdcSig::Tampered });
                    if th {
                        v.push(Act::RemoveDataCap { client: cl, bytes: UNIT, sig: RdcSig::SameVerifierTwice });
                    }
                }
            }
            if th && m.balance(REG) > 0 {
                v.push(Act::RemoveDataCap { client: P::Reg, bytes: UNIT, sig: RdcSig::Good });
            }
        }
        // ---- token operations by clients and strangers
        let mut first_holder = true;
        for cl in clients {
            let bal = m.balance(c.id(cl));
            if bal == 0 {
                continue;
            }
            if m.b.burns > 0 {
                v.push(Act::Burn { by: cl, bytes: UNIT });
                v.push(Act::Burn { by: cl, bytes: bal + UNIT });
            }
            if first_holder || th {
                v.push(Act::Transfer { by: cl, to: other_client(cl), bytes: UNIT });
                v.push(Act::Transfer { by: cl, to: P::Z, bytes: UNIT });
                v.push(Act::TransferFrom { by: P::Z, from: cl, to: P::Z, bytes: UNIT, req: None });
                v.push(Act::TransferFrom { by: P::Z, from: cl, to: P::Reg, bytes: UNIT, req: Some(rq(P::M1, 1)) });
                v.push(Act::Destroy { by: P::Z, owner: cl, bytes: UNIT });
            }
            first_holder = false;
        }
        v.push(Act::Mint { by: P::Z, to: P::Z, bytes: UNIT });
        if th {
            v.push(Act::Mint { by: P::V, to: P::C1, bytes: UNIT });
        }
        // ---- market-mediated path
        if m.b.publishes > 0 && m.b.allocs > 0 {
            v.push(Act::Publish { by: P::O1, client: P::C1, provider: P::M1, piece: 31, start: e });
            v.push(Act::Publish { by: P::O1, client: P::C2, provider: P::M1, piece: 32, start: e });
        }
        if m.b.activations > 0 {
            for (did, d) in &m.deals {
                if !d.activated && d.alloc.map(|a| m.allocs.contains_key(&a)).unwrap_or(false) {
                    let p = who_of(d.provider);
                    v.push(Act::ActivateClaim { by: p, deal: *did, sector: 7 });
                    if th {
                        v.push(Act::ActivateClaim { by: other_miner(p), deal: *did, sector: 7 });
                    }
                }
            }
        }
        // ---- time: the boundaries of every open allocation, then of claims
        if m.b.ticks > 0 {
            let mut t: BTreeSet<i64> = BTreeSet::new();
            for a in m.allocs.values() {
                t.insert(a.expiration - 1);
                t.insert(a.expiration);
                t.insert(a.expiration + 1);
            }
            let mut n = 0;
            for x in t.into_iter().filter(|x| *x > now) {
                v.push(Act::TickTo(x));
                n += 1;
                if n == 3 {
                    break;
                }
            }
            let mut t2: BTreeSet<i64> = BTreeSet::new();
            for cl in m.claims.values() {
                t2.insert(cl.term_start + cl.term_max);
                t2.insert(cl.term_start + cl.term_max + 1);
            }
            if m.b.jumps > 0 {
                for x in t2.into_iter().filter(|x| *x > now).take(2) {
                    v.push(Act::JumpTo(x));
                }
            }
        }
        if self.deep {
            v.retain(core);
        }
        v
    }

    fn step(&self, w: &W, s: &VS<Model>, a: &Act, _faults: &[usize]) -> Step<VS<Model>> {
        let vm = &w.vm;
        let c = &w.cast;
        vm.restore(&s.snap);
        let now = vm.epoch();
        let mut m = s.m.clone();
        let mut viol: Option<String> = None;
        let outcome: &'static str;
        let z = TokenAmount::zero();
        let reg = VERIFIED_REGISTRY_ACTOR_ADDR;
        let dcap = DATACAP_TOKEN_ACTOR_ADDR;
        let acc = |ok: bool| if ok { "accepted" } else { "rejected" };
        let mut bad = |msg: String| {
            if viol.is_none() {
                viol = Some(msg)
            }
        };
        match a {
            Act::AddVerifier { who, bytes } => {
                m.b.root_ops = m.b.root_ops.saturating_sub(1);
                let p = RawBytes::serialize(&VerifierParams { address: id(c.id(*who)), allowance: BigInt::from(*bytes) }).unwrap();
                let (_, applied) = self.propose(vm, VrMethod::AddVerifier as u64, p);
                if applied {
                    m.verifiers.insert(c.id(*who), *bytes);
                }
                outcome = acc(applied);
            }
            Act::RemoveVerifier { who } => {
                m.b.root_ops = m.b.root_ops.saturating_sub(1);
                let p = RawBytes::serialize(&RemoveVerifierParams { verifier: id(c.id(*who)) }).unwrap();
                let (_, applied) = self.propose(vm, VrMethod::RemoveVerifier as u64, p);
                if applied {
                    m.verifiers.remove(&c.id(*who));
                }
                outcome = acc(applied);
            }
            Act::Grant { by, to, bytes } => {
                let r = ext(vm, c.id(*by), &reg, &z, VrMethod::AddVerifiedClient as u64, Some(&VerifierParams { address: id(c.id(*to)), allowance: BigInt::from(*bytes) }));
                let cap = m.verifiers.get(&c.id(*by)).cloned();
                if r.ok() {
                    match cap {
                        None => bad(format!("{by:?} is not a verifier but its AddVerifiedClient({bytes}) was accepted")),
                        Some(cap) if cap < *bytes => bad(format!("verifier {by:?} with allowance {cap} granted {bytes}")),
                        Some(_) => {
                            *m.verifiers.get_mut(&c.id(*by)).unwrap() -= *bytes;
                            m.credit(c.id(*to), *bytes);
                            m.minted += *bytes;
                            m.b.grants = m.b.grants.saturating_sub(1);
                        }
                    }
                }
                outcome = acc(r.ok());
            }
            Act::Alloc { by, amount, reqs, exts, .. } => {
                let prm = TransferParams { to: reg, amount: tok(*amount), operator_data: self.op_data(c, reqs, exts) };
                let r = ext(vm, c.id(*by), &dcap, &z, DcMethod::TransferExported as u64, Some(&prm));
                let req_total: i128 = reqs.iter().map(|r| r.size).sum();
                let mut ext_total: i128 = 0;
                let mut ext_known = true;
                for x in exts {
                    match m.claims.get(&x.claim) {
                        Some(cl) if cl.provider == c.id(x.provider) => ext_total += cl.size,
                        _ => ext_known = false,
                    }
                }
                if r.ok() {
                    if !ext_known {
                        bad("a transfer extending a claim that does not exist was accepted".into());
                    } else if req_total + ext_total != *amount {
                        bad(format!("transfer of {amount} to the registry accepted although the requests total {req_total} (+ {ext_total} for extended claims)"));
                    } else if *amount > m.balance(c.id(*by)) {
                        bad(format!("{by:?} transferred {amount} with a balance of {}", m.balance(c.id(*by))));
                    } else {
                        let ids: Option<Vec<u64>> = r
                            .ret
                            .as_ref()
                            .and_then(|b| b.deserialize::<TransferReturn>().ok())
                            .and_then(|t| fvm_ipld_encoding::from_slice::<AllocationsResponse>(t.recipient_data.bytes()).ok())
                            .map(|x| x.new_allocations);
                        match ids {
                            Some(ids) if ids.len() == reqs.len() => {
                                let mut floor = m.next_id;
                                for (aid, rq) in ids.iter().zip(reqs.iter()) {
                                    if *aid < floor || m.fate.contains_key(aid) || *aid == 0 {
                                        bad(format!("new allocation ids {ids:?} are not fresh increasing ids (next unused {})", m.next_id));
                                        break;
                                    }
                                    floor = *aid + 1;
                                    m.allocs.insert(*aid, AllocM { client: c.id(*by), provider: c.id(rq.provider), data: rq.data, size: rq.size, term_min: rq.term_min, term_max: rq.term_max, expiration: rq.expiration });
                                    m.fate.insert(*aid, Fate::Open);
                                }
                                m.next_id = floor;
                            }
                            other => bad(format!("transfer with {} allocation requests returned allocation ids {:?}", reqs.len(), other)),
                        }
                        m.credit(c.id(*by), -*amount);
                        m.credit(REG, req_total);
                        m.burnt += ext_total;
                        m.b.allocs = m.b.allocs.saturating_sub(reqs.len() as u32);
                        if !exts.is_empty() {
                            m.b.exts = m.b.exts.saturating_sub(1);
                        }
                    }
                }
                outcome = acc(r.ok());
            }
            Act::Claim { by, sectors, aon, .. } => {
                let (o, v) = self.do_claim(vm, c, &mut m, *by, sectors, *aon, now);
                if let Some(v) = v {
                    bad(v);
                }
                if o == "claimed" {
                    m.b.claims = m.b.claims.saturating_sub(1);
                }
                outcome = o;
            }
            Act::RemoveExpiredAllocs { by, client, ids } => {
                let before = alloc_ids(vm);
                let r = ext(vm, c.id(*by), &reg, &z, VrMethod::RemoveExpiredAllocationsExported as u64, Some(&RemoveExpiredAllocationsParams { client: c.id(*client), allocation_ids: ids.clone() }));
                let after = alloc_ids(vm);
                let gone: Vec<u64> = before.difference(&after).cloned().collect();
                let named = |aid: &u64| ids.is_empty() || ids.contains(aid);
                let mut sorted = ids.clone();
                sorted.sort();
                let dup = sorted.windows(2).any(|w| w[0] == w[1]);
                let mut recovered: i128 = 0;
                for aid in &gone {
                    match m.allocs.get(aid).cloned() {
                        Some(al) if al.client == c.id(*client) && named(aid) && now >= al.expiration => {
                            m.allocs.remove(aid);
                            m.fate.insert(*aid, Fate::Refunded);
                            m.credit(al.client, al.size);
                            m.credit(REG, -al.size);
                            recovered += al.size;
                        }
                        other => bad(format!("allocation {aid} ({other:?}) was removed by RemoveExpiredAllocations(client {client:?}, {ids:?}) at epoch {now}")),
                    }
                }
                // named, really expired allocations of that client must go (unless the list is malformed)
                let due: Vec<u64> = m.allocs.iter().filter(|(aid, al)| al.client == c.id(*client) && named(aid) && now > al.expiration).map(|x| *x.0).collect();
                if !due.is_empty() && !dup && (r.ok() || ids.iter().all(|i| due.contains(i))) {
                    bad(format!("allocations {due:?} expired before epoch {now} and were named, but were not removed and refunded: {}", r.tree()));
                }
                if r.ok() {
                    match r.ret.as_ref().map(|b| b.deserialize::<RemoveExpiredAllocationsReturn>()) {
                        Some(Ok(ret)) => {
                            if ret.datacap_recovered != BigInt::from(recovered) {
                                bad(format!("RemoveExpiredAllocations reports {} recovered, removed allocations total {recovered}", ret.datacap_recovered));
                            }
                        }
                        _ => bad("RemoveExpiredAllocations returned no decodable value".into()),
                    }
                }
                if !gone.is_empty() {
                    m.b.removes = m.b.removes.saturating_sub(1);
                }
                outcome = if !gone.is_empty() { "refunded" } else if r.ok() { "nothing removed" } else { "rejected" };
            }
            Act::RemoveExpiredClaims { by, provider, ids } => {
                let before: BTreeSet<u64> = m.claims.keys().cloned().collect();
                let r = ext(vm, c.id(*by), &reg, &z, VrMethod::RemoveExpiredClaimsExported as u64, Some(&RemoveExpiredClaimsParams { provider: c.id(*provider), claim_ids: ids.clone() }));
                let after: BTreeSet<u64> = observe(vm).claims.iter().map(|x| x.1).collect();
                let gone: Vec<u64> = before.difference(&after).cloned().collect();
                for cid_ in &gone {
                    let cl = m.claims.remove(cid_).unwrap();
                    if cl.provider != c.id(*provider) || !(ids.is_empty() || ids.contains(cid_)) {
                        bad(format!("claim {cid_} of provider {} removed by RemoveExpiredClaims(provider {provider:?}, {ids:?})", cl.provider));
                    }
                }
                if !gone.is_empty() {
                    m.b.claim_removes = m.b.claim_removes.saturating_sub(1);
                }
                outcome = if !gone.is_empty() { "claims removed" } else if r.ok() { "nothing removed" } else { "rejected" };
            }
            Act::ExtendClaimTerms { by, terms } => {
                let prm = ExtendClaimTermsParams { terms: terms.iter().map(|(p, cid_, t)| ClaimTerm { provider: c.id(*p), claim_id: *cid_, term_max: *t }).collect() };
                let before: Vec<i64> = observe(vm).claims.iter().map(|x| x.2.term_max).collect();
                let r = ext(vm, c.id(*by), &reg, &z, VrMethod::ExtendClaimTermsExported as u64, Some(&prm));
                let after: Vec<i64> = observe(vm).claims.iter().map(|x| x.2.term_max).collect();
                let changed = before != after;
                if changed {
                    m.b.extends = m.b.extends.saturating_sub(1);
                }
                outcome = if changed { "extended" } else if r.ok() { "nothing extended" } else { "rejected" };
            }
            Act::RemoveDataCap { client, bytes, sig } => {
                let client_addr = id(c.id(*client));
                let vr: VrState = vm.state_of(REG).unwrap();
                let pm = RemoveDataCapProposalMap::load(&vm.store, &vr.remove_data_cap_proposal_ids, REMOVE_DATACAP_PROPOSALS_CONFIG, "rdc").unwrap();
                let request = |vp: P, tamper: bool| -> RemoveDataCapRequest {
                    let pid = pm.get(&AddrPairKey::new(id(c.id(vp)), client_addr)).unwrap().map(|x| x.id).unwrap_or(0);
                    let prop = RemoveDataCapProposal { verified_client: client_addr, data_cap_amount: BigInt::from(*bytes), removal_proposal_id: RemoveDataCapProposalID { id: pid } };
                    let b = RawBytes::serialize(&prop).unwrap();
                    let payload = [SIGNATURE_DOMAIN_SEPARATION_REMOVE_DATA_CAP, b.bytes()].concat();
                    let mut sg = fake_sign(&c.key(vp), &payload);
                    if tamper {
                        sg[5] ^= 4;
                    }
                    RemoveDataCapRequest { verifier: id(c.id(vp)), signature: Signature { sig_type: SignatureType::BLS, bytes: sg } }
                };
                let prm = RemoveDataCapParams {
                    verified_client_to_remove: client_addr,
                    data_cap_amount_to_remove: BigInt::from(*bytes),
                    verifier_request_1: request(P::V, false),
                    verifier_request_2: match sig {
                        RdcSig::Good => request(P::V2, false),
                        RdcSig::Tampered => request(P::V2, true),
                        RdcSig::SameVerifierTwice => request(P::V, false),
                    },
                };
                let (_, applied) = self.propose(vm, VrMethod::RemoveVerifiedClientDataCap as u64, RawBytes::serialize(&prm).unwrap());
                // every proposal advances the multisig's transaction counter: budget per attempt
                m.b.rdc = m.b.rdc.saturating_sub(1);
                if applied {
                    // ledger effect: the client's tokens (at most what it holds) are burnt
                    let burn = m.balance(c.id(*client)).min(*bytes);
                    m.credit(c.id(*client), -burn);
                    m.burnt += burn;
                }
                outcome = acc(applied);
            }
            Act::Burn { by, bytes } => {
                let r = ext(vm, c.id(*by), &dcap, &z, DcMethod::BurnExported as u64, Some(&BurnParams { amount: tok(*bytes) }));
                if r.ok() {
                    if *bytes > m.balance(c.id(*by)) {
                        bad(format!("{by:?} burnt {bytes} with a balance of {}", m.balance(c.id(*by))));
                    }
                    m.credit(c.id(*by), -*bytes);
                    m.burnt += *bytes;
                    m.b.burns = m.b.burns.saturating_sub(1);
                }
                outcome = acc(r.ok());
            }
            Act::Transfer { by, to, bytes } => {
                let r = ext(vm, c.id(*by), &dcap, &z, DcMethod::TransferExported as u64, Some(&TransferParams { to: id(c.id(*to)), amount: tok(*bytes), operator_data: RawBytes::default() }));
                if r.ok() {
                    bad(format!("DataCap transfer from {by:?} to third party {to:?} was accepted (only transfers to or from the registry are permitted)"));
                }
                outcome = acc(r.ok());
            }
            Act::TransferFrom { by, from, to, bytes, req } => {
                let od = match req {
                    Some(rq) => self.op_data(c, std::slice::from_ref(rq), &[]),
                    None => RawBytes::default(),
                };
                let r = ext(vm, c.id(*by), &dcap, &z, DcMethod::TransferFromExported as u64, Some(&TransferFromParams { from: id(c.id(*from)), to: id(c.id(*to)), amount: tok(*bytes), operator_data: od }));
                if r.ok() {
                    bad(format!("stranger {by:?} moved {bytes} of {from:?}'s DataCap to {to:?} without any allowance"));
                }
                outcome = acc(r.ok());
            }
            Act::Mint { by, to, bytes } => {
                let r = ext(vm, c.id(*by), &dcap, &z, DcMethod::MintExported as u64, Some(&MintParams { to: id(c.id(*to)), amount: tok(*bytes), operators: vec![] }));
                if r.ok() {
                    bad(format!("{by:?} minted DataCap directly (only the registry may mint)"));
                }
                outcome = acc(r.ok());
            }
            Act::Destroy { by, owner, bytes } => {
                let r = ext(vm, c.id(*by), &dcap, &z, DcMethod::DestroyExported as u64, Some(&DestroyParams { owner: id(c.id(*owner)), amount: tok(*bytes) }));
                if r.ok() {
                    bad(format!("{by:?} destroyed {owner:?}'s DataCap directly (only the registry may destroy)"));
                }
                outcome = acc(r.ok());
            }
            Act::Publish { by, client, provider, piece, start } => {
                let before = alloc_ids(vm);
                let prm = PublishStorageDealsParams { deals: vec![self.deal_proposal(c, *client, *provider, *piece, *start)] };
                let r = ext(vm, c.id(*by), &STORAGE_MARKET_ACTOR_ADDR, &z, MarketMethod::PublishStorageDeals as u64, Some(&prm));
                let o = observe(vm);
                let new: Vec<&(u64, u64, Allocation)> = o.allocs.iter().filter(|x| !before.contains(&x.1)).collect();
                let mut alloc_id = None;
                if new.len() > 1 || (!r.ok() && !new.is_empty()) {
                    bad(format!("publishing one verified deal created allocations {:?}", new.iter().map(|x| x.1).collect::<Vec<_>>()));
                } else if let Some((_, aid, al)) = new.first() {
                    let ident = al.client == c.id(*client) && al.provider == c.id(*provider) && al.data == data_cid(*piece) && al.size.0 as i128 == UNIT;
                    if !ident {
                        bad(format!("verified deal (client {client:?}, provider {provider:?}, piece {piece}, size {UNIT}) produced allocation {al:?}"));
                    } else if *aid < m.next_id || m.fate.contains_key(aid) {
                        bad(format!("market-made allocation id {aid} is not fresh (next unused {})", m.next_id));
                    } else {
                        // terms chosen by the market are adopted; the ledger effect is not
                        m.allocs.insert(*aid, AllocM { client: al.client, provider: al.provider, data: *piece, size: UNIT, term_min: al.term_min, term_max: al.term_max, expiration: al.expiration });
                        m.fate.insert(*aid, Fate::Open);
                        m.next_id = *aid + 1;
                        m.credit(al.client, -UNIT);
                        m.credit(REG, UNIT);
                        m.b.allocs = m.b.allocs.saturating_sub(1);
                        alloc_id = Some(*aid);
                    }
                }
                if r.ok() {
                    m.b.publishes = m.b.publishes.saturating_sub(1);
                    if let Some(Ok(ret)) = r.ret.as_ref().map(|b| b.deserialize::<PublishStorageDealsReturn>()) {
                        for did in ret.ids {
                            m.deals.insert(did, DealM { client: c.id(*client), provider: c.id(*provider), start: *start, alloc: alloc_id, activated: false });
                        }
                    }
                }
                outcome = if alloc_id.is_some() { "published with allocation" } else if r.ok() { "published without allocation" } else { "rejected" };
            }
            Act::ActivateClaim { by, deal, sector } => {
                let d = m.deals.get(deal).cloned();
                let end = d.as_ref().map(|d| d.start + DEAL_DURATION).unwrap_or(now + DEAL_DURATION);
                let prm = BatchActivateDealsParams {
                    sectors: vec![SectorDeals { sector_number: *sector, sector_type: RegisteredSealProof::StackedDRG32GiBV1P1, sector_expiry: end, deal_ids: vec![*deal] }],
                    compute_cid: false,
                };
                let r = imp(vm, c.id(*by), &STORAGE_MARKET_ACTOR_ADDR, &z, MarketMethod::BatchActivateDeals as u64, Some(&prm));
                let act = r
                    .ret
                    .as_ref()
                    .filter(|_| r.ok())
                    .and_then(|b| b.deserialize::<BatchActivateDealsResult>().ok())
                    .filter(|x| x.activation_results.all_ok())
                    .and_then(|x| x.activations.first().and_then(|s| s.activated.first().cloned()));
                match act {
                    None => outcome = "not activated",
                    Some(ad) => {
                        m.b.activations = m.b.activations.saturating_sub(1);
                        if let Some(dm) = m.deals.get_mut(deal) {
                            dm.activated = true;
                        }
                        if ad.allocation_id == 0 {
                            outcome = "activated, no allocation";
                        } else {
                            // the "miner" claims exactly what the market handed back
                            let client = [P::C1, P::C2].into_iter().find(|p| c.id(*p) == ad.client).unwrap_or(P::Z);
                            let tag = m.allocs.get(&ad.allocation_id).map(|x| x.data).filter(|t| data_cid(*t) == ad.data).unwrap_or(0);
                            let sc = SC { sector: *sector, expiry: end, claims: vec![CE { client, id: ad.allocation_id, data: tag, size: ad.size.0 as i128 }] };
                            let (o, v) = self.do_claim(vm, c, &mut m, *by, &[sc], true, now);
                            if let Some(v) = v {
                                bad(v);
                            }
                            outcome = if o == "claimed" { "activated and claimed" } else { "activated, claim failed" };
                        }
                    }
                }
            }
            Act::TickTo(t) => {
                m.b.ticks = m.b.ticks.saturating_sub(1);
                tick_to(vm, *t);
                outcome = "ok";
            }
            Act::JumpTo(t) => {
                // Neither the registry nor the token is driven by cron: one real tick, then the
                // clock is set. The market's deferred maintenance is not run across the gap, so
                // market-mediated actions and further ticks are switched off afterwards.
                m.b.jumps = m.b.jumps.saturating_sub(1);
                m.b.ticks = 0;
                m.b.publishes = 0;
                m.b.activations = 0;
                vm.tick();
                vm.set_epoch(*t);
                outcome = "ok";
            }
        }
        drop(bad);
        if viol.is_none()
            && let Err(e) = self.compare(vm, c, &mut m)
        {
            viol = Some(e);
        }
        let mut st = Step::new(VS { snap: vm.snapshot(), m }, outcome);
        st.agreed = 1;
        st.violation = viol;
        st
    }

    fn describe(&self) -> serde_json::Value {
        json!({
            "policy": "MAINNET",
            "cast": "root multisig 101 (signer 100, threshold 1); verifiers V, V2; clients C1, C2; stranger Z; two real miner actors M1, M2 (Power.CreateMiner, 32 GiB) whose calls to the registry / market are impersonated; real market, registry, DataCap token",
            "unit_bytes": UNIT.to_string(),
            "verifier_allowance_units": 4,
            "grant_units": [1, 2, 5],
            "allocation_terms": {"term_min": MINTERM, "term_max": MINTERM + 100, "expiration": format!("epoch0 + {SLOT}k")},
            "configuration": if self.deep { "deep: core alphabet only (valid allocation / extension transfers, valid, foreign and repeated claims, removals, burn, market path, time)" } else if self.thorough { "full alphabet incl. thorough-only deviants" } else { "full alphabet" },
            "bases": self.start,
            "budgets": self.budget,
            "time": "TickTo {expiration-1, expiration, expiration+1} of open allocations: sparse ticking (real cron tick wherever the power or market queue has an entry, and at the target); JumpTo {end, end+1} of a claim term: one real cron tick, then the epoch is set (market path and further ticks switched off afterwards)",
            "oracle": "reference token ledger + allocation table compared after every step: all balances, supply = sum = minted - burnt, verifier allowances, registry balance = sum of open allocation sizes, allocation table, claim identities, TotalSupply/Balance probes; per-call accept/reject where the property defines it",
        })
    }
}

const ALL_BASES: [&str; 6] = ["genesis", "granted", "two-verifiers", "allocated", "deal", "claimed"];

pub fn scenario(tier: &str) -> (DataCapScn, Bounds) {
    let budget = Budget { root_ops: 2, grants: 2, allocs: 3, claims: 2, removes: 2, claim_removes: 1, extends: 1, exts: 1, burns: 1, rdc: 1, publishes: 1, activations: 1, ticks: 3, jumps: 1 };
    if tier_is_thorough(tier) {
        (
            DataCapScn { budget, thorough: true, deep: false, bases: ALL_BASES.to_vec(), start: ALL_BASES.to_vec(), tag: "c09/datacap" },
            Bounds { max_depth: 5, wall_cap_s: 700.0, ..Default::default() },
        )
    } else {
        (
            DataCapScn { budget, thorough: false, deep: false, bases: ALL_BASES.to_vec(), start: ALL_BASES.to_vec(), tag: "c09/datacap" },
            Bounds { max_depth: 3, wall_cap_s: 30.0, ..Default::default() },
        )
    }
}

/// Quick tier, second pass: one level deeper from the bases that already hold allocations,
/// a deal or a claim (wall-capped: on a busy machine the fourth level may be cut short).
pub fn quick_d4_scenario() -> (DataCapScn, Bounds) {
    let (mut scn, _) = scenario("quick");
    scn.budget = Budget { root_ops: 1, grants: 1, ..scn.budget };
    scn.start = vec!["allocated", "deal", "claimed"];
    scn.tag = "c09/datacap-d4";
    (scn, Bounds { max_depth: 4, wall_cap_s: 15.0, ..Default::default() })
}

/// Thorough tier, second pass: the core alphabet only, three more levels.
pub fn deep_scenario() -> (DataCapScn, Bounds) {
    let budget = Budget { root_ops: 0, grants: 0, allocs: 3, claims: 3, removes: 3, claim_removes: 1, extends: 0, exts: 1, burns: 1, rdc: 0, publishes: 1, activations: 1, ticks: 4, jumps: 1 };
    (
        DataCapScn { budget, thorough: false, deep: true, bases: ALL_BASES.to_vec(), start: vec!["granted", "allocated", "deal"], tag: "c09/datacap-deep" },
        Bounds { max_depth: 8, wall_cap_s: 500.0, max_states: 4_000_000, ..Default::default() },
    )
}

pub fn run(tier: &str) -> ! {
    let (scn, b) = scenario(tier);
    let mut run = mcx::evidence::Run::new("C09", tier, "model_checking");
    run.assumptions = vec![
        "mcvm mirrors the FVM message semantics (value transfer, rollback, caller validation); signatures are faked but bound to the signer (blake2b(signer key || message))".into(),
        "providers are real miner actors created through Power.CreateMiner; their calls to VerifiedRegistry.ClaimAllocations and Market.BatchActivateDeals are impersonated (the registry's and the market's contract is with miner-typed callers); activation and the following claim are two top-level messages here, one inside the real miner".into(),
        "the verified registry and the DataCap token are not driven by cron, so advancing the epoch is exact for them; TickTo (allocation expiration -1 / 0 / +1) still runs the real cron tick at every epoch at which the power or market queue has an entry and at the target (sparse ticking); JumpTo (end of a claim term, >= 180 days ahead) runs one real cron tick and then sets the epoch, after which market-mediated actions and further ticks are not offered on that history".into(),
        "adopted, not judged: verifier/client eligibility beyond the allowance rule, allocation policy limits, batches naming an id twice inside one sector group (never a second claim, but group failure or message abort are both accepted), removal exactly at epoch == expiration (the implementation allows both claiming and removing at that epoch; each still happens at most once), claim terms (C10), authorisation of RemoveVerifiedClientDataCap, market deal rules".into(),
        "amounts are whole multiples of 1 MiB (the policy minimum); at most 3 allocations, 2 grants, 2 claim messages and 2 removals per history (budgets in the model state)".into(),
    ];
    // base recipes are made of the same judged steps; a recipe step that violates the oracle is a
    // violation of the property (DESIGN §2.6), replayable from the genesis base
    {
        let store = Store::new();
        let w = scn.worker(&store);
        let mut seen: Vec<String> = vec![];
        for (_, script, msg) in &w.failures {
            let sig = format!("{script:?}");
            if seen.contains(&sig) {
                continue;
            }
            seen.push(sig);
            run.extra_violations.push(mcx::ViolationReport {
                scenario: scn.name(),
                base: "genesis".into(),
                path: script.iter().map(|a| mcx::PathStep { action: serde_json::to_value(a).unwrap(), faults: vec![] }).collect(),
                message: format!("base recipe step {}: {msg}", script.len() - 1),
            });
        }
    }
    run.add(mcx::explore(&scn, &b));
    if run.extra_violations.is_empty() && run.reports.iter().all(|r| r.violations.is_empty()) {
        let (second, sb) = if tier_is_thorough(tier) { deep_scenario() } else { quick_d4_scenario() };
        run.add(mcx::explore(&second, &sb));
    }
    run.finish()
}

/// Replay a violation file written by this check; `v` is the parsed replay JSON.
pub fn replay(v: &serde_json::Value) -> ! {
    let tier = v["tier"].as_str().unwrap_or("thorough");
    crate::replay_with(&scenario(tier).0, v)
}
