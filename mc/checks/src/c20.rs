//! C20 — actor identities are unique, stable and derived as specified. DESIGN §3 C20.
//!
//! Scenario `c20/identities`: every history (up to a depth and to small budgets) over Init.Exec,
//! Init.Exec4, EAM.CreateExternal, a factory contract doing CREATE / CREATE2 (same salt twice,
//! destroy-then-redeploy, re-entrant creation, creation inside a DELEGATECALL, state writes and
//! further creations of the outer frame after a nested frame created, reverting constructor), self-destructs and plain
//! sends that auto-create accounts and placeholders, executed against the real actors. After
//! every step the complete actor table, the complete Init address map, `next_id` and the nonce
//! and code of every contract are compared with an id-registry reference model that is written
//! from the property text and from Ethereum's address rules (Yellow Paper §7, EIP-1014, EIP-161,
//! EIP-684), not from the actor source.
use crate::util::*;
use fil_actor_init::{Exec4Params, ExecParams, ExecReturn, State as InitState};
use fil_actors_evm_shared::address::EthAddress;
use fil_actors_runtime::runtime::Policy;
use fil_actors_runtime::runtime::builtins::Type;
use fil_actors_runtime::test_utils::{
    ACCOUNT_ACTOR_CODE_ID, ACTOR_TYPES, CRON_ACTOR_CODE_ID, EVM_ACTOR_CODE_ID, MINER_ACTOR_CODE_ID,
    MULTISIG_ACTOR_CODE_ID, PAYCH_ACTOR_CODE_ID, make_identity_cid,
};
use fil_actors_runtime::{
    DEFAULT_HAMT_CONFIG, EAM_ACTOR_ADDR, EAM_ACTOR_ID, INIT_ACTOR_ADDR, Map2,
    STORAGE_POWER_ACTOR_ADDR,
};
use fvm_ipld_encoding::{BytesDe, RawBytes};
use fvm_shared::address::{Address, Payload, Protocol};
use fvm_shared::econ::TokenAmount;
use fvm_shared::sector::RegisteredPoStProof;
use fvm_shared::{ActorID, METHOD_CONSTRUCTOR, METHOD_SEND};
use mcvm::{FAUCET_ID, Inv, MsgKind, Snapshot, Store, Vm};
use mcx::{Bounds, Key, Scenario, Step};
use multihash_codetable::{Code as MhCode, MultihashDigest};
use num_traits::Zero;
use serde::{Deserialize, Serialize};
use serde_json::json;
use std::collections::{BTreeMap, BTreeSet};
use std::sync::Arc;

// =========================================================================================
// Independent address arithmetic (Ethereum rules)
// =========================================================================================

type Eth = [u8; 20];

fn keccak(data: &[u8]) -> [u8; 32] {
    MhCode::Keccak256.digest(data).digest().try_into().unwrap()
}

/// Minimal RLP: `[20-byte string, unsigned integer]`.
fn rlp_sender_nonce(sender: &Eth, nonce: u64) -> Vec<u8> {
    let mut body = vec![0x80 + 20];
    body.extend_from_slice(sender);
    if nonce == 0 {
        body.push(0x80);
    } else if nonce < 0x80 {
        body.push(nonce as u8);
    } else {
        let be = nonce.to_be_bytes();
        let skip = be.iter().take_while(|b| **b == 0).count();
        body.push(0x80 + (8 - skip) as u8);
        body.extend_from_slice(&be[skip..]);
    }
    assert!(body.len() < 56);
    let mut out = vec![0xc0 + body.len() as u8];
    out.extend(body);
    out
}

/// Yellow Paper: address of a contract created by `sender` with account nonce `nonce`.
fn create_addr(sender: &Eth, nonce: u64) -> Eth {
    keccak(&rlp_sender_nonce(sender, nonce))[12..].try_into().unwrap()
}

/// EIP-1014.
fn create2_addr(sender: &Eth, salt: u8, initcode: &[u8]) -> Eth {
    let mut v = vec![0xff];
    v.extend_from_slice(sender);
    let mut s = [0u8; 32];
    s[31] = salt;
    v.extend_from_slice(&s);
    v.extend_from_slice(&keccak(initcode));
    keccak(&v)[12..].try_into().unwrap()
}

/// Reserved Ethereum address ranges of the FEVM (FIP-0054/0055): the precompile ranges
/// `0x00…00xx` and `0xfe00…00xx` (which include the null address) and masked actor ids
/// `0xff ‖ 0^11 ‖ id`.
fn reserved(a: &Eth) -> bool {
    let mid_zero = a[1..19].iter().all(|b| *b == 0);
    ((a[0] == 0 || a[0] == 0xfe) && mid_zero) || (a[0] == 0xff && a[1..12].iter().all(|b| *b == 0))
}

fn self_test() {
    let h = |s: &str| -> Eth { hex::decode(s).unwrap().try_into().unwrap() };
    // public CREATE / CREATE2 vectors (EIP-1014 example 0 and well-known nonce vectors)
    assert_eq!(create_addr(&[0; 20], 0), h("bd770416a3345f91e4b34576cb804a576fa48eb1"));
    assert_eq!(create_addr(&[0; 20], 200), h("a6b14387c1356b443061155e9c3e17f72c1777e5"));
    assert_eq!(create_addr(&[123; 20], 12345), h("809a9ab0471e78ee5100e96ca4d0828d1b97e2ba"));
    assert_eq!(create2_addr(&[0; 20], 0, &[0x00]), h("4d1a2e2bb4f88f0250f26ffff098b0b30b26bf38"));
    assert!(reserved(&[0; 20]) && reserved(&masked(7)) && !reserved(&[0xE1; 20]));
}

fn masked(id: u64) -> Eth {
    let mut a = [0u8; 20];
    a[0] = 0xff;
    a[12..].copy_from_slice(&id.to_be_bytes());
    a
}

fn f4(eth: &Eth) -> Address {
    Address::new_delegated(EAM_ACTOR_ID, eth).unwrap()
}

fn akey(a: &Address) -> String {
    hex::encode(a.to_bytes())
}

// =========================================================================================
// Bytecode (hand-assembled; the model knows what each program does because it is written here)
// =========================================================================================

mod op {
    pub const STOP: u8 = 0x00;
    pub const ADD: u8 = 0x01;
    pub const EQ: u8 = 0x14;
    pub const BYTE: u8 = 0x1a;
    pub const SHR: u8 = 0x1c;
    pub const CALLER: u8 = 0x33;
    pub const CALLDATALOAD: u8 = 0x35;
    pub const CODECOPY: u8 = 0x39;
    pub const POP: u8 = 0x50;
    pub const SLOAD: u8 = 0x54;
    pub const SSTORE: u8 = 0x55;
    pub const MSTORE: u8 = 0x52;
    pub const MSTORE8: u8 = 0x53;
    pub const JUMPI: u8 = 0x57;
    pub const GAS: u8 = 0x5a;
    pub const JUMPDEST: u8 = 0x5b;
    pub const PUSH0: u8 = 0x5f;
    pub const DUP1: u8 = 0x80;
    pub const CREATE: u8 = 0xf0;
    pub const CALL: u8 = 0xf1;
    pub const RETURN: u8 = 0xf3;
    pub const DELEGATECALL: u8 = 0xf4;
    pub const CREATE2: u8 = 0xf5;
    pub const REVERT: u8 = 0xfd;
    pub const SELFDESTRUCT: u8 = 0xff;
}
use op::*;

enum I {
    B(u8),
    Push(Vec<u8>),
    Label(&'static str),
    PushLabel(&'static str),
}

fn asm(items: &[I]) -> Vec<u8> {
    let mut pos = BTreeMap::new();
    let mut pc = 0usize;
    for i in items {
        match i {
            I::B(_) => pc += 1,
            I::Push(d) => pc += 1 + d.len(),
            I::Label(l) => {
                pos.insert(*l, pc);
                pc += 1;
            }
            I::PushLabel(_) => pc += 3,
        }
    }
    let mut out = vec![];
    for i in items {
        match i {
            I::B(b) => out.push(*b),
            I::Push(d) => {
                assert!(!d.is_empty() && d.len() <= 32);
                out.push(0x5f + d.len() as u8);
                out.extend_from_slice(d);
            }
            I::Label(_) => out.push(JUMPDEST),
            I::PushLabel(l) => {
                let p = pos[l];
                out.extend_from_slice(&[0x61, (p >> 8) as u8, p as u8]);
            }
        }
    }
    out
}

/// Runtime code of a contract that self-destructs (to its caller) whenever it is invoked.
const RT_KILLABLE: &[u8] = &[CALLER, SELFDESTRUCT];
/// Runtime code that does nothing.
const RT_INERT: &[u8] = &[STOP];

/// init code returning `RT_KILLABLE`
fn init_killable() -> Vec<u8> {
    asm(&[I::Push(RT_KILLABLE.to_vec()), I::B(PUSH0), I::B(MSTORE), I::Push(vec![2]), I::Push(vec![30]), I::B(RETURN)])
}
/// init code returning `RT_INERT`
fn init_ok() -> Vec<u8> {
    asm(&[I::B(PUSH0), I::B(PUSH0), I::B(MSTORE8), I::Push(vec![1]), I::B(PUSH0), I::B(RETURN)])
}
fn init_revert() -> Vec<u8> {
    vec![PUSH0, PUSH0, REVERT]
}
/// init code returning the one-byte code 0xEF (EIP-3541 forbids it)
fn init_ef() -> Vec<u8> {
    asm(&[I::Push(vec![0xEF]), I::B(PUSH0), I::B(MSTORE8), I::Push(vec![1]), I::B(PUSH0), I::B(RETURN)])
}
/// init code that self-destructs inside the constructor
fn init_sd() -> Vec<u8> {
    vec![CALLER, SELFDESTRUCT]
}
const FOP_CREATE: u8 = 1;
const FOP_CREATE2: u8 = 2;
const FOP_TWICE: u8 = 3;
const FOP_KILL_RECREATE: u8 = 4;
const FOP_REENTRANT: u8 = 5;
const FOP_REVERTING: u8 = 6;
const FOP_DELEGATE_STORE: u8 = 7;
const FOP_DELEGATE_CREATE: u8 = 8;
const FOP_REENTRANT_STORE: u8 = 9;
const FOP_REENTRANT_STORE_CREATE: u8 = 10;

/// Runtime code of the library: `CREATE(0, 0, 0)` (an empty contract) and return the result word.
/// Executed through DELEGATECALL it creates *as the calling contract*, in a nested frame.
fn library_runtime() -> Vec<u8> {
    asm(&[
        I::B(PUSH0), I::B(PUSH0), I::B(PUSH0), I::B(CREATE),
        I::B(PUSH0), I::B(MSTORE), I::Push(vec![32]), I::B(PUSH0), I::B(RETURN),
    ])
}

/// init code that calls its creator back (`creator.call([FOP_CREATE])`) and returns `RT_INERT`
fn init_reentrant() -> Vec<u8> {
    asm(&[
        I::Push(vec![FOP_CREATE]), I::B(PUSH0), I::B(MSTORE8),
        I::B(PUSH0), I::B(PUSH0), I::Push(vec![1]), I::B(PUSH0), I::B(PUSH0), I::B(CALLER), I::B(GAS), I::B(CALL), I::B(POP),
        I::B(PUSH0), I::B(PUSH0), I::B(MSTORE8),
        I::Push(vec![1]), I::B(PUSH0), I::B(RETURN),
    ])
}

/// The factory. Call data: byte 0 = operation, byte 1 = salt, bytes 2..22 = an address.
/// Every operation returns the 32-byte result word(s) of its CREATE/CREATE2 instruction(s).
fn factory_runtime() -> Vec<u8> {
    let mut v: Vec<I> = vec![];
    let b = |v: &mut Vec<I>, bs: &[u8]| {
        for x in bs {
            v.push(I::B(*x))
        }
    };
    // op = byte(0, calldataload(0))
    b(&mut v, &[PUSH0, CALLDATALOAD, PUSH0, BYTE]);
    for (k, l) in [
        (FOP_CREATE, "create"),
        (FOP_CREATE2, "create2"),
        (FOP_TWICE, "twice"),
        (FOP_KILL_RECREATE, "killre"),
        (FOP_REENTRANT, "reent"),
        (FOP_REVERTING, "revert"),
        (FOP_DELEGATE_STORE, "dstore"),
        (FOP_DELEGATE_CREATE, "dcreate"),
        (FOP_REENTRANT_STORE, "rstore"),
        (FOP_REENTRANT_STORE_CREATE, "rstorecreate"),
    ] {
        b(&mut v, &[DUP1]);
        v.push(I::Push(vec![k]));
        b(&mut v, &[EQ]);
        v.push(I::PushLabel(l));
        b(&mut v, &[JUMPI]);
    }
    b(&mut v, &[STOP]);
    let ret_word = |v: &mut Vec<I>| {
        // mstore(0, top); return(0, 32)
        v.push(I::B(PUSH0));
        v.push(I::B(MSTORE));
        v.push(I::Push(vec![32]));
        v.push(I::B(PUSH0));
        v.push(I::B(RETURN));
    };
    // store `code` right-aligned in memory word 0; returns (offset, len)
    let stage = |v: &mut Vec<I>, code: Vec<u8>| -> (u8, u8) {
        let n = code.len() as u8;
        v.push(I::Push(code));
        v.push(I::B(PUSH0));
        v.push(I::B(MSTORE));
        (32 - n, n)
    };
    let do_create = |v: &mut Vec<I>, (off, n): (u8, u8)| {
        v.push(I::Push(vec![n]));
        v.push(I::Push(vec![off]));
        v.push(I::B(PUSH0));
        v.push(I::B(CREATE));
    };
    let do_create2 = |v: &mut Vec<I>, (off, n): (u8, u8)| {
        // salt = byte(1, calldataload(0))
        v.push(I::B(PUSH0));
        v.push(I::B(CALLDATALOAD));
        v.push(I::Push(vec![1]));
        v.push(I::B(BYTE));
        v.push(I::Push(vec![n]));
        v.push(I::Push(vec![off]));
        v.push(I::B(PUSH0));
        v.push(I::B(CREATE2));
    };

    v.push(I::Label("create"));
    let s = stage(&mut v, init_killable());
    do_create(&mut v, s);
    ret_word(&mut v);

    v.push(I::Label("create2"));
    let s = stage(&mut v, init_killable());
    do_create2(&mut v, s);
    ret_word(&mut v);

    v.push(I::Label("twice"));
    let s = stage(&mut v, init_killable());
    do_create2(&mut v, s);
    v.push(I::Push(vec![32]));
    v.push(I::B(MSTORE));
    do_create2(&mut v, s);
    v.push(I::Push(vec![64]));
    v.push(I::B(MSTORE));
    v.push(I::Push(vec![64]));
    v.push(I::Push(vec![32]));
    v.push(I::B(RETURN));

    v.push(I::Label("killre"));
    // call(gas, address(calldata[2..22]), 0, 0, 0, 0, 0)
    b(&mut v, &[PUSH0, PUSH0, PUSH0, PUSH0, PUSH0]);
    v.push(I::Push(vec![2]));
    v.push(I::B(CALLDATALOAD));
    v.push(I::Push(vec![96]));
    b(&mut v, &[SHR, GAS, CALL, POP]);
    let s = stage(&mut v, init_killable());
    do_create2(&mut v, s);
    ret_word(&mut v);

    v.push(I::Label("reent"));
    let s = stage(&mut v, init_reentrant());
    do_create(&mut v, s);
    ret_word(&mut v);

    v.push(I::Label("revert"));
    let s = stage(&mut v, init_revert());
    do_create(&mut v, s);
    ret_word(&mut v);

    // The operations below make the outer frame touch its own state *after* a nested frame of
    // this same contract has created (and so consumed a nonce).
    // sstore(0, sload(0) + 1): always a change
    let bump_slot = |v: &mut Vec<I>| {
        v.push(I::B(PUSH0));
        v.push(I::B(SLOAD));
        v.push(I::Push(vec![1]));
        v.push(I::B(ADD));
        v.push(I::B(PUSH0));
        v.push(I::B(SSTORE));
    };
    // delegatecall(gas, address(calldata[2..22]), 0, 0, 64, 32); pop
    let delegate = |v: &mut Vec<I>| {
        v.push(I::Push(vec![32]));
        v.push(I::Push(vec![64]));
        v.push(I::B(PUSH0));
        v.push(I::B(PUSH0));
        v.push(I::Push(vec![2]));
        v.push(I::B(CALLDATALOAD));
        v.push(I::Push(vec![96]));
        v.push(I::B(SHR));
        v.push(I::B(GAS));
        v.push(I::B(DELEGATECALL));
        v.push(I::B(POP));
    };
    // mstore(at, top)
    let store_at = |v: &mut Vec<I>, at: u8| {
        v.push(I::Push(vec![at]));
        v.push(I::B(MSTORE));
    };
    // return(64, n)
    let ret_from_64 = |v: &mut Vec<I>, n: u8| {
        v.push(I::Push(vec![n]));
        v.push(I::Push(vec![64]));
        v.push(I::B(RETURN));
    };

    v.push(I::Label("dstore"));
    delegate(&mut v); // mem[64..96] = the library's result word
    bump_slot(&mut v);
    ret_from_64(&mut v, 32);

    v.push(I::Label("dcreate"));
    delegate(&mut v);
    let s = stage(&mut v, init_killable());
    do_create(&mut v, s);
    store_at(&mut v, 96);
    ret_from_64(&mut v, 64);

    v.push(I::Label("rstore"));
    let s = stage(&mut v, init_reentrant());
    do_create(&mut v, s);
    store_at(&mut v, 64);
    bump_slot(&mut v);
    ret_from_64(&mut v, 32);

    v.push(I::Label("rstorecreate"));
    let s = stage(&mut v, init_reentrant());
    do_create(&mut v, s);
    store_at(&mut v, 64);
    bump_slot(&mut v);
    let s = stage(&mut v, init_killable());
    do_create(&mut v, s);
    store_at(&mut v, 96);
    ret_from_64(&mut v, 64);

    asm(&v)
}

/// Generic deployer: init code that returns `runtime`.
fn init_returning(runtime: &[u8]) -> Vec<u8> {
    let n = runtime.len();
    let len = vec![(n >> 8) as u8, n as u8];
    let mut c = asm(&[
        I::Push(len.clone()), I::Push(vec![0, 13]), I::B(PUSH0), I::B(CODECOPY),
        I::Push(len), I::B(PUSH0), I::B(RETURN),
    ]);
    assert_eq!(c.len(), 13);
    c.extend_from_slice(runtime);
    c
}

// =========================================================================================
// Alphabet
// =========================================================================================

#[derive(Clone, Copy, Debug, Serialize, Deserialize, PartialEq, Eq, PartialOrd, Ord)]
pub enum Caller {
    /// a key account (External message)
    Account,
    /// a multisig actor (impersonated)
    Multisig,
    /// the power actor (impersonated)
    Power,
    /// the Ethereum address manager (impersonated)
    Eam,
}

#[derive(Clone, Copy, Debug, Serialize, Deserialize, PartialEq, Eq)]
pub enum Code {
    MultisigOk,
    MultisigBadParams,
    Paych,
    Miner,
    Account,
    Evm,
    Junk,
    Singleton,
}

#[derive(Clone, Copy, Debug, Serialize, Deserialize, PartialEq, Eq, PartialOrd, Ord)]
pub enum Sender {
    /// the key account K
    Account,
    /// the Ethereum account E (a placeholder until its first message)
    EthAccount,
}

#[derive(Clone, Copy, Debug, Serialize, Deserialize, PartialEq, Eq)]
pub enum InitCode {
    Empty,
    Ok,
    Reverting,
    EfCode,
    SelfDestructing,
}

#[derive(Clone, Copy, Debug, Serialize, Deserialize, PartialEq, Eq)]
pub enum Sub {
    /// a fixed, otherwise unused Ethereum address
    Fresh,
    /// the address that `Send(Placeholder)` turns into a placeholder
    PlaceholderAddr,
    /// the factory's address (a live contract)
    Factory,
}

#[derive(Clone, Copy, Debug, Serialize, Deserialize, PartialEq, Eq)]
pub enum FOp {
    Create,
    Create2(u8),
    /// two CREATE2 with the same salt and init code in one message
    Create2Twice(u8),
    /// call the CREATE2 child (it self-destructs), then CREATE2 it again in the same message
    KillAndRecreate(u8),
    /// CREATE of a child whose constructor calls the factory back, which CREATEs again
    CreateReentrant,
    /// CREATE of a child whose constructor reverts
    CreateReverting,
    /// DELEGATECALL a library whose code CREATEs (a nested frame of the factory creates), then
    /// the outer frame writes a storage slot
    DelegateCreateThenStore,
    /// the same, then the outer frame CREATEs itself
    DelegateCreateThenCreate,
    /// `CreateReentrant`, then the outer frame writes a storage slot
    ReentrantCreateThenStore,
    /// `CreateReentrant`, then the outer frame writes a storage slot and CREATEs again
    ReentrantCreateThenStoreAndCreate,
}

#[derive(Clone, Copy, Debug, Serialize, Deserialize, PartialEq, Eq)]
pub enum To {
    FreshSecp,
    FreshBls,
    Placeholder,
    ForeignNamespace,
    Precompile,
    NativePrecompile,
    MaskedId,
    Null,
    /// the address the factory's CREATE2(salt) will produce
    Create2Addr(u8),
    /// the address the factory's next CREATE will produce
    NextCreateAddr,
    /// the address the next CreateExternal of that sender will produce
    NextCreateExternalAddr(Sender),
}

#[derive(Clone, Debug, Serialize, Deserialize, PartialEq, Eq)]
pub enum Act {
    Exec(Caller, Code),
    /// the real `Power.CreateMiner` (power calls `Init.Exec` itself)
    PowerCreateMiner,
    Exec4(Caller, Sub),
    CreateExternal(Sender, InitCode),
    Factory(FOp),
    /// an account invokes the factory's CREATE2(salt) child
    InvokeChild(u8),
    Send(To),
}

// =========================================================================================
// The id-registry reference model
// =========================================================================================

#[derive(Clone, Copy, Debug, Serialize, PartialEq, Eq)]
pub enum Kind {
    Account,
    EthAccount,
    Placeholder,
    Evm,
    Multisig,
    Paych,
    Miner,
    /// singletons and everything else present in the base state
    Other,
}

fn kind_of(code: &cid::Cid) -> Kind {
    match ACTOR_TYPES.get(code) {
        Some(Type::Account) => Kind::Account,
        Some(Type::EthAccount) => Kind::EthAccount,
        Some(Type::Placeholder) => Kind::Placeholder,
        Some(Type::EVM) => Kind::Evm,
        Some(Type::Multisig) => Kind::Multisig,
        Some(Type::PaymentChannel) => Kind::Paych,
        Some(Type::Miner) => Kind::Miner,
        _ => Kind::Other,
    }
}

#[derive(Clone, Debug, Serialize, PartialEq, Eq)]
pub struct Ent {
    pub kind: Kind,
    /// delegated (f4) address, hex of the address bytes
    pub f4: Option<String>,
}

#[derive(Clone, Copy, Debug, Serialize, PartialEq, Eq)]
pub enum Rt {
    Factory,
    Killable,
    Inert,
    Empty,
    Library,
}

#[derive(Clone, Debug, Serialize, PartialEq, Eq)]
pub struct EvmM {
    /// Ethereum account nonce of the contract (EIP-161: starts at 1, +1 per CREATE/CREATE2)
    pub nonce: u64,
    /// self-destructed in an earlier message
    pub dead: bool,
    pub rt: Rt,
}

#[derive(Clone, Debug, Serialize)]
pub struct Model {
    pub next_id: ActorID,
    /// Not serialised into the state key: after every step these two maps are required to be
    /// *equal* to the implementation's actor table / Init map, which the state root commits to.
    #[serde(skip)]
    pub actors: Arc<BTreeMap<ActorID, Ent>>,
    /// the complete address registry: hex(address bytes) -> id
    #[serde(skip)]
    pub addrs: Arc<BTreeMap<String, ActorID>>,
    pub evm: BTreeMap<ActorID, EvmM>,
    /// CID of the Init actor's state the registry was last compared with (same CID, same content)
    #[serde(skip)]
    pub init_head: Option<cid::Cid>,
    /// impersonated callers that already created an actor: the VM derives the stable address of
    /// a new actor from (origin, origin nonce, counter) and an impersonated actor has no nonce,
    /// so its next creation repeats the address – which must be refused, never remapped.
    pub imp_used: BTreeSet<Caller>,
    pub creations_left: u32,
    pub kills_left: u32,
    pub idle_left: u32,
}

#[derive(Clone, Copy, Debug, PartialEq, Eq)]
enum Target {
    Free,
    Placeholder(ActorID),
    Live(ActorID),
    /// self-destructed earlier in the current message
    Zombie(ActorID),
    Dead(ActorID),
    Occupied(ActorID),
}

#[derive(Clone, Copy, Debug, PartialEq, Eq)]
enum Must {
    Succeed,
    Fail,
    Either,
}

#[derive(Clone, Copy, Debug, PartialEq, Eq)]
enum Ctor {
    Valid,
    Reverts,
    /// the property does not say whether this constructor succeeds (EIP-3541 code, a
    /// constructor that self-destructs, bad multisig parameters)
    Unspecified,
}

/// What the property says about a deployment to `t`.
fn deploy_rule(t: Target, is_reserved: bool, ctor: Ctor) -> Must {
    if is_reserved {
        return Must::Fail; // reserved ranges are never assigned
    }
    if ctor == Ctor::Reverts {
        return Must::Fail;
    }
    match t {
        Target::Free | Target::Placeholder(_) => {
            if ctor == Ctor::Valid { Must::Succeed } else { Must::Either }
        }
        // never overwrites an existing actor …
        Target::Live(_) | Target::Occupied(_) => Must::Fail,
        // … other than a self-destructed contract: allowed, not demanded
        Target::Zombie(_) | Target::Dead(_) => Must::Either,
    }
}

/// What the model expects a step to do to the budgets, known before the message is executed.
#[derive(Clone, Copy, Debug, PartialEq, Eq)]
enum Forecast {
    Creates,
    Kills,
    /// changes nothing in the registry but the sender's nonce / a contract nonce
    Idle,
    /// refused message of an impersonated caller: leads back to the same state
    Nothing,
    Unknown,
}

fn forecast_of(must: Must, sender_has_nonce: bool) -> Forecast {
    match must {
        Must::Succeed => Forecast::Creates,
        Must::Fail => {
            if sender_has_nonce { Forecast::Idle } else { Forecast::Nothing }
        }
        Must::Either => Forecast::Unknown,
    }
}

/// Steps beyond the budgets are not part of the explored space; when the model is definite
/// about the class of a step it is pruned without being executed.
fn pruned(m: &Model, f: Forecast) -> bool {
    match f {
        Forecast::Creates => m.creations_left == 0,
        Forecast::Kills => m.kills_left == 0,
        Forecast::Idle => m.idle_left == 0,
        Forecast::Nothing | Forecast::Unknown => false,
    }
}

/// Per-step working copy of the model.
struct Tx {
    m: Model,
    zombies: BTreeSet<ActorID>,
    /// ids that must have gained exactly one new stable (f2) address in this step
    robust_gain: Vec<ActorID>,
    promotions: u32,
    resurrections: u32,
    kills: u32,
    viol: Option<String>,
    /// the actor table of the registry before the step
    before: Arc<BTreeMap<ActorID, Ent>>,
}

impl Tx {
    fn fail(&mut self, s: String) {
        if self.viol.is_none() {
            self.viol = Some(s);
        }
    }

    /// "Failed constructors leave neither actor nor mapping": for every constructor call made by
    /// the Init actor that failed (and was not followed by a successful one for the same id in the
    /// same message), the id holds afterwards what it held before the message – nothing, or the
    /// placeholder the deployment was aimed at. (Mappings are covered by the registry comparison.)
    fn failed_constructors(&mut self, vm: &Vm, r: &Inv) {
        let init = INIT_ACTOR_ADDR.id().unwrap();
        let flat = r.flat();
        for (i, inv) in flat.iter().enumerate() {
            if inv.method != METHOD_CONSTRUCTOR || inv.from != init || inv.code.is_success() {
                continue;
            }
            let Some(tid) = inv.to_id() else { continue };
            let redone = flat[i + 1..].iter().any(|x| {
                x.method == METHOD_CONSTRUCTOR && x.from == init && x.code.is_success() && x.to_id() == Some(tid)
            });
            if redone {
                continue;
            }
            let now = vm.actor(tid).map(|a| kind_of(&a.code));
            let was = self.before.get(&tid).map(|e| e.kind);
            if now != was {
                self.fail(format!(
                    "the constructor of actor {tid} failed, yet the id holds {now:?} after the message (before: {was:?})\n{}",
                    r.tree()
                ));
            }
        }
    }

    fn judge(&mut self, vm: &Vm, must: Must, ok: bool, what: &str, r: &Inv) {
        self.failed_constructors(vm, r);
        match (must, ok) {
            (Must::Succeed, false) => self.fail(format!(
                "{what}: a creation the property permits failed\n{}",
                r.tree()
            )),
            (Must::Fail, true) => self.fail(format!("{what}: must be refused, but it succeeded")),
            _ => {}
        }
    }

    fn target(&self, eth: &Eth) -> Target {
        match self.m.addrs.get(&akey(&f4(eth))) {
            None => Target::Free,
            Some(&id) => match self.m.actors.get(&id).map(|e| e.kind) {
                Some(Kind::Placeholder) => Target::Placeholder(id),
                Some(Kind::Evm) => {
                    if self.zombies.contains(&id) {
                        Target::Zombie(id)
                    } else if self.m.evm[&id].dead {
                        Target::Dead(id)
                    } else {
                        Target::Live(id)
                    }
                }
                _ => Target::Occupied(id),
            },
        }
    }

    fn new_actor(&mut self, kind: Kind, addr: Option<&Address>, via_init: bool) -> ActorID {
        let id = self.m.next_id;
        self.m.next_id += 1;
        let is_f4 = addr.map(|a| a.protocol() == Protocol::Delegated).unwrap_or(false);
        Arc::make_mut(&mut self.m.actors).insert(id, Ent { kind, f4: if is_f4 { addr.map(akey) } else { None } });
        if let Some(a) = addr {
            Arc::make_mut(&mut self.m.addrs).insert(akey(a), id);
        }
        if via_init {
            self.robust_gain.push(id);
        }
        id
    }

    /// A deployment to `eth` succeeded: update the registry.
    /// `reincarnation_gains_address`: a new incarnation made by Init directly (not through the
    /// contract's own resurrection entry point) gets a further stable address.
    fn deployed(&mut self, eth: &Eth, rt: Rt, selfdestructed_in_ctor: bool, reincarnation_gains_address: bool) -> ActorID {
        let fresh = EvmM { nonce: 1, dead: false, rt };
        let id = match self.target(eth) {
            Target::Free => self.new_actor(Kind::Evm, Some(&f4(eth)), true),
            Target::Placeholder(id) => {
                Arc::make_mut(&mut self.m.actors).get_mut(&id).unwrap().kind = Kind::Evm;
                self.robust_gain.push(id);
                self.promotions += 1;
                id
            }
            Target::Zombie(id) | Target::Dead(id) => {
                // a new incarnation at the same id: nothing in the registry moves
                self.zombies.remove(&id);
                self.resurrections += 1;
                if reincarnation_gains_address {
                    self.robust_gain.push(id);
                }
                id
            }
            Target::Live(id) | Target::Occupied(id) => id, // already reported by `judge`
        };
        self.m.evm.insert(id, fresh);
        if selfdestructed_in_ctor {
            self.zombies.insert(id);
        }
        id
    }
}

// =========================================================================================
// Scenario
// =========================================================================================

pub struct Cast {
    pub k: (ActorID, Address),
    pub k2: ActorID,
    pub msig: ActorID,
    pub e: ActorID,
    pub e_eth: Eth,
    pub f: ActorID,
    pub f_eth: Eth,
    /// the library contract (deployed by K through the EAM)
    pub l: ActorID,
    pub l_eth: Eth,
    /// FIP-0055: the Ethereum-style address of a native account is the keccak hash of its key address
    pub k_stable: Eth,
}

pub struct W {
    pub vm: Vm,
    pub cast: Cast,
    pub base: Snapshot,
    pub base_model: Model,
    /// a property violation seen while building the base state (reported by the first step)
    pub base_problem: Option<String>,
    /// keccak of the runtime code of each contract kind [Factory, Killable, Inert, Empty, Library]
    pub code_hash: [[u8; 32]; 5],
}

pub struct Identities {
    pub creations: u32,
    pub kills: u32,
    pub idle: u32,
}

const E_ETH: Eth = [0xE1; 20];
const P1_ETH: Eth = [0xA1; 20];
const X1_ETH: Eth = [0xB2; 20];
const POWER_ID: ActorID = 4;
/// attached to every miner creation (far above the creation deposit, ~32 FIL at this network state)
const MINER_VALUE_FIL: i64 = 1000;

fn caller_id(w: &W, c: Caller) -> ActorID {
    match c {
        Caller::Account => w.cast.k.0,
        Caller::Multisig => w.cast.msig,
        Caller::Power => POWER_ID,
        Caller::Eam => EAM_ACTOR_ID,
    }
}

fn init_code(i: InitCode) -> (Vec<u8>, Ctor, Rt) {
    match i {
        InitCode::Empty => (vec![], Ctor::Valid, Rt::Empty),
        InitCode::Ok => (init_ok(), Ctor::Valid, Rt::Inert),
        InitCode::Reverting => (init_revert(), Ctor::Reverts, Rt::Empty),
        InitCode::EfCode => (init_ef(), Ctor::Unspecified, Rt::Empty),
        InitCode::SelfDestructing => (init_sd(), Ctor::Unspecified, Rt::Empty),
    }
}

fn rt_code(rt: Rt) -> Vec<u8> {
    match rt {
        Rt::Factory => factory_runtime(),
        Rt::Killable => RT_KILLABLE.to_vec(),
        Rt::Inert => RT_INERT.to_vec(),
        Rt::Empty => vec![],
        Rt::Library => library_runtime(),
    }
}

fn read_addr_map(vm: &Vm) -> (ActorID, BTreeMap<String, ActorID>) {
    let st: InitState = vm.state_of(INIT_ACTOR_ADDR.id().unwrap()).expect("init state");
    let map: Map2<&Store, Address, ActorID> =
        Map2::load(&vm.store, &st.address_map, DEFAULT_HAMT_CONFIG, "addresses").expect("init address map");
    let mut out = BTreeMap::new();
    map.for_each(|k, v| {
        out.insert(akey(&k), *v);
        Ok(())
    })
    .expect("init address map walk");
    (st.next_id, out)
}

fn is_f2_key(k: &str) -> bool {
    k.starts_with("02")
}

fn evm_ctor(creator: &Eth, initcode: &[u8]) -> RawBytes {
    RawBytes::serialize(fil_actor_evm::ConstructorParams {
        creator: EthAddress(*creator),
        initcode: RawBytes::new(initcode.to_vec()),
    })
    .unwrap()
}

impl Identities {
    /// Registry as the implementation presents it (used once, for the base state).
    fn observe(&self, vm: &Vm) -> Model {
        let (next_id, addrs) = read_addr_map(vm);
        let mut actors = BTreeMap::new();
        let mut evm = BTreeMap::new();
        for (id, a) in vm.actor_states() {
            let kind = kind_of(&a.code);
            actors.insert(id, Ent { kind, f4: a.delegated_address.as_ref().map(akey) });
            if kind == Kind::Evm {
                let st: fil_actor_evm::State = vm.state_of(id).expect("evm state");
                evm.insert(id, EvmM { nonce: st.nonce, dead: false, rt: Rt::Factory });
            }
        }
        Model {
            next_id,
            actors: Arc::new(actors),
            addrs: Arc::new(addrs),
            evm,
            init_head: vm.actor(INIT_ACTOR_ADDR.id().unwrap()).map(|a| a.state),
            imp_used: BTreeSet::new(),
            creations_left: self.creations,
            kills_left: self.kills,
            idle_left: self.idle,
        }
    }

    /// Compare the implementation with the registry model. `before` is the registry before
    /// the step.
    fn compare(&self, w: &W, before: &Model, tx: &mut Tx) {
        let vm = &w.vm;
        let head = vm.actor(INIT_ACTOR_ADDR.id().unwrap()).map(|a| a.state);
        let next_id;
        if head.is_some() && head == before.init_head {
            // the Init actor's state is bit-identical: no id was allocated, no address was mapped
            next_id = before.next_id;
            if tx.m.next_id != before.next_id || tx.m.addrs != before.addrs || !tx.robust_gain.is_empty() {
                tx.fail(format!(
                    "the registry model expects next_id {} and {} new mapping(s), but the Init actor's state did not change (next_id {})",
                    tx.m.next_id,
                    tx.m.addrs.len() as i64 - before.addrs.len() as i64,
                    before.next_id
                ));
                return;
            }
        } else {
            let (nid, impl_map) = read_addr_map(vm);
            next_id = nid;
            if next_id != tx.m.next_id {
                tx.fail(format!("next_id is {next_id}, the registry model expects {}", tx.m.next_id));
                return;
            }
            // 1. stability: every address that was mapped still maps to the same id
            for (a, id) in before.addrs.iter() {
                match impl_map.get(a) {
                    Some(x) if x == id => {}
                    other => {
                        tx.fail(format!("address {a} was mapped to id {id} and is now mapped to {other:?}"));
                        return;
                    }
                }
            }
            // 2. new mappings: exactly the predicted key/f4 addresses; one new stable address for each
            //    actor created through Init (its value is the VM's business and is adopted)
            let mut gained: Vec<ActorID> = vec![];
            for (a, id) in &impl_map {
                if before.addrs.contains_key(a) {
                    continue;
                }
                if is_f2_key(a) {
                    gained.push(*id);
                } else if tx.m.addrs.get(a) != Some(id) {
                    tx.fail(format!("unexpected new mapping {a} -> {id} (model: {:?})", tx.m.addrs.get(a)));
                    return;
                }
            }
            for (a, id) in tx.m.addrs.iter() {
                if !impl_map.contains_key(a) {
                    tx.fail(format!("the model expects the mapping {a} -> {id}, the Init map has none"));
                    return;
                }
            }
            gained.sort();
            let mut want = tx.robust_gain.clone();
            want.sort();
            if gained != want {
                tx.fail(format!("new stable (f2) addresses were mapped to ids {gained:?}, expected one each for {want:?}"));
                return;
            }
            tx.m.addrs = Arc::new(impl_map);
        }
        tx.m.init_head = head;
        // 3. the actor table: ids, code kind and delegated address
        let table = vm.actor_states();
        for (id, a) in &table {
            let kind = kind_of(&a.code);
            let f4a = a.delegated_address.as_ref().map(akey);
            match tx.m.actors.get(id) {
                None => {
                    tx.fail(format!("actor {id} ({kind:?}, f4 {f4a:?}) exists but the registry model has no such id"));
                    return;
                }
                Some(e) => {
                    if e.kind != kind || e.f4 != f4a {
                        let was = before.actors.get(id);
                        tx.fail(format!("actor {id} is ({kind:?}, f4 {f4a:?}); the registry model expects ({:?}, f4 {:?}); before the step: {was:?}", e.kind, e.f4));
                        return;
                    }
                }
            }
            if *id >= next_id {
                tx.fail(format!("actor id {id} is not below next_id {next_id}"));
                return;
            }
            // reserved ranges are never assigned (a placeholder made by a plain send is the VM's
            // doing and holds no code)
            if let Some(Payload::Delegated(d)) = a.delegated_address.as_ref().map(|d| *d.payload())
                && d.namespace() == EAM_ACTOR_ID
                && let Ok(eth) = <Eth>::try_from(d.subaddress())
                && reserved(&eth)
                && kind != Kind::Placeholder
            {
                tx.fail(format!("actor {id} ({kind:?}) holds the reserved Ethereum address 0x{}", hex::encode(eth)));
                return;
            }
        }
        for id in tx.m.actors.keys() {
            if !table.contains_key(id) {
                tx.fail(format!("the registry model has actor {id} ({:?}) but the actor table does not", tx.m.actors[id]));
                return;
            }
        }
        // 4. contracts: nonce and (for live ones) code
        for (id, e) in &tx.m.evm {
            let Some(st) = vm.state_of::<fil_actor_evm::State>(*id) else {
                tx.fail(format!("contract {id} has no decodable EVM state"));
                return;
            };
            if st.nonce != e.nonce {
                let was = before.evm.get(id).map(|x| x.nonce);
                tx.fail(format!("contract {id} has nonce {}, Ethereum's rules give {} (before the step: {was:?}); the nonce counts every CREATE/CREATE2 of the contract, in whichever call frame, and never goes back", st.nonce, e.nonce));
                return;
            }
            if !e.dead && !tx.zombies.contains(id) && st.bytecode_hash.as_slice() != w.code_hash[e.rt as usize] {
                tx.fail(format!("live contract {id} no longer has the code it was deployed with ({:?})", e.rt));
                return;
            }
        }
    }

    fn exec_params(&self, w: &W, code: Code) -> (cid::Cid, RawBytes, TokenAmount, Kind) {
        let k = id(w.cast.k.0);
        match code {
            Code::MultisigOk | Code::MultisigBadParams => (
                *MULTISIG_ACTOR_CODE_ID,
                RawBytes::serialize(fil_actor_multisig::ConstructorParams {
                    signers: if code == Code::MultisigOk { vec![k] } else { vec![] },
                    num_approvals_threshold: 1,
                    unlock_duration: 0,
                    start_epoch: 0,
                })
                .unwrap(),
                TokenAmount::zero(),
                Kind::Multisig,
            ),
            Code::Paych => (
                *PAYCH_ACTOR_CODE_ID,
                RawBytes::serialize(fil_actor_paych::ConstructorParams { from: k, to: id(w.cast.k2) }).unwrap(),
                TokenAmount::zero(),
                Kind::Paych,
            ),
            Code::Miner => (
                *MINER_ACTOR_CODE_ID,
                RawBytes::serialize(fil_actor_miner::MinerConstructorParams {
                    owner: k,
                    worker: k,
                    control_addresses: vec![],
                    window_post_proof_type: RegisteredPoStProof::StackedDRGWindow32GiBV1P1,
                    peer_id: b"miner".to_vec(),
                    multi_addresses: vec![BytesDe(b"multiaddr".to_vec())],
                })
                .unwrap(),
                fil(MINER_VALUE_FIL),
                Kind::Miner,
            ),
            Code::Account => (
                *ACCOUNT_ACTOR_CODE_ID,
                RawBytes::serialize(Address::new_bls(&[0x5A; 48]).unwrap()).unwrap(),
                TokenAmount::zero(),
                Kind::Account,
            ),
            Code::Evm => (
                *EVM_ACTOR_CODE_ID,
                evm_ctor(&masked(w.cast.k.0), &init_ok()),
                TokenAmount::zero(),
                Kind::Evm,
            ),
            Code::Junk => (make_identity_cid(b"c20/junk"), RawBytes::default(), TokenAmount::zero(), Kind::Other),
            Code::Singleton => (*CRON_ACTOR_CODE_ID, RawBytes::default(), TokenAmount::zero(), Kind::Other),
        }
    }

    fn send_target(&self, w: &W, vm: &Vm, m: &Model, to: To) -> Address {
        match to {
            To::FreshSecp => Address::new_secp256k1(&[0x07; 65]).unwrap(),
            To::FreshBls => Address::new_bls(&[0x09; 48]).unwrap(),
            To::Placeholder => f4(&P1_ETH),
            To::ForeignNamespace => Address::new_delegated(77, &P1_ETH).unwrap(),
            To::Precompile => {
                let mut a = [0u8; 20];
                a[19] = 1;
                f4(&a)
            }
            To::NativePrecompile => {
                let mut a = [0u8; 20];
                a[0] = 0xfe;
                a[19] = 1;
                f4(&a)
            }
            To::MaskedId => f4(&masked(w.cast.k.0)),
            To::Null => f4(&[0u8; 20]),
            To::Create2Addr(s) => f4(&create2_addr(&w.cast.f_eth, s, &init_killable())),
            To::NextCreateAddr => f4(&create_addr(&w.cast.f_eth, m.evm[&w.cast.f].nonce)),
            To::NextCreateExternalAddr(Sender::EthAccount) => {
                f4(&create_addr(&w.cast.e_eth, vm.actor(w.cast.e).map(|a| a.sequence).unwrap_or(0)))
            }
            // K sends this message itself, so its CreateExternal can come at the next nonce earliest
            To::NextCreateExternalAddr(Sender::Account) => {
                f4(&create_addr(&w.cast.k_stable, vm.actor(w.cast.k.0).map(|a| a.sequence).unwrap_or(0) + 1))
            }
        }
    }

    /// Invoke the factory from K and decode the returned words.
    fn call_factory(&self, w: &W, input: Vec<u8>) -> (Inv, Vec<[u8; 32]>) {
        let r = ext(
            &w.vm,
            w.cast.k.0,
            &f4(&w.cast.f_eth),
            &TokenAmount::zero(),
            fil_actor_evm::Method::InvokeContract as u64,
            Some(&fil_actor_evm::InvokeContractParams { input_data: input }),
        );
        let mut words = vec![];
        if r.ok()
            && let Some(b) = &r.ret
            && let Ok(BytesDe(d)) = b.deserialize::<BytesDe>()
        {
            for c in d.chunks(32) {
                if c.len() == 32 {
                    words.push(c.try_into().unwrap());
                }
            }
        }
        (r, words)
    }

    /// Judge one CREATE/CREATE2 of the factory against the model and apply it.
    #[allow(clippy::too_many_arguments)]
    fn factory_deploy(&self, w: &W, tx: &mut Tx, what: &str, eth: &Eth, ctor: Ctor, rt: Rt, word: Option<&[u8; 32]>, r: &Inv) -> bool {
        let must = deploy_rule(tx.target(eth), reserved(eth), ctor);
        let Some(word) = word else {
            tx.judge(&w.vm, must, false, what, r);
            return false;
        };
        let ok = word != &[0u8; 32];
        tx.judge(&w.vm, must, ok, what, r);
        if ok {
            if word[..12] != [0u8; 12] || word[12..] != eth[..] {
                tx.fail(format!("{what}: returned address 0x{} but Ethereum's formula gives 0x{}", hex::encode(word), hex::encode(eth)));
            }
            tx.deployed(eth, rt, false, false);
        }
        ok
    }
}

impl Scenario for Identities {
    type S = VS<Model>;
    type A = Act;
    type W = W;

    fn name(&self) -> String {
        "c20/identities".into()
    }

    fn worker(&self, store: &Store) -> W {
        self_test();
        let vm = Vm::genesis(store.clone(), Policy::default());
        vm.bump_nonce.set(true);
        let k = vm.new_account(1, &fil(100_000));
        let (k2, _) = vm.new_account(2, &fil(1000));
        for _ in 0..5 {
            vm.tick();
        }
        // impersonated callers need funds for the miner deposit they pass on
        for to in [STORAGE_POWER_ACTOR_ADDR, EAM_ACTOR_ADDR] {
            let r = vm.apply(MsgKind::Implicit, &id(FAUCET_ID), &to, &fil(10_000), METHOD_SEND, None);
            assert!(r.ok(), "SETUP-FAILED funding: {}", r.tree());
        }
        let mut problem: Option<String> = None;
        // a multisig (real Exec by K)
        let msig_ctor = fil_actor_multisig::ConstructorParams {
            signers: vec![id(k.0)],
            num_approvals_threshold: 1,
            unlock_duration: 0,
            start_epoch: 0,
        };
        let r = ext(
            &vm,
            k.0,
            &INIT_ACTOR_ADDR,
            &fil(10_000),
            fil_actor_init::Method::Exec as u64,
            Some(&ExecParams { code_cid: *MULTISIG_ACTOR_CODE_ID, constructor_params: RawBytes::serialize(&msig_ctor).unwrap() }),
        );
        let msig = match r.ret.as_ref().filter(|_| r.ok()).and_then(|b| b.deserialize::<ExecReturn>().ok()) {
            Some(ret) => ret.id_address.id().unwrap(),
            None => {
                problem = Some(format!("base state: an account could not create a multisig\n{}", r.tree()));
                u64::MAX
            }
        };
        // E: a placeholder (becomes an Ethereum account with its first message)
        let r = ext(&vm, k.0, &f4(&E_ETH), &fil(1000), METHOD_SEND, NOP);
        assert!(r.ok(), "SETUP-FAILED placeholder: {}", r.tree());
        let e = vm.resolve(&f4(&E_ETH)).expect("SETUP-FAILED placeholder id");
        // F (the factory) and L (the library), deployed by K through the EAM
        let k_stable: Eth = keccak(&k.1.to_bytes())[12..].try_into().unwrap();
        let mut deploy = |runtime: Vec<u8>| -> (ActorID, Eth) {
            let seq = vm.actor(k.0).unwrap().sequence;
            let expected = create_addr(&k_stable, seq);
            let r = ext(
                &vm,
                k.0,
                &EAM_ACTOR_ADDR,
                &TokenAmount::zero(),
                fil_actor_eam::Method::CreateExternal as u64,
                Some(&fil_actor_eam::CreateExternalParams(init_returning(&runtime))),
            );
            match r.ret.as_ref().filter(|_| r.ok()).and_then(|b| b.deserialize::<fil_actor_eam::Return>().ok()) {
                Some(ret) => {
                    if ret.eth_address.0 != expected && problem.is_none() {
                        problem = Some(format!(
                            "base state: CreateExternal by a key account at nonce {seq} returned 0x{}, keccak(rlp([keccak(key address)[12..], nonce]))[12..] is 0x{}",
                            hex::encode(ret.eth_address.0),
                            hex::encode(expected)
                        ));
                    }
                    (ret.actor_id, ret.eth_address.0)
                }
                None => {
                    if problem.is_none() {
                        problem = Some(format!("base state: an account could not deploy a contract through the EAM\n{}", r.tree()));
                    }
                    (u64::MAX, expected)
                }
            }
        };
        let (f, f_eth) = deploy(factory_runtime());
        let (l, l_eth) = deploy(library_runtime());
        let base = vm.snapshot();
        let mut base_model = self.observe(&vm);
        if let Some(e) = base_model.evm.get_mut(&l) {
            e.rt = Rt::Library;
        }
        let code_hash = [Rt::Factory, Rt::Killable, Rt::Inert, Rt::Empty, Rt::Library].map(|rt| keccak(&rt_code(rt)));
        W { vm, cast: Cast { k, k2, msig, e, e_eth: E_ETH, f, f_eth, l, l_eth, k_stable }, base, base_model, base_problem: problem, code_hash }
    }

    fn bases(&self, w: &W) -> Vec<(String, VS<Model>)> {
        vec![("accounts+multisig+placeholder+factory".into(), VS { snap: w.base.clone(), m: w.base_model.clone() })]
    }

    fn key(&self, s: &VS<Model>) -> Key {
        vs_key(s)
    }

    fn kind(&self, a: &Act) -> String {
        match a {
            Act::Exec(c, code) => format!("Init.Exec({code:?}) by {c:?}"),
            Act::PowerCreateMiner => "Power.CreateMiner by Account".into(),
            Act::Exec4(c, s) => format!("Init.Exec4({s:?}) by {c:?}"),
            Act::CreateExternal(s, i) => format!("EAM.CreateExternal({i:?}) by {s:?}"),
            Act::Factory(f) => format!("factory {f:?}"),
            Act::InvokeChild(s) => format!("invoke CREATE2 child (salt {s})"),
            Act::Send(t) => format!("send to {t:?}"),
        }
    }

    fn actions(&self, w: &W, s: &VS<Model>) -> Vec<Act> {
        let m = &s.m;
        let mut v = vec![];
        let codes = [
            Code::MultisigOk,
            Code::MultisigBadParams,
            Code::Paych,
            Code::Miner,
            Code::Account,
            Code::Evm,
            Code::Junk,
            Code::Singleton,
        ];
        for c in [Caller::Account, Caller::Multisig, Caller::Power, Caller::Eam] {
            for code in codes {
                v.push(Act::Exec(c, code));
            }
        }
        v.push(Act::PowerCreateMiner);
        v.push(Act::Exec4(Caller::Account, Sub::Fresh));
        for sub in [Sub::Fresh, Sub::PlaceholderAddr, Sub::Factory] {
            v.push(Act::Exec4(Caller::Eam, sub));
        }
        let inits = [InitCode::Empty, InitCode::Ok, InitCode::Reverting, InitCode::EfCode, InitCode::SelfDestructing];
        for i in inits {
            v.push(Act::CreateExternal(Sender::Account, i));
        }
        let e_can_send = matches!(m.actors.get(&w.cast.e).map(|e| e.kind), Some(Kind::Placeholder | Kind::EthAccount));
        if e_can_send {
            for i in inits {
                v.push(Act::CreateExternal(Sender::EthAccount, i));
            }
        }
        v.push(Act::Factory(FOp::Create));
        v.push(Act::Factory(FOp::Create2(0)));
        v.push(Act::Factory(FOp::Create2(1)));
        v.push(Act::Factory(FOp::Create2Twice(0)));
        v.push(Act::Factory(FOp::KillAndRecreate(0)));
        v.push(Act::Factory(FOp::CreateReentrant));
        v.push(Act::Factory(FOp::CreateReverting));
        v.push(Act::Factory(FOp::DelegateCreateThenStore));
        v.push(Act::Factory(FOp::DelegateCreateThenCreate));
        v.push(Act::Factory(FOp::ReentrantCreateThenStore));
        v.push(Act::Factory(FOp::ReentrantCreateThenStoreAndCreate));
        for salt in [0u8, 1] {
            let a = akey(&f4(&create2_addr(&w.cast.f_eth, salt, &init_killable())));
            if let Some(id) = m.addrs.get(&a)
                && m.evm.contains_key(id)
            {
                v.push(Act::InvokeChild(salt));
            }
        }
        for t in [
            To::FreshSecp,
            To::FreshBls,
            To::Placeholder,
            To::ForeignNamespace,
            To::Precompile,
            To::NativePrecompile,
            To::MaskedId,
            To::Null,
            To::Create2Addr(1),
            To::NextCreateAddr,
            To::NextCreateExternalAddr(Sender::EthAccount),
            To::NextCreateExternalAddr(Sender::Account),
        ] {
            if matches!(t, To::NextCreateExternalAddr(Sender::EthAccount)) && !e_can_send {
                continue;
            }
            v.push(Act::Send(t));
        }
        v
    }

    fn step(&self, w: &W, s: &VS<Model>, a: &Act, _faults: &[usize]) -> Step<VS<Model>> {
        let vm = &w.vm;
        vm.restore(&s.snap);
        if let Some(p) = &w.base_problem {
            return Step::new(s.clone(), "base").violate(p.clone());
        }
        let mut tx = Tx {
            m: s.m.clone(),
            zombies: BTreeSet::new(),
            robust_gain: vec![],
            promotions: 0,
            resurrections: 0,
            kills: 0,
            viol: None,
            before: s.m.actors.clone(),
        };
        let outcome: &'static str;
        match a {
            Act::Exec(c, code) => {
                let (code_cid, constructor_params, value, kind) = self.exec_params(w, *code);
                let p = ExecParams { code_cid, constructor_params };
                let m = fil_actor_init::Method::Exec as u64;
                let permitted = matches!(code, Code::MultisigOk | Code::MultisigBadParams | Code::Paych)
                    || (*code == Code::Miner && *c == Caller::Power);
                let repeated = *c != Caller::Account && tx.m.imp_used.contains(c);
                let what = if permitted && repeated {
                    format!("Init.Exec({code:?}) by {c:?}, for which the VM repeats the stable address of the actor this caller created earlier (a mapped address must never be remapped)")
                } else {
                    format!("Init.Exec({code:?}) by {c:?}")
                };
                let must = if !permitted {
                    Must::Fail
                } else if repeated {
                    // repeated stable address (see Model::imp_used): the existing mapping must stand
                    Must::Fail
                } else if *code == Code::MultisigBadParams {
                    Must::Either
                } else {
                    Must::Succeed
                };
                if pruned(&tx.m, forecast_of(must, *c == Caller::Account)) {
                    return Step::skip();
                }
                let r = if *c == Caller::Account {
                    ext(vm, w.cast.k.0, &INIT_ACTOR_ADDR, &value, m, Some(&p))
                } else {
                    imp(vm, caller_id(w, *c), &INIT_ACTOR_ADDR, &value, m, Some(&p))
                };
                tx.judge(vm, must, r.ok(), &what, &r);
                if r.ok() {
                    let nid = tx.new_actor(kind, None, true);
                    match r.ret.as_ref().and_then(|b| b.deserialize::<ExecReturn>().ok()) {
                        Some(ret) => {
                            if ret.id_address != id(nid) {
                                tx.fail(format!("{what}: returned id {} but the next unused id was {nid}", ret.id_address));
                            }
                            if s.m.addrs.contains_key(&akey(&ret.robust_address)) {
                                tx.fail(format!("{what}: returned a stable address that was already mapped"));
                            }
                            if vm.resolve(&ret.robust_address) != Some(nid) {
                                tx.fail(format!("{what}: the returned stable address does not resolve to the new id {nid}"));
                            }
                        }
                        None => tx.fail(format!("{what}: succeeded without an ExecReturn")),
                    }
                    if *c != Caller::Account {
                        tx.m.imp_used.insert(*c);
                    }
                    outcome = "created";
                } else {
                    outcome = if permitted { "constructor failed / refused" } else { "refused" };
                }
            }
            Act::PowerCreateMiner => {
                if pruned(&tx.m, Forecast::Creates) {
                    return Step::skip();
                }
                let r = crate::chain::create_miner(
                    vm,
                    w.cast.k.0,
                    w.cast.k.0,
                    RegisteredPoStProof::StackedDRGWindow32GiBV1P1,
                    &fil(MINER_VALUE_FIL),
                );
                match r {
                    Ok(mid) => {
                        let nid = tx.new_actor(Kind::Miner, None, true);
                        if mid != nid {
                            tx.fail(format!("Power.CreateMiner returned id {mid} but the next unused id was {nid}"));
                        }
                        outcome = "created";
                    }
                    Err(inv) => {
                        tx.fail(format!("Power.CreateMiner: the power actor could not create a miner\n{}", inv.tree()));
                        outcome = "refused";
                    }
                }
            }
            Act::Exec4(c, sub) => {
                let eth = match sub {
                    Sub::Fresh => X1_ETH,
                    Sub::PlaceholderAddr => P1_ETH,
                    Sub::Factory => w.cast.f_eth,
                };
                // The EAM asks for a contract. Any other caller asks for a multisig, whose
                // constructor would accept: the refusal has to come from Init itself (an EVM
                // constructor refuses on its own when it finds itself outside the EAM namespace).
                let p = if *c == Caller::Eam {
                    Exec4Params {
                        code_cid: *EVM_ACTOR_CODE_ID,
                        constructor_params: evm_ctor(&masked(w.cast.k.0), &init_ok()),
                        subaddress: RawBytes::new(eth.to_vec()),
                    }
                } else {
                    let (code_cid, constructor_params, _, _) = self.exec_params(w, Code::MultisigOk);
                    Exec4Params { code_cid, constructor_params, subaddress: RawBytes::new(eth.to_vec()) }
                };
                let m = fil_actor_init::Method::Exec4 as u64;
                let z = TokenAmount::zero();
                let what = format!("Init.Exec4({sub:?}) by {c:?}");
                let must = if *c != Caller::Eam {
                    Must::Fail // only the address manager
                } else if tx.m.imp_used.contains(c) {
                    Must::Fail // repeated stable address
                } else {
                    deploy_rule(tx.target(&eth), reserved(&eth), Ctor::Valid)
                };
                if pruned(&tx.m, forecast_of(must, *c == Caller::Account)) {
                    return Step::skip();
                }
                let r = if *c == Caller::Account {
                    ext(vm, w.cast.k.0, &INIT_ACTOR_ADDR, &z, m, Some(&p))
                } else {
                    imp(vm, caller_id(w, *c), &INIT_ACTOR_ADDR, &z, m, Some(&p))
                };
                tx.judge(vm, must, r.ok(), &what, &r);
                if r.ok() {
                    let t = tx.target(&eth);
                    let nid = tx.deployed(&eth, Rt::Inert, false, true);
                    match r.ret.as_ref().and_then(|b| b.deserialize::<ExecReturn>().ok()) {
                        Some(ret) => {
                            if ret.id_address != id(nid) {
                                tx.fail(format!("{what}: returned id {} but the registry says {nid} ({t:?})", ret.id_address));
                            }
                            if vm.resolve(&ret.robust_address) != Some(nid) {
                                tx.fail(format!("{what}: the returned stable address does not resolve to {nid}"));
                            }
                        }
                        None => tx.fail(format!("{what}: succeeded without a return value")),
                    }
                    if *c != Caller::Account {
                        tx.m.imp_used.insert(*c);
                    }
                    outcome = match t {
                        Target::Placeholder(_) => "deployed onto placeholder",
                        _ => "created",
                    };
                } else {
                    outcome = "refused";
                }
            }
            Act::CreateExternal(sender, ic) => {
                let (sid, stable) = match sender {
                    Sender::Account => (w.cast.k.0, w.cast.k_stable),
                    Sender::EthAccount => (w.cast.e, w.cast.e_eth),
                };
                let Some(sact) = vm.actor(sid) else { return Step::skip() };
                let nonce = sact.sequence;
                // the first message of a placeholder turns it into an Ethereum account (VM rule)
                if tx.m.actors.get(&sid).map(|e| e.kind) == Some(Kind::Placeholder) {
                    Arc::make_mut(&mut tx.m.actors).get_mut(&sid).unwrap().kind = Kind::EthAccount;
                }
                let (initcode, ctor, rt) = init_code(*ic);
                let eth = create_addr(&stable, nonce);
                let t = tx.target(&eth);
                let must = deploy_rule(t, reserved(&eth), ctor);
                if pruned(&tx.m, forecast_of(must, true)) {
                    return Step::skip();
                }
                let r = ext(
                    vm,
                    sid,
                    &EAM_ACTOR_ADDR,
                    &TokenAmount::zero(),
                    fil_actor_eam::Method::CreateExternal as u64,
                    Some(&fil_actor_eam::CreateExternalParams(initcode)),
                );
                let what = format!("EAM.CreateExternal({ic:?}) by {sender:?} at nonce {nonce} onto {t:?}");
                tx.judge(vm, must, r.ok(), &what, &r);
                if r.ok() {
                    let nid = tx.deployed(&eth, rt, *ic == InitCode::SelfDestructing, false);
                    match r.ret.as_ref().and_then(|b| b.deserialize::<fil_actor_eam::Return>().ok()) {
                        Some(ret) => {
                            if ret.eth_address.0 != eth {
                                tx.fail(format!("{what}: returned address 0x{} but keccak(rlp([sender, nonce]))[12..] is 0x{}", hex::encode(ret.eth_address.0), hex::encode(eth)));
                            }
                            if ret.actor_id != nid {
                                tx.fail(format!("{what}: returned id {} but the registry says {nid}", ret.actor_id));
                            }
                            if let Some(ra) = ret.robust_address
                                && vm.resolve(&ra) != Some(nid)
                            {
                                tx.fail(format!("{what}: the returned stable address does not resolve to {nid}"));
                            }
                        }
                        None => tx.fail(format!("{what}: succeeded without a return value")),
                    }
                    outcome = match t {
                        Target::Placeholder(_) => "deployed onto placeholder",
                        Target::Dead(_) => "resurrected",
                        _ => "created",
                    };
                } else {
                    outcome = if ctor == Ctor::Valid { "refused" } else { "constructor failed" };
                }
            }
            Act::Factory(fop) => {
                let f = w.cast.f;
                let f_eth = w.cast.f_eth;
                let n = tx.m.evm[&f].nonce;
                let kill_init = init_killable();
                let mut created = false;
                let first = match fop {
                    FOp::Create
                    | FOp::CreateReentrant
                    | FOp::DelegateCreateThenStore
                    | FOp::DelegateCreateThenCreate
                    | FOp::ReentrantCreateThenStore
                    | FOp::ReentrantCreateThenStoreAndCreate => Some(create_addr(&f_eth, n)),
                    FOp::Create2(s) | FOp::Create2Twice(s) => Some(create2_addr(&f_eth, *s, &kill_init)),
                    // destroys first: a live child becomes a zombie, whose redeployment is not judged
                    FOp::KillAndRecreate(s) => {
                        let a = create2_addr(&f_eth, *s, &kill_init);
                        if matches!(tx.target(&a), Target::Live(_)) { None } else { Some(a) }
                    }
                    FOp::CreateReverting => None,
                };
                let fc = match (fop, first) {
                    (FOp::CreateReverting, _) => Forecast::Idle,
                    (_, Some(a)) => forecast_of(deploy_rule(tx.target(&a), reserved(&a), Ctor::Valid), true),
                    _ => Forecast::Unknown,
                };
                if pruned(&tx.m, fc) {
                    return Step::skip();
                }
                match fop {
                    FOp::Create => {
                        let (r, words) = self.call_factory(w, vec![FOP_CREATE]);
                        if r.ok() {
                            tx.m.evm.get_mut(&f).unwrap().nonce = n + 1;
                        }
                        created = self.factory_deploy(w, &mut tx, "CREATE", &create_addr(&f_eth, n), Ctor::Valid, Rt::Killable, words.first(), &r);
                    }
                    FOp::Create2(salt) => {
                        let (r, words) = self.call_factory(w, vec![FOP_CREATE2, *salt]);
                        if r.ok() {
                            tx.m.evm.get_mut(&f).unwrap().nonce = n + 1;
                        }
                        created = self.factory_deploy(w, &mut tx, "CREATE2", &create2_addr(&f_eth, *salt, &kill_init), Ctor::Valid, Rt::Killable, words.first(), &r);
                    }
                    FOp::Create2Twice(salt) => {
                        let (r, words) = self.call_factory(w, vec![FOP_TWICE, *salt]);
                        if r.ok() {
                            tx.m.evm.get_mut(&f).unwrap().nonce = n + 2;
                        }
                        let eth = create2_addr(&f_eth, *salt, &kill_init);
                        created = self.factory_deploy(w, &mut tx, "first CREATE2", &eth, Ctor::Valid, Rt::Killable, words.first(), &r);
                        if r.ok() {
                            created |= self.factory_deploy(w, &mut tx, "second CREATE2 with the same salt and init code in the same message", &eth, Ctor::Valid, Rt::Killable, words.get(1), &r);
                        }
                    }
                    FOp::KillAndRecreate(salt) => {
                        let eth = create2_addr(&f_eth, *salt, &kill_init);
                        let mut input = vec![FOP_KILL_RECREATE, *salt];
                        input.extend_from_slice(&eth);
                        let (r, words) = self.call_factory(w, input);
                        if r.ok() {
                            tx.m.evm.get_mut(&f).unwrap().nonce = n + 1;
                            if let Target::Live(cid) = tx.target(&eth)
                                && tx.m.evm[&cid].rt == Rt::Killable
                            {
                                tx.zombies.insert(cid);
                                tx.kills += 1;
                            }
                        }
                        created = self.factory_deploy(w, &mut tx, "CREATE2 after destroying the child in the same message", &eth, Ctor::Valid, Rt::Killable, words.first(), &r);
                    }
                    FOp::CreateReentrant | FOp::ReentrantCreateThenStore | FOp::ReentrantCreateThenStoreAndCreate => {
                        let (opb, creates) = match fop {
                            FOp::CreateReentrant => (FOP_REENTRANT, 2),
                            FOp::ReentrantCreateThenStore => (FOP_REENTRANT_STORE, 2),
                            _ => (FOP_REENTRANT_STORE_CREATE, 3),
                        };
                        let (r, words) = self.call_factory(w, vec![opb]);
                        if r.ok() {
                            // every CREATE of this deployer, in whichever frame, consumes one nonce
                            tx.m.evm.get_mut(&f).unwrap().nonce = n + creates;
                        }
                        let outer = create_addr(&f_eth, n);
                        let inner = create_addr(&f_eth, n + 1);
                        // the outer CREATE allocates first (its constructor then runs the inner one)
                        created = self.factory_deploy(w, &mut tx, "CREATE (outer, constructor re-enters the factory)", &outer, Ctor::Valid, Rt::Inert, words.first(), &r);
                        if created {
                            // the inner result is not returned; the rule is definite (fresh nonce) and
                            // the table comparison decides
                            let must = deploy_rule(tx.target(&inner), reserved(&inner), Ctor::Valid);
                            if must != Must::Fail {
                                tx.deployed(&inner, Rt::Killable, false, false);
                                if vm.resolve(&f4(&inner)).and_then(|i| vm.actor(i)).map(|a| kind_of(&a.code)) != Some(Kind::Evm) {
                                    tx.fail(format!(
                                        "nested CREATE: the deployer's second CREATE in this message (nonce {}) left no contract at keccak(rlp([deployer, {}]))[12..] = 0x{}; every CREATE consumes its own nonce\n{}",
                                        n + 1,
                                        n + 1,
                                        hex::encode(inner),
                                        r.tree()
                                    ));
                                }
                            }
                        }
                        if creates == 3 && r.ok() {
                            created |= self.factory_deploy(
                                w,
                                &mut tx,
                                "CREATE by the outer frame after a nested frame of the same contract created (third nonce of this message)",
                                &create_addr(&f_eth, n + 2),
                                Ctor::Valid,
                                Rt::Killable,
                                words.get(1),
                                &r,
                            );
                        }
                    }
                    FOp::DelegateCreateThenStore | FOp::DelegateCreateThenCreate => {
                        let two = *fop == FOp::DelegateCreateThenCreate;
                        let mut input = vec![if two { FOP_DELEGATE_CREATE } else { FOP_DELEGATE_STORE }, 0];
                        input.extend_from_slice(&w.cast.l_eth);
                        let (r, words) = self.call_factory(w, input);
                        if r.ok() {
                            tx.m.evm.get_mut(&f).unwrap().nonce = n + if two { 2 } else { 1 };
                        }
                        // the library code runs as the factory: the new contract's address derives from
                        // the factory's address and nonce
                        created = self.factory_deploy(w, &mut tx, "CREATE inside a DELEGATECALL (the calling contract is the deployer)", &create_addr(&f_eth, n), Ctor::Valid, Rt::Empty, words.first(), &r);
                        if two && r.ok() {
                            created |= self.factory_deploy(
                                w,
                                &mut tx,
                                "CREATE by the outer frame after a delegate-called frame created (second nonce of this message)",
                                &create_addr(&f_eth, n + 1),
                                Ctor::Valid,
                                Rt::Killable,
                                words.get(1),
                                &r,
                            );
                        }
                    }
                    FOp::CreateReverting => {
                        let (r, words) = self.call_factory(w, vec![FOP_REVERTING]);
                        if r.ok() {
                            tx.m.evm.get_mut(&f).unwrap().nonce = n + 1;
                        }
                        self.factory_deploy(w, &mut tx, "CREATE with a reverting constructor", &create_addr(&f_eth, n), Ctor::Reverts, Rt::Empty, words.first(), &r);
                    }
                }
                outcome = if tx.resurrections > 0 {
                    "resurrected"
                } else if tx.promotions > 0 {
                    "deployed onto placeholder"
                } else if created {
                    "created"
                } else {
                    "creation refused (nonce consumed)"
                };
            }
            Act::InvokeChild(salt) => {
                let eth = create2_addr(&w.cast.f_eth, *salt, &init_killable());
                let t = tx.target(&eth);
                let fc = match t {
                    Target::Live(cid) if tx.m.evm[&cid].rt == Rt::Killable => Forecast::Kills,
                    Target::Dead(_) => Forecast::Idle,
                    _ => Forecast::Unknown,
                };
                if pruned(&tx.m, fc) {
                    return Step::skip();
                }
                let r = ext(
                    vm,
                    w.cast.k.0,
                    &f4(&eth),
                    &TokenAmount::zero(),
                    fil_actor_evm::Method::InvokeContract as u64,
                    Some(&fil_actor_evm::InvokeContractParams { input_data: vec![] }),
                );
                outcome = match (r.ok(), t) {
                    (true, Target::Live(cid)) if tx.m.evm[&cid].rt == Rt::Killable => {
                        tx.zombies.insert(cid);
                        tx.kills += 1;
                        "self-destructed"
                    }
                    (true, _) => "no effect",
                    (false, _) => "failed",
                };
            }
            Act::Send(to) => {
                let target = self.send_target(w, vm, &tx.m, *to);
                let known = tx.m.addrs.contains_key(&akey(&target));
                // the VM's auto-creation rule is deterministic (mcvm, not /repo)
                let fc = if known || *to == To::ForeignNamespace { Forecast::Idle } else { Forecast::Creates };
                if pruned(&tx.m, fc) {
                    return Step::skip();
                }
                let r = ext(vm, w.cast.k.0, &target, &atto(1), METHOD_SEND, NOP);
                if *to == To::ForeignNamespace && r.ok() {
                    tx.fail("a send to an f4 address outside the EAM namespace succeeded (harness VM rule)".into());
                }
                if r.ok() && !known {
                    // auto-creation is the VM's doing (mirrors ref-fvm): adopt it, the registry rules apply
                    match target.payload() {
                        Payload::Secp256k1(_) | Payload::BLS(_) => {
                            tx.new_actor(Kind::Account, Some(&target), false);
                        }
                        _ => {
                            tx.new_actor(Kind::Placeholder, Some(&target), false);
                        }
                    }
                    outcome = "auto-created";
                } else if r.ok() {
                    outcome = "delivered to existing actor";
                } else {
                    outcome = "failed";
                }
            }
        }
        // budgets (they bound the explored space; a step beyond them is not part of it)
        let created = (tx.m.next_id - s.m.next_id) as u32 + tx.promotions + tx.resurrections;
        if tx.viol.is_none() {
            if created > 0 {
                if tx.m.creations_left < created {
                    return Step::skip();
                }
                tx.m.creations_left -= created;
            } else if tx.kills > 0 {
                if tx.m.kills_left == 0 {
                    return Step::skip();
                }
                tx.m.kills_left -= 1;
            }
        }
        // end of message: contracts that self-destructed are dead from now on
        for z in std::mem::take(&mut tx.zombies) {
            if let Some(e) = tx.m.evm.get_mut(&z) {
                e.dead = true;
            }
        }
        let snap = vm.snapshot();
        if tx.viol.is_none() && created == 0 && tx.kills == 0 && snap.root != s.snap.root {
            if tx.m.idle_left == 0 {
                return Step::skip();
            }
            tx.m.idle_left -= 1;
        }
        // A refused message of an impersonated caller leaves root and registry as they were: that
        // state has been compared when it was reached.
        let unchanged = snap.root == s.snap.root
            && tx.m.next_id == s.m.next_id
            && tx.m.actors == s.m.actors
            && tx.m.addrs == s.m.addrs
            && tx.m.evm == s.m.evm;
        if tx.viol.is_none() && !unchanged {
            self.compare(w, &s.m, &mut tx);
        }
        let mut st = Step::new(VS { snap, m: tx.m }, outcome);
        st.agreed = if tx.viol.is_none() { 1 } else { 0 };
        st.violation = tx.viol;
        st
    }

    fn describe(&self) -> serde_json::Value {
        json!({
            "policy": "MAINNET",
            "nonces": "External messages bump the sender nonce; nonces are part of the state key",
            "cast": "key account K, key account K2, multisig M (signer K), placeholder/Ethereum account E, factory contract F and library contract L (deployed by K through the EAM), power actor, EAM",
            "budgets": {"creations per history": self.creations, "self-destructs per history": self.kills, "steps that change nothing in the registry (nonce only)": self.idle},
            "alphabet": {
                "Init.Exec": "callers {account, multisig(imp), power(imp), EAM(imp)} x code {multisig ok, multisig bad params, paych, miner (valid params, deposit attached), account, evm, junk cid, singleton (cron)}",
                "Power.CreateMiner": "real path, by the account",
                "Init.Exec4": "by account (multisig code with valid parameters, fresh address); by EAM(imp) (contract code) onto {fresh address, placeholder address, live contract}",
                "EAM.CreateExternal": "senders {account, placeholder->ethaccount} x init code {empty, ok, reverting, returns 0xEF code, self-destructs in constructor}",
                "factory": "CREATE; CREATE2 salt 0/1; CREATE2 twice same salt in one message; destroy child then CREATE2 again in the same message; CREATE whose constructor re-enters the factory (nested CREATE); CREATE with reverting constructor; DELEGATECALL into a library that CREATEs, then SSTORE / then CREATE in the outer frame; re-entrant CREATE, then SSTORE / then SSTORE and CREATE in the outer frame (a nested frame of the deployer consumes a nonce, the outer frame then rewrites its state)",
                "invoke child": "self-destructs the CREATE2 child (salt 0/1); the next CREATE2 with that salt is the resurrection path",
                "send": "fresh f1, fresh f3, f4 in EAM namespace, f4 in a foreign namespace, precompile 0x00..01, native precompile 0xfe..01, masked id 0xff..id, null address, the factory's CREATE2(salt 1) address, the factory's next CREATE address, the next CreateExternal address of E and of K",
            },
            "oracle": "id-registry model in lock-step: full actor table (id -> code kind, f4), full Init address map (stability, exactly the predicted new key/f4 entries, exactly one new stable address per Init-created actor), next_id, contract nonces and code hashes after every step; returned ids/addresses against independently computed CREATE/CREATE2 addresses",
        })
    }
}

pub fn scenario(tier: &str) -> (Identities, Bounds) {
    if tier_is_thorough(tier) {
        (
            // the budgets add up to 6 steps: depth 7 is every history within them
            Identities { creations: 3, kills: 2, idle: 1 },
            Bounds { max_depth: 7, wall_cap_s: 1200.0, ..Default::default() },
        )
    } else {
        (
            // the budgets add up to 6 steps: depth 6 is every history within them
            Identities { creations: 2, kills: 2, idle: 2 },
            Bounds { max_depth: 6, wall_cap_s: 60.0, ..Default::default() },
        )
    }
}

pub fn run(tier: &str) -> ! {
    let (scn, b) = scenario(tier);
    let mut run = mcx::evidence::Run::new("C20", tier, "model_checking");
    run.assumptions = vec![
        "mcvm mirrors the FVM message semantics (value transfer, rollback, caller validation), ref-fvm's auto-creation on send (f1/f3 -> account, f4 in the EAM namespace -> placeholder, anything else -> not found), placeholder -> ethaccount promotion on the first outgoing message, and derives the stable address of a new actor from (origin, origin nonce, per-message counter)".into(),
        "impersonated callers (multisig, power, EAM calling Init directly) have no nonce: a second creation by the same impersonated caller repeats the stable address and is required to be refused; the real Power.CreateMiner and EAM paths are exercised as well".into(),
        "the Ethereum-style address of a key account is keccak256(key address bytes)[12..] (FIP-0055); keccak-256 itself is trusted (multihash-codetable), the RLP and the two address formulas are re-implemented here and checked against public vectors at start-up".into(),
        "a creation with valid parameters by a permitted creator is required to succeed; resurrection of a self-destructed contract, constructors that self-destruct, EIP-3541 code and bad multisig parameters are not judged (either outcome is adopted)".into(),
        "reserved Ethereum addresses can only be reached by plain sends (hash pre-images are out of reach), so `reserved ranges are never assigned` is checked as: such an address never holds anything but a VM-made placeholder".into(),
        "budgets on creations / self-destructs / nonce-only steps per history bound the space in addition to the depth".into(),
    ];
    run.add(mcx::explore(&scn, &b));
    run.finish()
}

/// Replay a violation file written by this check; `v` is the parsed replay JSON.
pub fn replay(v: &serde_json::Value) -> ! {
    let tier = v["tier"].as_str().unwrap_or("thorough");
    crate::replay_with(&scenario(tier).0, v)
}
