//! C04 — miner-life walk (SMALL policy); see minerlife.rs and DESIGN §3 C04.
use crate::minerlife::*;
use crate::util::*;
use mcx::Bounds;

pub fn scenario(tier: &str) -> (Life, Bounds) {
    let th = tier_is_thorough(tier);
    let cfg = LifeCfg {
        name: "c04",
        periods: if th { 5 } else { 3 },
        devs: if th { 2 } else { 1 },
        bases: if th { vec!["one-deadline", "two-deadlines", "one-deadline-aged", "two-deadlines-aged"] } else { vec!["one-deadline-aged", "two-deadlines"] },
        oracles: Oracles { c04: true, ..Default::default() },
        sector_sets: if th { sets_all() } else { sets_small() },
        known_open: mcx::evidence::known_open("C04"),
        property: "C04",
        poor: None,
        money_devs: false,
        precommits: th,
        horizon: None,
        big: false,
        tick_faults: false,
        bystander: false,
        extensions: true,
        backlog: false,
    };
    let b = if th {
        Bounds { max_depth: 400, wall_cap_s: 1500.0, ..Default::default() }
    } else {
        Bounds { max_depth: 400, wall_cap_s: 45.0, ..Default::default() }
    };
    (Life { cfg }, b)
}

/// Bursts: several deviations close together (short horizon), also from a pre-faulted base.
pub fn scenario_burst(tier: &str) -> (Life, Bounds) {
    let (mut l, mut b) = scenario(tier);
    let th = tier_is_thorough(tier);
    l.cfg.name = "c04-burst";
    l.cfg.bases = vec!["one-deadline-aged-f12", "two-deadlines"];
    l.cfg.devs = if th { 3 } else { 2 };
    l.cfg.horizon = Some(if th { 10 } else { 7 });
    l.cfg.precommits = false;
    l.cfg.sector_sets = vec![vec![1], vec![2], vec![1, 2], vec![3]];
    b.wall_cap_s = if th { 900.0 } else { 30.0 };
    (l, b)
}

pub fn run(tier: &str) -> ! {
    let (scn, b) = scenario(tier);
    let mut run = mcx::evidence::Run::new("C04", tier, "model_checking");
    run.assumptions = vec![
        "SMALL policy: same actor code with scaled protocol parameters (24-epoch proving period, 2 KiB sectors, partitions of 2); constants that are not policy (vesting spec, termination fee days) are as on mainnet".into(),
        "mcvm stands in for the FVM; proofs are faked (valid unless marked BAD); the real cron tick runs at every epoch".into(),
        "a second 'ballast' miner holds a large locked reward so that the network pledge total stays positive (see KF-1)".into(),
    ];
    run.add(mcx::explore(&scn, &b));
    let (sb, bb) = scenario_burst(tier);
    run.add(mcx::explore(&sb, &bb));
    let comp = component::scenario(tier);
    run.add(mcx::explore(&comp, &Bounds { max_depth: comp.ops as usize, wall_cap_s: if tier_is_thorough(tier) { 900.0 } else { 25.0 }, replay_sample: 16, ..Default::default() }));
    run.finish()
}

// ------------------------------------------------------------------ component level

pub mod component {
    //! Exhaustive operation sequences with *arbitrary* sector sets (valid, partly invalid,
    //! already terminated…) on the real `Partition` over a memory store. After every accepted
    //! call everything is recomputed from the individual sectors, and every returned power delta
    //! must equal the change of the partition's active power.
    use crate::miner::{PP, bf, part_view};
    use crate::minercheck::check_partition;
    use crate::util::*;
    use fil_actor_miner::{Partition, PowerPair, QuantSpec, SectorOnChainInfo, SectorOnChainInfoFlags, Sectors, power_for_sector};
    use fil_actors_runtime::runtime::Policy;
    use fil_actors_runtime::test_utils::make_sealed_cid;
    use fvm_ipld_amt::Amt;
    use fvm_shared::bigint::BigInt;
    use fvm_shared::econ::TokenAmount;
    use fvm_shared::sector::{RegisteredSealProof, SectorSize};
    use mcvm::Store;
    use mcx::{Key, Scenario, Step};
    use num_traits::Zero;
    use serde::{Deserialize, Serialize};
    use std::collections::BTreeMap;

    pub const SS: SectorSize = SectorSize::_2KiB;
    pub const UNIT: i64 = 24;

    #[derive(Clone, Debug, Serialize, Deserialize)]
    pub enum Op {
        Add { set: Vec<u64>, proven: bool },
        RecordFaults(Vec<u64>),
        DeclareRecovered(Vec<u64>),
        RecoverFaults,
        ActivateUnproven,
        SkippedFaults(Vec<u64>),
        MissedPost,
        Terminate(Vec<u64>),
        PopExpired(u8),
        PopEarly(u64),
        Reschedule(Vec<u64>),
    }

    #[derive(Clone)]
    pub struct CS {
        pub p: Partition,
        pub infos: BTreeMap<u64, SectorOnChainInfo>,
        pub now: i64,
        pub offset: i64,
        pub ops_left: u8,
    }

    pub struct PartitionOps {
        pub ops: u8,
        pub sets: Vec<Vec<u64>>,
    }

    fn info(n: u64, expiration: i64, qa_mult: u64) -> SectorOnChainInfo {
        SectorOnChainInfo {
            sector_number: n,
            seal_proof: RegisteredSealProof::StackedDRG2KiBV1P1,
            sealed_cid: make_sealed_cid(format!("s{n}").as_bytes()),
            deprecated_deal_ids: vec![],
            activation: 0,
            expiration,
            deal_weight: BigInt::zero(),
            // a verified sector: weight = space x duration (qa_mult 10 => fully verified)
            verified_deal_weight: if qa_mult > 1 { BigInt::from(2048u64) * BigInt::from(expiration) } else { BigInt::zero() },
            initial_pledge: TokenAmount::from_atto(1000 + n),
            expected_day_reward: None,
            expected_storage_pledge: None,
            power_base_epoch: 0,
            replaced_day_reward: None,
            sector_key_cid: None,
            flags: SectorOnChainInfoFlags::SIMPLE_QA_POWER,
            daily_fee: TokenAmount::from_atto(10 + n),
        }
    }

    fn sectors_amt<'a>(store: &'a Store, infos: &BTreeMap<u64, SectorOnChainInfo>) -> Sectors<'a, Store> {
        let mut amt = Amt::new_with_bit_width(store, 5);
        for (n, i) in infos {
            amt.set(*n, i.clone()).unwrap();
        }
        Sectors { amt }
    }

    fn active_power(v: &crate::miner::PartView, infos: &BTreeMap<u64, SectorOnChainInfo>) -> PP {
        let mut r = BigInt::zero();
        let mut q = BigInt::zero();
        for s in v.sectors.iter().filter(|s| !v.terminated.contains(s) && !v.faults.contains(s) && !v.unproven.contains(s)) {
            let p = power_for_sector(SS, &infos[s]);
            r += p.raw;
            q += p.qa;
        }
        (r, q)
    }

    impl Scenario for PartitionOps {
        type S = CS;
        type A = Op;
        type W = Store;
        fn name(&self) -> String {
            "partition-component".into()
        }
        fn worker(&self, store: &Store) -> Store {
            store.clone()
        }
        fn bases(&self, store: &Store) -> Vec<(String, CS)> {
            let mut out = vec![];
            for off in [0i64, 5] {
                // sectors 1,2 expire in the same quantised slot, 3 later, 4 far; 2 is verified
                let infos: BTreeMap<u64, SectorOnChainInfo> =
                    [(1, info(1, 30, 1)), (2, info(2, 31, 10)), (3, info(3, 60, 1)), (4, info(4, 400, 1))].into_iter().collect();
                out.push((format!("empty-partition-offset-{off}"), CS { p: Partition::new(store).unwrap(), infos, now: 10, offset: off, ops_left: self.ops }));
            }
            out
        }
        fn key(&self, s: &CS) -> Key {
            let bz = fvm_ipld_encoding::to_vec(&s.p).unwrap();
            let exps: Vec<i64> = s.infos.values().map(|i| i.expiration).collect();
            mcx::hash_key(&[&bz, &s.now.to_le_bytes(), &s.offset.to_le_bytes(), &[s.ops_left], format!("{exps:?}").as_bytes()])
        }
        fn kind(&self, a: &Op) -> String {
            format!("{a:?}").split(|c| c == '(' || c == ' ' || c == '{').next().unwrap().to_string()
        }
        fn actions(&self, _w: &Store, s: &CS) -> Vec<Op> {
            if s.ops_left == 0 {
                return vec![];
            }
            let mut v = vec![];
            for set in &self.sets {
                v.push(Op::Add { set: set.clone(), proven: true });
                v.push(Op::Add { set: set.clone(), proven: false });
                v.push(Op::RecordFaults(set.clone()));
                v.push(Op::DeclareRecovered(set.clone()));
                v.push(Op::SkippedFaults(set.clone()));
                v.push(Op::Terminate(set.clone()));
                v.push(Op::Reschedule(set.clone()));
            }
            v.push(Op::RecoverFaults);
            v.push(Op::ActivateUnproven);
            v.push(Op::MissedPost);
            for k in 0..3 {
                v.push(Op::PopExpired(k));
            }
            v.push(Op::PopEarly(1));
            v.push(Op::PopEarly(10));
            v
        }
        fn step(&self, store: &Store, s: &CS, a: &Op, _f: &[usize]) -> Step<CS> {
            let mut n = s.clone();
            n.ops_left -= 1;
            let quant = QuantSpec { unit: UNIT, offset: s.offset };
            let policy = Policy::default();
            let before = part_view(store, &s.p, quant);
            let act0 = active_power(&before, &s.infos);
            let fault_exp = s.now + 48;
            let sectors = sectors_amt(store, &s.infos);
            // (accepted, power delta the op reported, if any)
            let res: Result<Option<PowerPair>, String> = (|| match a {
                Op::Add { set, proven } => {
                    if set.iter().any(|x| !s.infos.contains_key(x)) {
                        return Err("unknown sector".to_string());
                    }
                    let infos: Vec<SectorOnChainInfo> = set.iter().map(|x| s.infos[x].clone()).collect();
                    let (power, _fee) = n.p.add_sectors(store, *proven, &infos, SS, quant).map_err(|e| e.to_string())?;
                    Ok(if *proven { Some(power) } else { Some(PowerPair::zero()) })
                }
                Op::RecordFaults(set) => {
                    let (_nf, delta, _nfp) = n.p.record_faults(store, &sectors, &bf(set), fault_exp, SS, quant).map_err(|e| e.to_string())?;
                    Ok(Some(delta))
                }
                Op::DeclareRecovered(set) => {
                    n.p.declare_faults_recovered(&sectors, SS, &bf(set)).map_err(|e| e.to_string())?;
                    Ok(Some(PowerPair::zero()))
                }
                Op::RecoverFaults => {
                    let p = n.p.recover_faults(store, &sectors, SS, quant).map_err(|e| e.to_string())?;
                    Ok(Some(p))
                }
                Op::ActivateUnproven => Ok(Some(n.p.activate_unproven())),
                Op::SkippedFaults(set) => {
                    let (delta, _, _, _) = n.p.record_skipped_faults(store, &sectors, SS, quant, fault_exp, &bf(set)).map_err(|e| e.to_string())?;
                    Ok(Some(delta))
                }
                Op::MissedPost => {
                    let (delta, _, _) = n.p.record_missed_post(store, fault_exp, quant).map_err(|e| e.to_string())?;
                    Ok(Some(delta))
                }
                Op::Terminate(set) => {
                    let (removed, _unproven) = n.p.terminate_sectors(&policy, store, &sectors, s.now, &bf(set), SS, quant).map_err(|e| e.to_string())?;
                    let mut d = removed.active_power.clone();
                    d = PowerPair { raw: -d.raw, qa: -d.qa };
                    Ok(Some(d))
                }
                Op::PopExpired(k) => {
                    let until = match k {
                        0 => s.now,
                        1 => quant.quantize_up(31),
                        _ => quant.quantize_up(60),
                    };
                    let popped = n.p.pop_expired_sectors(store, until, quant).map_err(|e| e.to_string())?;
                    Ok(Some(PowerPair { raw: -popped.active_power.raw, qa: -popped.active_power.qa }))
                }
                Op::PopEarly(max) => {
                    n.p.pop_early_terminations(store, *max).map_err(|e| e.to_string())?;
                    Ok(Some(PowerPair::zero()))
                }
                Op::Reschedule(set) => {
                    let new_exp = 90;
                    let moved = n.p.reschedule_expirations(store, &sectors, new_exp, &bf(set), SS, quant).map_err(|e| e.to_string())?;
                    for i in moved {
                        // the caller of reschedule_expirations guarantees unchanged power: keep the
                        // verified space constant by rebasing the weight on the new duration
                        let e = n.infos.get_mut(&i.sector_number).unwrap();
                        if !e.verified_deal_weight.is_zero() {
                            e.verified_deal_weight = BigInt::from(2048u64) * BigInt::from(new_exp);
                        }
                        e.expiration = new_exp;
                    }
                    Ok(Some(PowerPair::zero()))
                }
            })();
            match res {
                Err(_) => {
                    // rejected: the actor discards the partition (transaction rollback)
                    let mut back = s.clone();
                    back.ops_left = n.ops_left;
                    Step::new(back, "rejected")
                }
                Ok(delta) => {
                    let after = part_view(store, &n.p, quant);
                    let mut st = Step::new(n.clone(), "accepted");
                    st.agreed = 1;
                    if let Err(e) = check_partition("partition", &after, &n.infos, quant) {
                        st.violation = Some(format!("after {a:?}: {e}"));
                    } else if let Some(d) = delta {
                        let act1 = active_power(&after, &n.infos);
                        let got = (&act1.0 - &act0.0, &act1.1 - &act0.1);
                        if (d.raw.clone(), d.qa.clone()) != got {
                            st.violation = Some(format!("after {a:?}: reported power delta ({}, {}) != change of the active power {:?}", d.raw, d.qa, got));
                        }
                    }
                    st
                }
            }
        }
        fn describe(&self) -> serde_json::Value {
            serde_json::json!({"component": "fil_actor_miner::Partition over a memory store", "sectors": "4 (two sharing a quantised expiration, one verified)", "sets": self.sets, "ops": self.ops, "quant_offsets": [0, 5]})
        }
    }

    pub fn scenario(tier: &str) -> PartitionOps {
        let all: Vec<Vec<u64>> = (1u64..16).map(|m| (0..4).filter(|b| m & (1 << b) != 0).map(|b| b + 1).collect()).collect();
        if tier_is_thorough(tier) {
            PartitionOps { ops: 6, sets: all }
        } else {
            PartitionOps { ops: 4, sets: vec![vec![1], vec![2], vec![1, 2], vec![3], vec![1, 3], vec![1, 2, 3, 4], vec![4, 9]] }
        }
    }
}
