use checks::*;
use serde_json::Value;

fn replay(file: &str) -> ! {
    let txt = std::fs::read_to_string(file).expect("replay file readable");
    let v: Value = serde_json::from_str(&txt).expect("replay file is JSON");
    let scn = v["scenario"].as_str().unwrap_or("").to_string();
    let tier = v["tier"].as_str().unwrap_or("thorough");
    match scn.as_str() {
        "paych" => replay_with(&c16::scenario(tier).0, &v),
        "market/escrow" => replay_with(&c06::scenario(tier).0, &v),
        "market/payments" => replay_with(&c07::scenario(tier).0, &v),
        "market/lifecycle" => replay_with(&c08::scenario(tier).0, &v),
        "miner-life/c02" => replay_with(&c02::scenario(tier).0, &v),
        "miner-life/c02-burst" => replay_with(&c02::scenario_burst(tier).0, &v),
        "miner-life/c02-dispute" => replay_with(&c02::scenario_dispute(tier).0, &v),
        "miner-life/c03" => replay_with(&c03::scenario(tier).0, &v),
        "miner-life/c03-burst" => replay_with(&c03::scenario_burst(tier).0, &v),
        "miner-life/c04" => replay_with(&c04::scenario(tier).0, &v),
        "miner-life/c04-burst" => replay_with(&c04::scenario_burst(tier).0, &v),
        "miner-life/c05" => replay_with(&c05::scenario(tier).0, &v),
        "miner-life/c05-burst" => replay_with(&c05::scenario_burst(tier).0, &v),
        "miner-life/c05-tick-faults" => replay_with(&c05::scenario_tick_faults(tier).0, &v),
        "miner-life/c05-poor-debt" => replay_with(&c05::scenario_regime(tier, true).0, &v),
        "handover" => replay_with(&c13::scenario(tier).0, &v),
        "miner-life/c15-rich" => replay_with(&c15::scenario_regime(tier, false).0, &v),
        "miner-life/c15-poor" => replay_with(&c15::scenario_regime(tier, true).0, &v),
        "miner-life/c15-et-backlog" => replay_with(&c15::scenario_backlog(tier, "C15", minerlife::Oracles { c15: true, ..Default::default() }).0, &v),
        "miner-life/c14-et-backlog" => replay_with(&c15::scenario_backlog(tier, "C14", minerlife::Oracles { c15: true, ..Default::default() }).0, &v),
        "miner-life/c03-et-backlog" => replay_with(&c15::scenario_backlog(tier, "C03", minerlife::Oracles { c03: true, ..Default::default() }).0, &v),
        "miner-life/c05-et-backlog" => replay_with(&c15::scenario_backlog(tier, "C05", minerlife::Oracles { c05: true, ..Default::default() }).0, &v),
        "c15/fee-grid" => c15::replay_fee_point(&v),
        "miner-life/c15-pledge-only" => replay_with(&c15::scenario_big(tier).0, &v),
        "vesting-component" => replay_with(&c14::scenario_component(tier), &v),
        "withdrawals" => replay_with(&c14::scenario_actor(tier), &v),
        "power-only" => replay_with(&c02::poweronly::PowerOnly { miners: 5 }, &v),
        "partition-component" => replay_with(&c04::component::scenario(tier), &v),
        "c03+withdrawals" => replay_with(&c03::scenario_vesting(tier), &v),
        "multisig" => replay_with(&c12::scenario(tier).0, &v),
        s if s.starts_with("c01") => c01::replay(&v),
        s if s.starts_with("c09") => c09::replay(&v),
        s if s.starts_with("c10") => c10::replay(&v),
        s if s.starts_with("c11") => c11::replay(&v),
        s if s.starts_with("c17") => c17::replay(&v),
        s if s.starts_with("c18") => c18::replay(&v),
        s if s.starts_with("c19") => c19::replay(&v),
        s if s.starts_with("c20") => c20::replay(&v),
        _ => {
            eprintln!("unknown scenario {scn}");
            std::process::exit(2)
        }
    }
}

fn main() {
    mcvm::install_panic_hook();
    // a panic in the harness itself (set-up recipe failed, internal error) is a machinery failure
    let r = std::panic::catch_unwind(real_main);
    if r.is_err() {
        eprintln!("MACHINERY-FAILURE: the harness panicked (see above); this is not a verdict");
        std::process::exit(2);
    }
}

fn real_main() {
    let args: Vec<String> = std::env::args().collect();
    if args.len() < 2 {
        eprintln!("usage: mc <Cxx> [quick|thorough] | mc replay <file>");
        std::process::exit(2);
    }
    let tier = args.get(2).cloned().or(std::env::var("VERIF_TIER").ok()).unwrap_or("quick".into());
    match args[1].to_uppercase().as_str() {
        "REPLAY" => replay(&args[2]),
        "C01" => c01::run(&tier),
        "C02" => c02::run(&tier),
        "C03" => c03::run(&tier),
        "C04" => c04::run(&tier),
        "C05" => c05::run(&tier),
        "C06" => c06::run(&tier),
        "C07" => c07::run(&tier),
        "C08" => c08::run(&tier),
        "C09" => c09::run(&tier),
        "C10" => c10::run(&tier),
        "C11" => c11::run(&tier),
        "C12" => c12::run(&tier),
        "C13" => c13::run(&tier),
        "C14" => c14::run(&tier),
        "C15" => c15::run(&tier),
        "C16" => c16::run(&tier),
        "C17" => c17::run(&tier),
        "C18" => c18::run(&tier),
        "C19" => c19::run(&tier),
        "C20" => c20::run(&tier),
        x => {
            eprintln!("unknown check {x}");
            std::process::exit(2);
        }
    }
}
