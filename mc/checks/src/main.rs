mod c06;
mod c07;
mod c08;
mod c12;
mod c16;
mod chain;
mod market;
mod util;

use mcx::Scenario;
use serde_json::Value;

fn replay_with<Sc: Scenario>(scn: &Sc, v: &Value) -> ! {
    let base = v["base"].as_str().unwrap();
    let mut path = vec![];
    for st in v["path"].as_array().unwrap() {
        let a: Sc::A = serde_json::from_value(st["action"].clone()).expect("action decodes");
        let f: Vec<usize> = serde_json::from_value(st["faults"].clone()).unwrap();
        path.push((a, f));
    }
    match mcx::replay_path(scn, base, &path) {
        Ok(Some(msg)) => {
            println!("REPRODUCED property={} {}", v["property"].as_str().unwrap_or("?"), msg);
            std::process::exit(1);
        }
        Ok(None) => {
            println!("NOT-REPRODUCED: the recorded path passes on this tree");
            std::process::exit(0);
        }
        Err(e) => {
            eprintln!("replay machinery error: {e}");
            std::process::exit(2);
        }
    }
}

fn replay(file: &str) -> ! {
    let txt = std::fs::read_to_string(file).expect("replay file readable");
    let v: Value = serde_json::from_str(&txt).expect("replay file is JSON");
    let scn = v["scenario"].as_str().unwrap_or("");
    let tier = v["tier"].as_str().unwrap_or("thorough");
    match scn {
        "paych" => replay_with(&c16::scenario(tier).0, &v),
        "market/escrow" => replay_with(&c06::scenario(tier).0, &v),
        "market/payments" => replay_with(&c07::scenario(tier).0, &v),
        "market/lifecycle" => replay_with(&c08::scenario(tier).0, &v),
        "multisig" => replay_with(&c12::scenario(tier).0, &v),
        _ => {
            eprintln!("unknown scenario {scn}");
            std::process::exit(2)
        }
    }
}

fn main() {
    mcvm::install_panic_hook();
    let args: Vec<String> = std::env::args().collect();
    if args.len() < 2 {
        eprintln!("usage: mc <Cxx> [quick|thorough] | mc replay <file>");
        std::process::exit(2);
    }
    let tier = std::env::var("VERIF_TIER").ok().or(args.get(2).cloned()).unwrap_or("quick".into());
    let tier = if args.get(2).is_some() { args[2].clone() } else { tier };
    match args[1].to_uppercase().as_str() {
        "REPLAY" => replay(&args[2]),
        "C16" => c16::run(&tier),
        "C12" => c12::run(&tier),
        "C06" => c06::run(&tier),
        "C07" => c07::run(&tier),
        "C08" => c08::run(&tier),
        x => {
            eprintln!("unknown check {x}");
            std::process::exit(2);
        }
    }
}
