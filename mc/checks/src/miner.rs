//! Miner infrastructure: the SMALL policy, cast, operations as real messages, and a decoded
//! view of a miner (sectors, deadlines, partitions, queues, power claim). DESIGN §2.5, §3 C02-C05.
use crate::chain::*;
use crate::util::*;
use fil_actor_miner::{
    DeadlineInfo, DeclareFaultsParams, DeclareFaultsRecoveredParams, DisputeWindowedPoStParams,
    ExpirationQueue, FaultDeclaration, Method as MinerMethod, PoStPartition, PowerPair,
    ProveCommitSectorsNIParams, RecoveryDeclaration, SectorNIActivationInfo, SectorOnChainInfo,
    Sectors, State as MinerState, SubmitWindowedPoStParams, TerminateSectorsParams,
    TerminationDeclaration, BitFieldQueue, NO_QUANTIZATION, CompactPartitionsParams,
};
use fil_actor_power::State as PowerState;
use fil_actor_reward::{AwardBlockRewardParams, Method as RewardMethod};
use fil_actors_runtime::runtime::{DomainSeparationTag, Policy};
use fil_actors_runtime::test_utils::make_sealed_cid;
use fil_actors_runtime::{REWARD_ACTOR_ADDR, STORAGE_POWER_ACTOR_ADDR, SYSTEM_ACTOR_ADDR};
use fvm_ipld_bitfield::BitField;
use fvm_ipld_encoding::RawBytes;
use fvm_shared::ActorID;
use fvm_shared::bigint::BigInt;
use fvm_shared::clock::ChainEpoch;
use fvm_shared::econ::TokenAmount;
use fvm_shared::randomness::Randomness;
use fvm_shared::sector::{
    PoStProof, RegisteredAggregateProof, RegisteredPoStProof, RegisteredSealProof, StoragePower,
};
use mcvm::{Inv, MsgKind, Vm, fake_randomness};
use num_traits::Zero;
use std::collections::{BTreeMap, BTreeSet};

pub const SECTOR_SIZE: u64 = 2048;
pub const POST_PROOF: RegisteredPoStProof = RegisteredPoStProof::StackedDRGWindow2KiBV1P1;
pub const SEAL_PROOF_NI: RegisteredSealProof = RegisteredSealProof::StackedDRG2KiBV1P2_Feat_NiPoRep;
pub const SEAL_PROOF: RegisteredSealProof = RegisteredSealProof::StackedDRG2KiBV1P1;

/// The SMALL configuration: same code, scaled parameters (DESIGN §2.5).
pub fn small_policy() -> Policy {
    timing_policy(true)
}

/// SMALL timing with 64 GiB sectors: pledges and penalties are FIL-scale (a 64 GiB sector's
/// initial pledge hits the 2 FIL cap), so a miner can hold several FIL of pledge and nothing else.
pub fn big_policy() -> Policy {
    timing_policy(false)
}

/// SMALL with one partition per message and per early-termination processing call.
pub fn backlog_policy() -> Policy {
    let mut p = timing_policy(true);
    p.addressed_partitions_max = 1;
    p
}

fn timing_policy(two_k: bool) -> Policy {
    let mut p = Policy::default();
    p.wpost_proving_period = 24;
    p.wpost_challenge_window = 6;
    p.wpost_period_deadlines = 4;
    p.wpost_max_chain_commit_age = 6;
    p.chain_finality = 3;
    p.wpost_dispute_window = 6;
    p.wpost_challenge_lookback = 1;
    p.fault_declaration_cutoff = 2;
    p.fault_max_age = 48;
    p.worker_key_change_delay = 3;
    p.consensus_fault_ineligibility_duration = 3;
    p.min_sector_expiration = 72;
    // must exceed the hard-coded 30-day maximum prove-commit duration or pre-commits can never validate
    p.max_sector_expiration_extension = 100_000;
    p.pre_commit_challenge_delay = 2;
    p.max_pre_commit_randomness_lookback = 24 + 3;
    p.expired_pre_commit_clean_up_delay = 4;
    p.minimum_consensus_power = StoragePower::from(2 * SECTOR_SIZE);
    p.minimum_verified_allocation_size = StoragePower::from(256);
    p.minimum_verified_allocation_term = 72;
    p.maximum_verified_allocation_term = 1440;
    p.maximum_verified_allocation_expiration = 48;
    p.end_of_life_claim_drop_period = 24;
    p.deal_updates_interval = 48;
    p.market_default_allocation_term_buffer = 24;
    if two_k {
        p.valid_post_proof_type.insert(POST_PROOF);
        p.valid_pre_commit_proof_type.insert(SEAL_PROOF);
        p.valid_pre_commit_proof_type.insert(RegisteredSealProof::StackedDRG2KiBV1P1_Feat_SyntheticPoRep);
        p.valid_prove_commit_ni_proof_type.insert(SEAL_PROOF_NI);
    }
    p
}

pub fn is_big(vm: &Vm) -> bool {
    !vm.policy.valid_post_proof_type.contains(POST_PROOF)
}
pub fn post_proof(vm: &Vm) -> RegisteredPoStProof {
    if is_big(vm) { RegisteredPoStProof::StackedDRGWindow64GiBV1P1 } else { POST_PROOF }
}
pub fn seal_proof_ni(vm: &Vm) -> RegisteredSealProof {
    if is_big(vm) { RegisteredSealProof::StackedDRG64GiBV1P2_Feat_NiPoRep } else { SEAL_PROOF_NI }
}
pub fn seal_proof(vm: &Vm) -> RegisteredSealProof {
    if is_big(vm) { RegisteredSealProof::StackedDRG64GiBV1P1 } else { SEAL_PROOF }
}

#[derive(Clone, Debug)]
pub struct MinerCast {
    pub o: ActorID,
    pub w: ActorID,
    pub c: ActorID,
    pub z: ActorID,
    pub m: ActorID,
    /// ballast miner and its owner
    pub bm: ActorID,
    pub bo: ActorID,
    /// creation deposits locked by the constructors (KF-1 bookkeeping)
    pub dep_m: TokenAmount,
    pub dep_bm: TokenAmount,
    /// bystander miners (owner = worker = `c`): active miners that behave by default
    pub extra: Vec<ActorID>,
}

/// Genesis + accounts + ballast miner (with a large locked reward) + the subject miner.
pub fn setup(vm: &Vm, ballast: bool) -> MinerCast {
    setup_with(vm, ballast, None)
}

/// `poor_margin`: when Some(x), the subject miner is created with exactly its creation deposit + x
/// (all of its funds are vesting; penalties must be drawn from the vesting table).
pub fn setup_with(vm: &Vm, ballast: bool, poor_margin: Option<TokenAmount>) -> MinerCast {
    vm.bump_nonce.set(true);
    let o = vm.new_account(11, &fil(100_000)).0;
    let w = vm.new_account(12, &fil(100_000)).0;
    let c = vm.new_account(13, &fil(100_000)).0;
    let z = vm.new_account(14, &fil(100_000)).0;
    let bo = vm.new_account(15, &fil(100_000)).0;
    for _ in 0..2 {
        vm.tick();
    }
    let bm = create_miner(vm, bo, bo, post_proof(vm), &fil(1000)).unwrap_or_else(|r| panic!("SETUP-FAILED ballast miner: {}", r.tree()));
    let dep_bm: TokenAmount = vm.state_of::<MinerState>(bm).unwrap().locked_funds;
    if ballast {
        for _ in 0..40 {
            let r = award(vm, bm, &TokenAmount::zero(), &TokenAmount::zero());
            assert!(r.ok() && r.flat().iter().all(|i| i.ok()), "SETUP-FAILED ballast reward: {}", r.tree());
        }
    }
    let value = match &poor_margin {
        None => fil(1000),
        Some(margin) => {
            // learn the deposit from a trial creation, then roll back
            let snap = vm.snapshot();
            let t = create_miner(vm, o, w, post_proof(vm), &fil(1000)).unwrap_or_else(|r| panic!("SETUP-FAILED create miner: {}", r.tree()));
            let d: TokenAmount = vm.state_of::<MinerState>(t).unwrap().locked_funds;
            vm.restore(&snap);
            d + margin
        }
    };
    let m = create_miner(vm, o, w, post_proof(vm), &value).unwrap_or_else(|r| panic!("SETUP-FAILED create miner: {}", r.tree()));
    let dep_m: TokenAmount = vm.state_of::<MinerState>(m).unwrap().locked_funds;
    vm.bump_nonce.set(false);
    MinerCast { o, w, c, z, m, bm, bo, dep_m, dep_bm, extra: vec![] }
}

/// Implicit block reward message.
pub fn award(vm: &Vm, miner: ActorID, penalty: &TokenAmount, gas_reward: &TokenAmount) -> Inv {
    vm.apply(
        MsgKind::Implicit,
        &SYSTEM_ACTOR_ADDR,
        &REWARD_ACTOR_ADDR,
        &TokenAmount::zero(),
        RewardMethod::AwardBlockReward as u64,
        params(&AwardBlockRewardParams { miner: id(miner), penalty: penalty.clone(), gas_reward: gas_reward.clone(), win_count: 1 }),
    )
}

pub fn bf(v: &[u64]) -> BitField {
    let mut b = BitField::new();
    for x in v {
        b.set(*x);
    }
    b
}

pub fn bf_set(b: &BitField) -> BTreeSet<u64> {
    b.iter().collect()
}

// ------------------------------------------------------------------ operations

pub fn ni_commit(vm: &Vm, by: ActorID, m: ActorID, sectors: &[u64], deadline: u64, expiration: ChainEpoch) -> Inv {
    let now = vm.epoch();
    let p = ProveCommitSectorsNIParams {
        sectors: sectors
            .iter()
            .map(|&n| SectorNIActivationInfo {
                sealing_number: n,
                sealer_id: m,
                sealed_cid: make_sealed_cid(format!("sealed-{m}-{n}").as_bytes()),
                sector_number: n,
                seal_rand_epoch: now - 1,
                expiration,
            })
            .collect(),
        aggregate_proof: RawBytes::new(vec![1u8; 1024]),
        seal_proof_type: seal_proof_ni(vm),
        aggregate_proof_type: RegisteredAggregateProof::SnarkPackV2,
        proving_deadline: deadline,
        require_activation_success: true,
    };
    ext(vm, by, &id(m), &TokenAmount::zero(), MinerMethod::ProveCommitSectorsNI as u64, Some(&p))
}

pub fn submit_post(vm: &Vm, by: ActorID, m: ActorID, deadline: u64, parts: &[(u64, Vec<u64>)], bad: bool) -> Inv {
    let now = vm.epoch();
    let commit_epoch = now - 1;
    let rand = fake_randomness(1, DomainSeparationTag::PoStChainCommit as i64, commit_epoch, &[]);
    let p = SubmitWindowedPoStParams {
        deadline,
        partitions: parts.iter().map(|(i, s)| PoStPartition { index: *i, skipped: bf(s) }).collect(),
        proofs: vec![PoStProof {
            post_proof: post_proof(vm),
            proof_bytes: if bad { mcvm::BAD_PROOF.to_vec() } else { b"good-proof".to_vec() },
        }],
        chain_commit_epoch: commit_epoch,
        chain_commit_rand: Randomness(rand.to_vec()),
    };
    ext(vm, by, &id(m), &TokenAmount::zero(), MinerMethod::SubmitWindowedPoSt as u64, Some(&p))
}

pub fn declare_faults(vm: &Vm, by: ActorID, m: ActorID, decls: &[(u64, u64, Vec<u64>)]) -> Inv {
    let p = DeclareFaultsParams {
        faults: decls.iter().map(|(d, p, s)| FaultDeclaration { deadline: *d, partition: *p, sectors: bf(s) }).collect(),
    };
    ext(vm, by, &id(m), &TokenAmount::zero(), MinerMethod::DeclareFaults as u64, Some(&p))
}

pub fn declare_recovered(vm: &Vm, by: ActorID, m: ActorID, decls: &[(u64, u64, Vec<u64>)]) -> Inv {
    let p = DeclareFaultsRecoveredParams {
        recoveries: decls.iter().map(|(d, p, s)| RecoveryDeclaration { deadline: *d, partition: *p, sectors: bf(s) }).collect(),
    };
    ext(vm, by, &id(m), &TokenAmount::zero(), MinerMethod::DeclareFaultsRecovered as u64, Some(&p))
}

pub fn terminate(vm: &Vm, by: ActorID, m: ActorID, decls: &[(u64, u64, Vec<u64>)]) -> Inv {
    let p = TerminateSectorsParams {
        terminations: decls.iter().map(|(d, p, s)| TerminationDeclaration { deadline: *d, partition: *p, sectors: bf(s) }).collect(),
    };
    ext(vm, by, &id(m), &TokenAmount::zero(), MinerMethod::TerminateSectors as u64, Some(&p))
}

/// ExtendSectorExpiration2 with plain (claim-less) declarations (deadline, partition, sectors, new expiration).
pub fn extend2(vm: &Vm, by: ActorID, m: ActorID, decls: &[(u64, u64, Vec<u64>, ChainEpoch)]) -> Inv {
    let p = fil_actor_miner::ExtendSectorExpiration2Params {
        extensions: decls
            .iter()
            .map(|(d, p, s, e)| fil_actor_miner::ExpirationExtension2 { deadline: *d, partition: *p, sectors: bf(s), sectors_with_claims: vec![], new_expiration: *e })
            .collect(),
    };
    ext(vm, by, &id(m), &TokenAmount::zero(), MinerMethod::ExtendSectorExpiration2 as u64, Some(&p))
}

pub fn dispute(vm: &Vm, by: ActorID, m: ActorID, deadline: u64, post_index: u64) -> Inv {
    ext(vm, by, &id(m), &TokenAmount::zero(), MinerMethod::DisputeWindowedPoSt as u64, Some(&DisputeWindowedPoStParams { deadline, post_index }))
}

pub fn compact(vm: &Vm, by: ActorID, m: ActorID, deadline: u64, parts: &[u64]) -> Inv {
    ext(vm, by, &id(m), &TokenAmount::zero(), MinerMethod::CompactPartitions as u64, Some(&CompactPartitionsParams { deadline, partitions: bf(parts) }))
}

// ------------------------------------------------------------------ decoded view

pub type PP = (BigInt, BigInt);

#[derive(Clone, Debug, PartialEq, Eq)]
pub struct QEntry {
    pub on_time: BTreeSet<u64>,
    pub early: BTreeSet<u64>,
    pub on_time_pledge: TokenAmount,
    pub active_power: PP,
    pub faulty_power: PP,
    pub fee_deduction: TokenAmount,
}

#[derive(Clone, Debug, PartialEq, Eq)]
pub struct PartView {
    pub sectors: BTreeSet<u64>,
    pub unproven: BTreeSet<u64>,
    pub faults: BTreeSet<u64>,
    pub recoveries: BTreeSet<u64>,
    pub terminated: BTreeSet<u64>,
    pub live_power: PP,
    pub unproven_power: PP,
    pub faulty_power: PP,
    pub recovering_power: PP,
    /// expiration queue: epoch -> entry
    pub queue: BTreeMap<i64, QEntry>,
    /// early-termination queue: epoch -> sectors
    pub early_terminated: BTreeMap<i64, BTreeSet<u64>>,
}

#[derive(Clone, Debug, PartialEq, Eq)]
pub struct DlView {
    pub parts: Vec<PartView>,
    pub posted: BTreeSet<u64>,
    pub early_terminations: BTreeSet<u64>,
    pub live_sectors: u64,
    pub total_sectors: u64,
    pub faulty_power: PP,
    pub live_power: PP,
    pub daily_fee: TokenAmount,
    /// deadline-level expiration index: epoch -> partitions
    pub exp_index: BTreeMap<i64, BTreeSet<u64>>,
    pub optimistic_posts: usize,
    pub optimistic_posts_snapshot: usize,
}

#[derive(Clone, Debug)]
pub struct MinerView {
    pub id: ActorID,
    pub balance: TokenAmount,
    pub st: MinerState,
    pub sectors: BTreeMap<u64, SectorOnChainInfo>,
    pub dls: Vec<DlView>,
    pub claim: Option<(BigInt, BigInt)>,
    pub allocated: BTreeSet<u64>,
    pub precommits: BTreeMap<u64, TokenAmount>,
    pub vesting: Vec<(i64, TokenAmount)>,
    pub dl_info: DeadlineInfo,
}

pub fn pp(p: &PowerPair) -> PP {
    (p.raw.clone(), p.qa.clone())
}

pub fn view(vm: &Vm, m: ActorID) -> Option<MinerView> {
    let st: MinerState = vm.state_of(m)?;
    let store = &vm.store;
    let policy = &vm.policy;
    let mut sectors = BTreeMap::new();
    Sectors::load(store, &st.sectors)
        .unwrap()
        .amt
        .for_each(|i, s| {
            sectors.insert(i, s.clone());
            Ok(())
        })
        .unwrap();
    let deadlines = st.load_deadlines(store).unwrap();
    let mut dls = vec![];
    for di in 0..policy.wpost_period_deadlines {
        let dl = deadlines.load_deadline(store, di).unwrap();
        let mut parts = vec![];
        let quant = st.quant_spec_for_deadline(policy, di);
        dl.partitions_amt(store)
            .unwrap()
            .for_each(|_, p| {
                parts.push(part_view(store, p, quant));
                Ok(())
            })
            .unwrap();
        let mut exp_index = BTreeMap::new();
        BitFieldQueue::new(store, &dl.expirations_epochs, quant)
            .unwrap()
            .amt
            .for_each(|e, s| {
                exp_index.insert(e as i64, bf_set(s));
                Ok(())
            })
            .unwrap();
        dls.push(DlView {
            parts,
            posted: bf_set(&dl.partitions_posted),
            early_terminations: bf_set(&dl.early_terminations),
            live_sectors: dl.live_sectors,
            total_sectors: dl.total_sectors,
            faulty_power: pp(&dl.faulty_power),
            live_power: pp(&dl.live_power),
            daily_fee: dl.daily_fee.clone(),
            exp_index,
            optimistic_posts: dl.optimistic_proofs_amt(store).unwrap().count() as usize,
            optimistic_posts_snapshot: dl.optimistic_proofs_snapshot_amt(store).unwrap().count() as usize,
        });
    }
    let ps: PowerState = vm.state_of(STORAGE_POWER_ACTOR_ADDR.id().unwrap()).unwrap();
    let claim = ps.get_claim(store, &id(m)).unwrap().map(|c| (c.raw_byte_power, c.quality_adj_power));
    let allocated: BTreeSet<u64> = {
        let b: BitField = fvm_ipld_encoding::CborStore::get_cbor(store, &st.allocated_sectors).unwrap().unwrap();
        bf_set(&b)
    };
    let mut precommits = BTreeMap::new();
    fil_actor_miner::PreCommitMap::load(store, &st.pre_committed_sectors, fil_actor_miner::PRECOMMIT_CONFIG, "pc")
        .unwrap()
        .for_each(|k, v| {
            precommits.insert(k, v.pre_commit_deposit.clone());
            Ok(())
        })
        .unwrap();
    let vesting: Vec<(i64, TokenAmount)> = st.vesting_funds.load(store).unwrap().iter().map(|f| (f.epoch, f.amount.clone())).collect();
    let dl_info = st.deadline_info(policy, vm.epoch());
    Some(MinerView { id: m, balance: vm.balance(m), st, sectors, dls, claim, allocated, precommits, vesting, dl_info })
}

impl MinerView {
    /// (deadline, partition) of every sector number present in any partition
    pub fn locations(&self) -> BTreeMap<u64, Vec<(u64, u64)>> {
        let mut m: BTreeMap<u64, Vec<(u64, u64)>> = BTreeMap::new();
        for (di, d) in self.dls.iter().enumerate() {
            for (pi, p) in d.parts.iter().enumerate() {
                for s in &p.sectors {
                    m.entry(*s).or_default().push((di as u64, pi as u64));
                }
            }
        }
        m
    }
    pub fn part_of(&self, s: u64) -> Option<(u64, u64, &PartView)> {
        for (di, d) in self.dls.iter().enumerate() {
            for (pi, p) in d.parts.iter().enumerate() {
                if p.sectors.contains(&s) {
                    return Some((di as u64, pi as u64, p));
                }
            }
        }
        None
    }
    pub fn sector_power(&self, s: &SectorOnChainInfo) -> (BigInt, BigInt) {
        let p = fil_actor_miner::power_for_sector(s.seal_proof.sector_size().unwrap(), s);
        (p.raw, p.qa)
    }
    pub fn has_early_terminations(&self) -> bool {
        !self.st.early_terminations.is_empty()
    }
}

/// Network-level power statistics.
pub fn power_state(vm: &Vm) -> PowerState {
    vm.state_of(STORAGE_POWER_ACTOR_ADDR.id().unwrap()).unwrap()
}

pub fn report_fault(vm: &Vm, by: ActorID, m: ActorID, fault_epoch: ChainEpoch) -> Inv {
    let p = fil_actor_miner::ReportConsensusFaultParams {
        header1: mcvm::fake_fault_header(m, fault_epoch, 1),
        header2: vec![2],
        header_extra: vec![],
    };
    ext(vm, by, &id(m), &TokenAmount::zero(), MinerMethod::ReportConsensusFault as u64, Some(&p))
}

pub fn repay_debt(vm: &Vm, by: ActorID, m: ActorID, value: &TokenAmount) -> Inv {
    ext(vm, by, &id(m), value, MinerMethod::RepayDebt as u64, NOP)
}

pub fn withdraw(vm: &Vm, by: ActorID, m: ActorID, amount: &TokenAmount) -> Inv {
    ext(vm, by, &id(m), &TokenAmount::zero(), MinerMethod::WithdrawBalance as u64, Some(&fil_actor_miner::WithdrawBalanceParams { amount_requested: amount.clone() }))
}

/// Pre-commit a committed-capacity sector (no deals, empty CommD).
pub fn precommit(vm: &Vm, by: ActorID, m: ActorID, number: u64, expiration: ChainEpoch) -> Inv {
    let p = fil_actor_miner::PreCommitSectorBatchParams2 {
        sectors: vec![fil_actor_miner::SectorPreCommitInfo {
            seal_proof: seal_proof(vm),
            sector_number: number,
            sealed_cid: make_sealed_cid(format!("sealed-{m}-{number}").as_bytes()),
            seal_rand_epoch: vm.epoch() - 1,
            deal_ids: vec![],
            expiration,
            unsealed_cid: fil_actor_miner::CompactCommD::empty(),
        }],
    };
    ext(vm, by, &id(m), &TokenAmount::zero(), MinerMethod::PreCommitSectorBatch2 as u64, Some(&p))
}

/// Prove-commit pre-committed committed-capacity sectors (one proof per sector, no pieces).
pub fn prove_commit3(vm: &Vm, by: ActorID, m: ActorID, numbers: &[u64], bad: bool) -> Inv {
    let p = fil_actor_miner::ProveCommitSectors3Params {
        sector_activations: numbers.iter().map(|n| fil_actor_miner::SectorActivationManifest { sector_number: *n, pieces: vec![] }).collect(),
        sector_proofs: numbers.iter().map(|_| RawBytes::new(if bad { mcvm::BAD_PROOF.to_vec() } else { vec![7u8; 192] })).collect(),
        aggregate_proof: RawBytes::default(),
        aggregate_proof_type: None,
        require_activation_success: false,
        require_notification_success: false,
    };
    ext(vm, by, &id(m), &TokenAmount::zero(), MinerMethod::ProveCommitSectors3 as u64, Some(&p))
}

/// Earliest expiration a pre-commit may declare at `now` under `policy`.
pub fn min_precommit_expiration(policy: &Policy, now: ChainEpoch) -> ChainEpoch {
    now + fil_actor_miner::max_prove_commit_duration(policy, if policy.valid_post_proof_type.contains(POST_PROOF) { SEAL_PROOF } else { RegisteredSealProof::StackedDRG64GiBV1P1 }).unwrap() + policy.min_sector_expiration
}

/// Decode one partition (bit-fields, memos, expiration and early-termination queues).
pub fn part_view(store: &mcvm::Store, p: &fil_actor_miner::Partition, quant: fil_actor_miner::QuantSpec) -> PartView {
    let mut queue = BTreeMap::new();
    ExpirationQueue::new(store, &p.expirations_epochs, quant)
        .unwrap()
        .amt
        .for_each(|e, s| {
            queue.insert(
                e as i64,
                QEntry {
                    on_time: bf_set(&s.on_time_sectors),
                    early: bf_set(&s.early_sectors),
                    on_time_pledge: s.on_time_pledge.clone(),
                    active_power: pp(&s.active_power),
                    faulty_power: pp(&s.faulty_power),
                    fee_deduction: s.fee_deduction.clone(),
                },
            );
            Ok(())
        })
        .unwrap();
    let mut early = BTreeMap::new();
    BitFieldQueue::new(store, &p.early_terminated, NO_QUANTIZATION)
        .unwrap()
        .amt
        .for_each(|e, s| {
            early.insert(e as i64, bf_set(s));
            Ok(())
        })
        .unwrap();
    PartView {
        sectors: bf_set(&p.sectors),
        unproven: bf_set(&p.unproven),
        faults: bf_set(&p.faults),
        recoveries: bf_set(&p.recoveries),
        terminated: bf_set(&p.terminated),
        live_power: pp(&p.live_power),
        unproven_power: pp(&p.unproven_power),
        faulty_power: pp(&p.faulty_power),
        recovering_power: pp(&p.recovering_power),
        queue,
        early_terminated: early,
    }
}
