//! C06 — market escrow: locked funds equal outstanding deal obligations.
use crate::market::*;
use crate::util::*;
use mcx::Bounds;

pub fn scenario(tier: &str) -> (Market, Bounds) {
    let th = tier_is_thorough(tier);
    let specs = vec![
        spec(Who::A, Who::M1, 1, 2, 10),
        spec(Who::A, Who::M1, 2, 5, 10),
        spec(Who::B, Who::M2, 3, 2, 10),
        PSpec { sig: Sig::ByStranger, ..spec(Who::A, Who::M1, 4, 2, 10) },
        spec(Who::B, Who::M1, 5, 5, 0),
        PSpec { client_by_key: true, ..spec(Who::A, Who::M1, 1, 2, 10) },
        PSpec { client_by_key: true, ..spec(Who::A, Who::M1, 2, 5, 10) },
    ];
    let mut batches = vec![
        (Who::W1, vec![0]),
        (Who::W1, vec![1]),
        (Who::W1, vec![0, 1]),
        (Who::W1, vec![0, 0]),
        (Who::W1, vec![0, 3]),
        (Who::W1, vec![0, 2]),
        (Who::Z, vec![0]),
        (Who::O2, vec![2]),
        (Who::W1, vec![5, 6]),
        (Who::W1, vec![0, 6]),
    ];
    if th {
        batches.push((Who::W1, vec![4]));
        batches.push((Who::W1, vec![3]));
        batches.push((Who::O1, vec![1, 4]));
    }
    let cfg = Cfg {
        name: "escrow",
        specs,
        batches,
        bases: vec!["funded", "tight", "active-1", "ending-1"],
        publishes: if th { 3 } else { 2 },
        withdraws: 2,
        adds: 1,
        settles: 2,
        terms: 1,
        acts: 2,
        withdraw_sels: vec![0, 1, 2, 3, 4],
        withdraw_callers: vec![Who::A, Who::O1, Who::W1, Who::Z],
        activate_variants: false,
        tick_lookahead: 2,
        boundaries: vec!["start", "cron", "end", "late"],
    };
    let b = if th {
        Bounds { max_depth: 7, max_faults: 1, wall_cap_s: 1500.0, ..Default::default() }
    } else {
        Bounds { max_depth: 4, max_faults: 1, wall_cap_s: 40.0, ..Default::default() }
    };
    (Market { cfg }, b)
}

pub fn run(tier: &str) -> ! {
    let (scn, b) = scenario(tier);
    let mut run = mcx::evidence::Run::new("C06", tier, "model_checking");
    run.assumptions = vec![
        "mcvm mirrors the FVM message semantics; providers are real miner actors, activation/termination calls are impersonated from the miner's address".into(),
        "long time spans use sparse ticking (real cron at every scheduled epoch and at the target)".into(),
        "fault class F1: the payout transfer of every successful withdrawal is failed once (the recipient rejects it); the withdrawal must then fail as a whole".into(),
        "amounts: price 10 or 0 atto/epoch, client collateral 7 atto, provider collateral 1 FIL; minimum deal duration".into(),
    ];
    run.add(mcx::explore(&scn, &b));
    run.finish()
}
