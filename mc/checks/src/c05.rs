//! C05 — miner-life walk (SMALL policy); see minerlife.rs and DESIGN §3 C05.
use crate::minerlife::*;
use crate::util::*;
use mcx::Bounds;

pub fn scenario(tier: &str) -> (Life, Bounds) {
    scenario_regime(tier, false)
}

pub fn scenario_regime(tier: &str, poor_debt: bool) -> (Life, Bounds) {
    let th = tier_is_thorough(tier);
    let cfg = LifeCfg {
        name: if poor_debt { "c05-poor-debt" } else { "c05" },
        periods: if th { 5 } else { 3 },
        devs: if th { 2 } else { 1 },
        bases: if poor_debt { vec!["one-deadline-aged-debt", "long-faulty-debt", "one-deadline-aged-wound-debt"] } else if th { vec!["one-deadline", "two-deadlines", "one-deadline-aged", "two-deadlines-aged"] } else { vec!["one-deadline-aged", "two-deadlines"] },
        oracles: Oracles { c05: true, ..Default::default() },
        sector_sets: if th { sets_all() } else { sets_small() },
        known_open: mcx::evidence::known_open("C05"),
        property: "C05",
        poor: if poor_debt { Some(fvm_shared::econ::TokenAmount::from_nano(1000)) } else { None },
        money_devs: poor_debt,
        precommits: th,
        horizon: None,
        big: false,
        tick_faults: false,
        bystander: false,
        extensions: false,
        backlog: false,
    };
    let b = if th {
        Bounds { max_depth: 400, wall_cap_s: 1500.0, ..Default::default() }
    } else {
        Bounds { max_depth: 400, wall_cap_s: 45.0, ..Default::default() }
    };
    (Life { cfg }, b)
}

/// Bursts: several deviations close together (short horizon), also from a pre-faulted base.
pub fn scenario_burst(tier: &str) -> (Life, Bounds) {
    let (mut l, mut b) = scenario(tier);
    let th = tier_is_thorough(tier);
    l.cfg.name = "c05-burst";
    l.cfg.bases = vec!["one-deadline-aged-f12", "two-deadlines"];
    l.cfg.devs = if th { 3 } else { 2 };
    l.cfg.horizon = Some(if th { 10 } else { 7 });
    l.cfg.precommits = false;
    l.cfg.sector_sets = vec![vec![1], vec![2], vec![1, 2], vec![3]];
    b.wall_cap_s = if th { 900.0 } else { 30.0 };
    (l, b)
}

/// Fault class F2: every nested send of every tick is failed, one at a time; the walk then
/// continues for a proving period in recovery mode (default behaviour, model-free oracles).
pub fn scenario_tick_faults(tier: &str) -> (Life, Bounds) {
    let (mut l, mut b) = scenario(tier);
    let th = tier_is_thorough(tier);
    l.cfg.name = "c05-tick-faults";
    l.cfg.bases = if th { vec!["one-deadline-aged", "two-deadlines", "long-faulty", "one-deadline-aged-f12"] } else { vec!["one-deadline-aged", "long-faulty"] };
    l.cfg.devs = 1;
    l.cfg.periods = if th { 2 } else { 1 };
    l.cfg.horizon = Some(if th { 50 } else { 26 });
    l.cfg.precommits = false;
    l.cfg.tick_faults = true;
    l.cfg.bystander = true;
    l.cfg.sector_sets = sets_small();
    b.max_faults = 1;
    b.wall_cap_s = if th { 900.0 } else { 30.0 };
    (l, b)
}

pub fn run(tier: &str) -> ! {
    let (scn, b) = scenario(tier);
    let mut run = mcx::evidence::Run::new("C05", tier, "model_checking");
    run.assumptions = vec![
        "SMALL policy: same actor code with scaled protocol parameters (24-epoch proving period, 2 KiB sectors, partitions of 2); constants that are not policy (vesting spec, termination fee days) are as on mainnet".into(),
        "mcvm stands in for the FVM; proofs are faked (valid unless marked BAD); the real cron tick runs at every epoch".into(),
        "fault class F2 (scenario c05-tick-faults): any one nested send of a tick fails (the callee does not run, the caller sees a non-zero exit code); judged: the tick as a whole succeeds, nothing panics or reports broken balance invariants, nothing fails except the failed send and the calls containing it, state invariants hold, and for the following proving period every tick succeeds completely and every miner that kept its claim is back on schedule".into(),
        "the market scenario `market/payments` of C07 is explored here as well for its tick oracle (every cron tick, incl. Market.CronTick over deal start / update / end epochs after every settlement and termination schedule, must succeed)".into(),
        "a second 'ballast' miner holds a large locked reward so that the network pledge total stays positive (see KF-1)".into(),
    ];
    run.add(mcx::explore(&scn, &b));
    let (sb, bb) = scenario_burst(tier);
    run.add(mcx::explore(&sb, &bb));
    let (scn2, mut b2) = scenario_regime(tier, true);
    b2.wall_cap_s = if tier_is_thorough(tier) { 900.0 } else { 30.0 };
    run.add(mcx::explore(&scn2, &b2));
    let (sf, bf) = scenario_tick_faults(tier);
    run.add(mcx::explore(&sf, &bf));
    // a backlog of early terminations (one partition per processing call) must be worked off
    let (sk, bk) = crate::c15::scenario_backlog(tier, "C05", Oracles { c05: true, ..Default::default() });
    run.add(mcx::explore(&sk, &bk));
    // the market side of the tick: settlement / termination / time schedules over deal boundaries
    // (C07's scenario; what matters here is its oracle that every tick, incl. Market.CronTick, succeeds)
    let (sm, mut bm) = crate::c07::scenario(tier);
    bm.wall_cap_s = if tier_is_thorough(tier) { 600.0 } else { 20.0 };
    run.add(mcx::explore(&sm, &bm));
    run.finish()
}
