//! Market scenario shared by C06 (escrow ledger), C07 (payments) and C08 (lifecycle).
//! One reference ledger (DESIGN §3 C06-C08) is stepped in lock-step with the real market actor.
use crate::chain::*;
use crate::util::*;
use fil_actor_market::{
    AddBalanceParams, BatchActivateDealsParams, BatchActivateDealsResult, ClientDealProposal,
    DealProposal, Label, Method, OnMinerSectorsTerminateParams, PublishStorageDealsParams,
    PublishStorageDealsReturn, SectorDeals, SettleDealPaymentsParams, SettleDealPaymentsReturn,
    State as MState, WithdrawBalanceParams, WithdrawBalanceReturn, next_update_epoch,
};
use fil_actor_market::ext::miner::{PieceChange, SectorChanges, SectorContentChangedParams, SectorContentChangedReturn};
use fil_actor_market::balance_table::BalanceTable;
use fil_actors_runtime::runtime::Policy;
use fil_actors_runtime::test_utils::make_piece_cid;
use fil_actors_runtime::STORAGE_MARKET_ACTOR_ADDR;
use fvm_ipld_bitfield::BitField;
use fvm_ipld_encoding::RawBytes;
use fvm_shared::ActorID;
use fvm_shared::address::Address;
use fvm_shared::crypto::signature::{Signature, SignatureType};
use fvm_shared::econ::TokenAmount;
use fvm_shared::piece::PaddedPieceSize;
use fvm_shared::sector::{RegisteredPoStProof, RegisteredSealProof};
use mcvm::{Inv, Store, Vm, fake_sign};
use mcx::{Key, Scenario, Step};
use num_traits::Zero;
use serde::{Deserialize, Serialize};
use serde_json::json;
use std::collections::{BTreeMap, BTreeSet};

pub const DURATION: i64 = 180 * 2880;
pub const INTERVAL: i64 = 30 * 2880;
pub const PCOLL: i128 = 1_000_000_000_000_000_000; // 1 FIL, far above the protocol minimum
pub const FAR: i64 = 3_000_000;

#[derive(Clone, Copy, Debug, Serialize, Deserialize, PartialEq, Eq, PartialOrd, Ord)]
pub enum Who {
    A,
    B,
    O1,
    W1,
    O2,
    Z,
    M1,
    M2,
}

#[derive(Clone, Copy, Debug, Serialize, Deserialize, PartialEq, Eq)]
pub enum Sig {
    Good,
    ByStranger,
    Tampered,
}

/// A proposal of the fixed menu (absolute start epoch = base epoch + start_off).
#[derive(Clone, Debug, Serialize, Deserialize, PartialEq, Eq)]
pub struct PSpec {
    pub client: Who,
    pub provider: Who,
    pub piece: u8,
    pub start_off: i64,
    pub price: i128,
    pub ccoll: i128,
    pub sig: Sig,
    pub client_by_key: bool,
}

#[derive(Clone, Debug, Serialize, Deserialize, PartialEq, Eq)]
pub enum Via {
    Batch,
    Scc,
}

#[derive(Clone, Debug, Serialize, Deserialize)]
pub enum Act {
    AddBalance { by: Who, to: Who, amount: i128 },
    /// amount: 0 = "1 atto", 1 = available, 2 = available+1, 3 = whole escrow, 4 = negative
    Withdraw { by: Who, party: Who, sel: u8 },
    Publish { by: Who, batch: Vec<usize> },
    /// sectors: (sector number, expiry selector: 0 = far, 1 = deal end - 1, deal ids)
    Activate { by: Who, via: Via, sectors: Vec<(u64, u8, Vec<u64>)>, bad_piece: bool },
    Settle { by: Who, ids: Vec<u64> },
    Terminate { by: Who, sectors: Vec<u64> },
    TickTo(i64),
}

#[derive(Clone, Debug, Serialize, PartialEq, Eq)]
pub struct Deal {
    pub spec: usize,
    pub client: u64,
    pub provider: u64,
    pub start: i64,
    pub end: i64,
    pub price: i128,
    pub ccoll: i128,
    pub pcoll: i128,
    pub sector: Option<u64>,
    pub activated_at: Option<i64>,
    /// epoch up to which the provider has been paid (>= start)
    pub paid_to: i64,
    /// still in the sector->deals mapping of its provider (termination reaches it)
    pub in_sector_map: bool,
}

#[derive(Clone, Debug, Serialize, PartialEq, Eq, Default)]
pub struct Ledger {
    pub escrow: BTreeMap<u64, i128>,
    pub deals: BTreeMap<u64, Deal>,
    pub next_id: u64,
    pub burnt: i128,
    /// cumulative amounts over finished deals, per deal id: (paid to provider, refunded-to-client check, burnt)
    pub finished: BTreeMap<u64, (i128, i128)>,
    pub publishes_left: u32,
    pub withdraws_left: u32,
    pub adds_left: u32,
    pub settles_left: u32,
    pub terms_left: u32,
    pub acts_left: u32,
}

impl Ledger {
    pub fn locked(&self, party: u64) -> i128 {
        let mut l = 0;
        for d in self.deals.values() {
            if d.client == party {
                l += d.ccoll + d.price * (d.end - d.paid_to) as i128;
            }
            if d.provider == party {
                l += d.pcoll;
            }
        }
        l
    }
    fn esc(&mut self, p: u64) -> &mut i128 {
        self.escrow.entry(p).or_insert(0)
    }
    fn pay_to(&mut self, id: u64, upto: i64) -> i128 {
        let d = self.deals.get_mut(&id).unwrap();
        let upto = upto.min(d.end);
        if upto <= d.paid_to {
            return 0;
        }
        let amt = d.price * (upto - d.paid_to) as i128;
        d.paid_to = upto;
        let (c, p) = (d.client, d.provider);
        *self.esc(c) -= amt;
        *self.esc(p) += amt;
        amt
    }
    fn total_paid(d: &Deal) -> i128 {
        d.price * (d.paid_to - d.start) as i128
    }
    /// proposal never activated by its start epoch: provider collateral burnt in full, client free
    fn timeout(&mut self, id: u64) {
        let d = self.deals.remove(&id).unwrap();
        *self.esc(d.provider) -= d.pcoll;
        self.burnt += d.pcoll;
        self.finished.insert(id, (0, d.pcoll));
    }
    fn complete(&mut self, id: u64) {
        let d = self.deals.remove(&id).unwrap();
        self.finished.insert(id, (Self::total_paid(&d), 0));
    }
    fn terminate(&mut self, id: u64, now: i64) {
        self.pay_to(id, now);
        let d = self.deals.remove(&id).unwrap();
        *self.esc(d.provider) -= d.pcoll;
        self.burnt += d.pcoll;
        self.finished.insert(id, (Self::total_paid(&d), d.pcoll));
    }
}

#[derive(Clone, Debug, Serialize)]
pub struct M {
    pub base: usize,
    pub l: Ledger,
}

pub struct Cfg {
    pub name: &'static str,
    pub specs: Vec<PSpec>,
    pub batches: Vec<(Who, Vec<usize>)>,
    pub bases: Vec<&'static str>,
    pub publishes: u32,
    pub withdraws: u32,
    pub adds: u32,
    pub settles: u32,
    pub terms: u32,
    pub acts: u32,
    pub withdraw_sels: Vec<u8>,
    pub withdraw_callers: Vec<Who>,
    pub activate_variants: bool,
    pub tick_lookahead: usize,
    pub boundaries: Vec<&'static str>,
}

#[derive(Clone)]
pub struct Cast {
    pub a: (ActorID, Address),
    pub b: (ActorID, Address),
    pub o1: ActorID,
    pub w1: ActorID,
    pub o2: ActorID,
    pub z: (ActorID, Address),
    pub m1: ActorID,
    pub m2: ActorID,
    pub epoch0: i64,
}

impl Cast {
    pub fn id(&self, w: Who) -> ActorID {
        match w {
            Who::A => self.a.0,
            Who::B => self.b.0,
            Who::O1 => self.o1,
            Who::W1 => self.w1,
            Who::O2 => self.o2,
            Who::Z => self.z.0,
            Who::M1 => self.m1,
            Who::M2 => self.m2,
        }
    }
}

pub struct W {
    pub vm: Vm,
    pub cast: Cast,
    pub bases: Vec<(String, mcvm::Snapshot, Ledger)>,
}

pub struct Market {
    pub cfg: Cfg,
}

const MARKET: ActorID = 5;
const BURNT: ActorID = 99;

impl Market {
    fn proposal(&self, c: &Cast, sp: &PSpec) -> ClientDealProposal {
        let client_key = if sp.client == Who::A { c.a.1 } else { c.b.1 };
        let client_addr = if sp.client_by_key { client_key } else { id(c.id(sp.client)) };
        let start = c.epoch0 + sp.start_off;
        let proposal = DealProposal {
            piece_cid: make_piece_cid(&[b'p', sp.piece]),
            piece_size: PaddedPieceSize(2048),
            verified_deal: false,
            client: client_addr,
            provider: id(c.id(sp.provider)),
            label: Label::String(format!("deal-{}", sp.piece)),
            start_epoch: start,
            end_epoch: start + DURATION,
            storage_price_per_epoch: atto(sp.price),
            provider_collateral: atto(PCOLL),
            client_collateral: atto(sp.ccoll),
        };
        let bz = RawBytes::serialize(&proposal).unwrap();
        let signer = match sp.sig {
            Sig::ByStranger => c.z.1,
            _ => client_key,
        };
        let mut sig = fake_sign(&signer, &bz);
        if sp.sig == Sig::Tampered {
            sig[3] ^= 0x10;
        }
        ClientDealProposal {
            proposal,
            client_signature: Signature { sig_type: SignatureType::BLS, bytes: sig },
        }
    }

    fn requirement(sp: &PSpec) -> i128 {
        sp.ccoll + sp.price * DURATION as i128
    }

    // ------------------------------------------------------------ reading the implementation

    fn impl_tables(vm: &Vm) -> (BTreeMap<u64, i128>, BTreeMap<u64, i128>, MState) {
        let st: MState = vm.state_of(MARKET).unwrap();
        let mut esc = BTreeMap::new();
        let mut lock = BTreeMap::new();
        let et = BalanceTable::from_root(&vm.store, &st.escrow_table, "e").unwrap();
        et.0.for_each(|k, v| {
            esc.insert(k.id().unwrap(), i128::try_from(v.atto()).unwrap());
            Ok(())
        })
        .unwrap();
        let lt = BalanceTable::from_root(&vm.store, &st.locked_table, "l").unwrap();
        lt.0.for_each(|k, v| {
            lock.insert(k.id().unwrap(), i128::try_from(v.atto()).unwrap());
            Ok(())
        })
        .unwrap();
        (esc, lock, st)
    }

    /// (exists, last_updated_epoch or None) of a deal in the implementation
    fn impl_deal(vm: &Vm, st: &MState, did: u64) -> (bool, Option<i64>, bool) {
        let props = st.load_proposals(&vm.store).unwrap();
        let exists = props.get(did).unwrap().is_some();
        let states = st.load_deal_states(&vm.store).unwrap();
        let s = states.get(did).unwrap().cloned();
        (exists, s.as_ref().map(|s| s.last_updated_epoch), s.is_some())
    }

    /// After cron ticks: adopt what the cron legitimately may have done (timeouts of
    /// unactivated proposals past their start, payments up to a tick epoch, completion), and
    /// reject everything else.
    fn sync_after_ticks(&self, vm: &Vm, l: &mut Ledger, last_tick_epoch: i64) -> Result<(), String> {
        let (_, _, st) = Self::impl_tables(vm);
        let ids: Vec<u64> = l.deals.keys().cloned().collect();
        for did in ids {
            let d = l.deals[&did].clone();
            let (exists, last_upd, has_state) = Self::impl_deal(vm, &st, did);
            if d.activated_at.is_none() {
                if has_state {
                    return Err(format!("deal {did} has a deal state but was never activated in the model"));
                }
                if !exists {
                    if last_tick_epoch < d.start {
                        return Err(format!("unactivated deal {did} removed by cron at {last_tick_epoch} before its start {}", d.start));
                    }
                    l.timeout(did);
                } else if last_tick_epoch >= d.start + INTERVAL {
                    return Err(format!("unactivated deal {did} (start {}) still present after the cron ran at {last_tick_epoch}: never cleaned up", d.start));
                }
            } else if !exists {
                if last_tick_epoch < d.end {
                    return Err(format!("active deal {did} removed by cron at {last_tick_epoch} before its end {}", d.end));
                }
                l.pay_to(did, d.end);
                l.complete(did);
            } else {
                let paid = match last_upd {
                    Some(e) if e > d.start => e.min(d.end),
                    _ => d.start,
                };
                if paid < d.paid_to {
                    return Err(format!("deal {did}: last settlement epoch went backwards ({paid} < {})", d.paid_to));
                }
                if paid > last_tick_epoch.max(d.paid_to) {
                    return Err(format!("deal {did}: paid up to {paid}, beyond the last cron epoch {last_tick_epoch}"));
                }
                l.pay_to(did, paid);
            }
        }
        Ok(())
    }

    /// The standing oracle: every ledger quantity recomputed from the model's deal table.
    fn compare(&self, vm: &Vm, c: &Cast, l: &Ledger, burnt0: &TokenAmount) -> Result<(), String> {
        let (esc, lock, st) = Self::impl_tables(vm);
        let parties: BTreeSet<u64> =
            esc.keys().chain(lock.keys()).chain(l.escrow.keys()).cloned().collect();
        let mut sum_esc = 0i128;
        for p in parties {
            let ie = *esc.get(&p).unwrap_or(&0);
            let il = *lock.get(&p).unwrap_or(&0);
            let me = *l.escrow.get(&p).unwrap_or(&0);
            let ml = l.locked(p);
            sum_esc += ie;
            if il > ie {
                return Err(format!("party {p}: locked {il} exceeds escrow {ie}"));
            }
            if ie != me {
                return Err(format!("party {p}: escrow {ie} != ledger model {me}"));
            }
            if il != ml {
                return Err(format!("party {p}: locked {il} != sum of outstanding obligations {ml}"));
            }
        }
        let (mut cc, mut pc, mut fee) = (0i128, 0i128, 0i128);
        for d in l.deals.values() {
            cc += d.ccoll;
            pc += d.pcoll;
            fee += d.price * (d.end - d.paid_to) as i128;
        }
        let got = (
            i128::try_from(st.total_client_locked_collateral.atto()).unwrap(),
            i128::try_from(st.total_provider_locked_collateral.atto()).unwrap(),
            i128::try_from(st.total_client_storage_fee.atto()).unwrap(),
        );
        if got != (cc, pc, fee) {
            return Err(format!("market-wide locked totals {:?} != per-deal sums {:?}", got, (cc, pc, fee)));
        }
        let mb = i128::try_from(vm.balance(MARKET).atto()).unwrap();
        if mb < sum_esc {
            return Err(format!("market balance {mb} < sum of escrow {sum_esc}"));
        }
        let burnt = vm.balance(BURNT) - burnt0;
        if burnt != atto(l.burnt) {
            return Err(format!("burnt {} != model {}", burnt, l.burnt));
        }
        if st.next_id != l.next_id {
            return Err(format!("next deal id {} != model {}", st.next_id, l.next_id));
        }
        // deal existence
        let props = st.load_proposals(&vm.store).unwrap();
        let mut present = BTreeSet::new();
        props
            .for_each(|i, _| {
                present.insert(i);
                Ok(())
            })
            .unwrap();
        let model: BTreeSet<u64> = l.deals.keys().cloned().collect();
        if present != model {
            return Err(format!("deals present {:?} != model {:?}", present, model));
        }
        let _ = c;
        Ok(())
    }

    fn new_ledger(&self, escrow: &[(u64, i128)]) -> Ledger {
        Ledger {
            escrow: escrow.iter().cloned().collect(),
            publishes_left: self.cfg.publishes,
            withdraws_left: self.cfg.withdraws,
            adds_left: self.cfg.adds,
            settles_left: self.cfg.settles,
            terms_left: self.cfg.terms,
            acts_left: self.cfg.acts,
            ..Default::default()
        }
    }

    fn burnt0(&self) -> TokenAmount {
        TokenAmount::zero()
    }

    /// model of Publish; returns (message accepted, ids, valid indices)
    fn model_publish(&self, c: &Cast, l: &mut Ledger, by: Who, batch: &[usize], now: i64, vm_pending: &dyn Fn(usize) -> Option<bool>) -> (bool, Vec<u64>, Vec<usize>) {
        if batch.is_empty() {
            return (false, vec![], vec![]);
        }
        let first = &self.cfg.specs[batch[0]];
        let prov = first.provider;
        if !matches!(prov, Who::M1 | Who::M2) {
            return (false, vec![], vec![]);
        }
        let control: Vec<Who> = if prov == Who::M1 { vec![Who::O1, Who::W1] } else { vec![Who::O2] };
        if !control.contains(&by) {
            return (false, vec![], vec![]);
        }
        let mut ids = vec![];
        let mut valid = vec![];
        let mut client_lock: BTreeMap<u64, i128> = BTreeMap::new();
        let mut prov_lock = 0i128;
        let mut in_msg: Vec<PSpec> = vec![];
        let pid = c.id(prov);
        let mut accepted: Vec<(usize, u64)> = vec![];
        for (i, &si) in batch.iter().enumerate() {
            let sp = &self.cfg.specs[si];
            if sp.sig != Sig::Good {
                continue;
            }
            let start = c.epoch0 + sp.start_off;
            if now > start {
                continue;
            }
            if sp.provider != prov {
                continue;
            }
            let cid_ = c.id(sp.client);
            let cl = client_lock.get(&cid_).cloned().unwrap_or(0) + Self::requirement(sp);
            if l.locked(cid_) + cl > *l.escrow.get(&cid_).unwrap_or(&0) {
                continue;
            }
            let pl = prov_lock + PCOLL;
            if l.locked(pid) + pl > *l.escrow.get(&pid).unwrap_or(&0) {
                continue;
            }
            // identity of a proposal = its normalised content (address form and signature are not part of it)
            let ident = |s: &PSpec| (s.client, s.provider, s.piece, s.start_off, s.price, s.ccoll);
            if in_msg.iter().any(|s| ident(s) == ident(sp)) {
                continue;
            }
            // identical proposal already published?
            let dup_unactivated = l.deals.values().any(|d| ident(&self.cfg.specs[d.spec]) == ident(sp) && d.activated_at.is_none());
            if dup_unactivated {
                continue;
            }
            let dup_active = l.deals.values().any(|d| ident(&self.cfg.specs[d.spec]) == ident(sp) && d.activated_at.is_some());
            if dup_active {
                // the property does not say whether an activated deal's proposal still counts as
                // pending: adopt the implementation's answer
                match vm_pending(i) {
                    Some(true) => {}
                    _ => continue,
                }
            }
            client_lock.insert(cid_, cl);
            prov_lock = pl;
            in_msg.push(sp.clone());
            valid.push(i);
            accepted.push((si, cid_));
        }
        if accepted.is_empty() {
            return (false, vec![], vec![]);
        }
        for (si, cid_) in accepted {
            let sp = &self.cfg.specs[si];
            let start = c.epoch0 + sp.start_off;
            let did = l.next_id;
            l.next_id += 1;
            l.deals.insert(
                did,
                Deal {
                    spec: si,
                    client: cid_,
                    provider: pid,
                    start,
                    end: start + DURATION,
                    price: sp.price,
                    ccoll: sp.ccoll,
                    pcoll: PCOLL,
                    sector: None,
                    activated_at: None,
                    paid_to: start,
                    in_sector_map: false,
                },
            );
            ids.push(did);
        }
        (true, ids, valid)
    }

    fn boundaries(&self, c: &Cast, l: &Ledger) -> Vec<i64> {
        let mut b = BTreeSet::new();
        let want = |n: &str| self.cfg.boundaries.contains(&n);
        let mut starts: BTreeSet<i64> = self.cfg.specs.iter().map(|s| c.epoch0 + s.start_off).collect();
        for (did, d) in l.deals.iter() {
            starts.insert(d.start);
            let fc = next_update_epoch(*did, INTERVAL, d.start);
            if want("cron") {
                b.insert(fc);
                b.insert(fc + 1);
                b.insert(fc + 2);
            }
            if want("mid") {
                b.insert(d.start + DURATION / 2);
                b.insert(d.start + DURATION / 2 + 7);
            }
            if want("end") {
                b.insert(d.end - 1);
                b.insert(d.end);
                b.insert(d.end + 1);
            }
            if want("late") {
                b.insert(d.end + INTERVAL + 5);
            }
        }
        if want("start") {
            for s in starts {
                b.insert(s - 1);
                b.insert(s);
                b.insert(s + 1);
            }
        }
        b.into_iter().collect()
    }
}

impl Scenario for Market {
    type S = VS<M>;
    type A = Act;
    type W = W;

    fn name(&self) -> String {
        format!("market/{}", self.cfg.name)
    }

    fn worker(&self, store: &Store) -> W {
        let vm = Vm::genesis(store.clone(), Policy::default());
        vm.bump_nonce.set(true);
        let a = vm.new_account(1, &fil(10_000));
        let b = vm.new_account(2, &fil(10_000));
        let o1 = vm.new_account(3, &fil(10_000)).0;
        let w1 = vm.new_account(4, &fil(10_000)).0;
        let o2 = vm.new_account(5, &fil(10_000)).0;
        let z = vm.new_account(6, &fil(10_000));
        for _ in 0..3 {
            vm.tick();
        }
        let proof = RegisteredPoStProof::StackedDRGWindow32GiBV1P1;
        let m1 = create_miner(&vm, o1, w1, proof, &fil(2000)).unwrap_or_else(|r| panic!("SETUP-FAILED create miner: {}", r.tree()));
        let m2 = create_miner(&vm, o2, o2, proof, &fil(2000)).unwrap_or_else(|r| panic!("SETUP-FAILED create miner: {}", r.tree()));
        for _ in 0..2 {
            vm.tick();
        }
        let cast = Cast { a, b, o1, w1, o2, z, m1, m2, epoch0: vm.epoch() };
        vm.bump_nonce.set(false);
        let g = vm.snapshot();
        let mut bases = vec![];
        let add = |to: ActorID, by: ActorID, amt: i128| {
            let r = ext(&vm, by, &STORAGE_MARKET_ACTOR_ADDR, &atto(amt), Method::AddBalance as u64, Some(&AddBalanceParams { provider_or_client: id(to) }));
            assert!(r.ok(), "SETUP-FAILED add balance: {}", r.tree());
        };
        let req = |i: usize| Self::requirement(&self.cfg.specs[i]);
        for &bn in &self.cfg.bases {
            vm.restore(&g);
            let mut l;
            match bn {
                "funded" => {
                    let ea = 2 * req(0) + 3;
                    add(cast.a.0, cast.a.0, ea);
                    add(cast.b.0, cast.b.0, ea);
                    add(m1, o1, 2 * PCOLL);
                    add(m2, o2, 2 * PCOLL);
                    l = self.new_ledger(&[(cast.a.0, ea), (cast.b.0, ea), (m1, 2 * PCOLL), (m2, 2 * PCOLL)]);
                }
                "tight" => {
                    add(cast.a.0, cast.a.0, req(0));
                    add(m1, o1, PCOLL);
                    l = self.new_ledger(&[(cast.a.0, req(0)), (m1, PCOLL)]);
                }
                "tight-client" => {
                    // the client can afford exactly one deal, the provider two
                    add(cast.a.0, cast.a.0, req(0));
                    add(m1, o1, 2 * PCOLL);
                    l = self.new_ledger(&[(cast.a.0, req(0)), (m1, 2 * PCOLL)]);
                }
                "active-1" | "active-2" | "published-1" | "published-2" | "ending-1" => {
                    let ea = 2 * req(0) + 3;
                    add(cast.a.0, cast.a.0, ea);
                    add(cast.b.0, cast.b.0, ea);
                    add(m1, o1, 2 * PCOLL);
                    l = self.new_ledger(&[(cast.a.0, ea), (cast.b.0, ea), (m1, 2 * PCOLL)]);
                    let batch: Vec<usize> = if bn == "active-2" || bn == "published-2" { vec![0, 1] } else { vec![0] };
                    let prm = PublishStorageDealsParams { deals: batch.iter().map(|&i| self.proposal(&cast, &self.cfg.specs[i])).collect() };
                    let r = ext(&vm, w1, &STORAGE_MARKET_ACTOR_ADDR, &TokenAmount::zero(), Method::PublishStorageDeals as u64, Some(&prm));
                    assert!(r.ok(), "SETUP-FAILED publish: {}", r.tree());
                    let (ok, ids, _) = self.model_publish(&cast, &mut l, Who::W1, &batch, vm.epoch(), &|_| None);
                    assert!(ok);
                    l.publishes_left = self.cfg.publishes;
                    if !bn.starts_with("published-") {
                        let secs: Vec<SectorDeals> = ids
                            .iter()
                            .map(|d| SectorDeals { sector_number: 10 + d, sector_type: RegisteredSealProof::StackedDRG32GiBV1P1, sector_expiry: FAR, deal_ids: vec![*d] })
                            .collect();
                        let r = imp(&vm, m1, &STORAGE_MARKET_ACTOR_ADDR, &TokenAmount::zero(), Method::BatchActivateDeals as u64, Some(&BatchActivateDealsParams { sectors: secs, compute_cid: false }));
                        assert!(r.ok(), "SETUP-FAILED activate: {}", r.tree());
                        for d in ids {
                            let dd = l.deals.get_mut(&d).unwrap();
                            dd.sector = Some(10 + d);
                            dd.activated_at = Some(vm.epoch());
                            dd.in_sector_map = true;
                        }
                    }
                    if bn == "ending-1" {
                        // the deal has run almost to its end (real cron at every scheduled epoch)
                        let end = l.deals.values().next().unwrap().end;
                        let invs = tick_to(&vm, end - 2);
                        assert!(invs.iter().all(|i| i.flat().iter().all(|x| x.ok())), "SETUP-FAILED ticks");
                        self.sync_after_ticks(&vm, &mut l, end - 3).unwrap_or_else(|e| panic!("SETUP-FAILED base {bn}: {e}"));
                    }
                }
                other => panic!("unknown base {other}"),
            }
            self.compare(&vm, &cast, &l, &self.burnt0()).unwrap_or_else(|e| panic!("SETUP-FAILED base {bn}: {e}"));
            bases.push((bn.to_string(), vm.snapshot(), l));
        }
        W { vm, cast, bases }
    }

    fn bases(&self, w: &W) -> Vec<(String, VS<M>)> {
        w.bases.iter().enumerate().map(|(i, (n, s, l))| (n.clone(), VS { snap: s.clone(), m: M { base: i, l: l.clone() } })).collect()
    }

    fn key(&self, s: &VS<M>) -> Key {
        vs_key(s)
    }

    fn kind(&self, a: &Act) -> String {
        match a {
            Act::AddBalance { .. } => "add-balance".into(),
            Act::Withdraw { by, party, sel } => format!("withdraw {party:?} by {by:?} sel{sel}"),
            Act::Publish { by, batch } => format!("publish by {by:?} x{}", batch.len()),
            Act::Activate { by, via, bad_piece, .. } => format!("activate {via:?} by {by:?}{}", if *bad_piece { " bad-piece" } else { "" }),
            Act::Settle { .. } => "settle".into(),
            Act::Terminate { by, .. } => format!("terminate by {by:?}"),
            Act::TickTo(_) => "tick-to".into(),
        }
    }

    fn actions(&self, w: &W, s: &VS<M>) -> Vec<Act> {
        let l = &s.m.l;
        let c = &w.cast;
        let now = s.snap.epoch;
        let mut v = vec![];
        if l.adds_left > 0 {
            v.push(Act::AddBalance { by: Who::A, to: Who::A, amount: 1 });
            v.push(Act::AddBalance { by: Who::Z, to: Who::A, amount: Self::requirement(&self.cfg.specs[0]) });
            v.push(Act::AddBalance { by: Who::O1, to: Who::M1, amount: PCOLL });
            v.push(Act::AddBalance { by: Who::A, to: Who::A, amount: 0 });
        }
        if l.withdraws_left > 0 {
            for party in [Who::A, Who::M1] {
                for &by in &self.cfg.withdraw_callers {
                    for &sel in &self.cfg.withdraw_sels {
                        v.push(Act::Withdraw { by, party, sel });
                    }
                }
            }
        }
        if l.publishes_left > 0 {
            for (by, batch) in &self.cfg.batches {
                v.push(Act::Publish { by: *by, batch: batch.clone() });
            }
        }
        let live: Vec<u64> = l.deals.keys().cloned().collect();
        if l.acts_left > 0 && !live.is_empty() {
            let unact: Vec<u64> = l.deals.iter().filter(|d| d.1.activated_at.is_none()).map(|d| *d.0).collect();
            for &d in &live {
                let is_unact = unact.contains(&d);
                if is_unact || self.cfg.activate_variants {
                    v.push(Act::Activate { by: Who::M1, via: Via::Batch, sectors: vec![(1, 0, vec![d])], bad_piece: false });
                    v.push(Act::Activate { by: Who::M1, via: Via::Scc, sectors: vec![(2, 0, vec![d])], bad_piece: false });
                }
                if is_unact && self.cfg.activate_variants {
                    v.push(Act::Activate { by: Who::M2, via: Via::Batch, sectors: vec![(1, 0, vec![d])], bad_piece: false });
                    v.push(Act::Activate { by: Who::M2, via: Via::Scc, sectors: vec![(1, 0, vec![d])], bad_piece: false });
                    v.push(Act::Activate { by: Who::M1, via: Via::Batch, sectors: vec![(1, 1, vec![d])], bad_piece: false });
                    v.push(Act::Activate { by: Who::M1, via: Via::Scc, sectors: vec![(1, 1, vec![d])], bad_piece: false });
                    v.push(Act::Activate { by: Who::M1, via: Via::Scc, sectors: vec![(1, 0, vec![d])], bad_piece: true });
                    v.push(Act::Activate { by: Who::M1, via: Via::Batch, sectors: vec![(1, 0, vec![d, d])], bad_piece: false });
                    v.push(Act::Activate { by: Who::M1, via: Via::Batch, sectors: vec![(1, 0, vec![d]), (3, 0, vec![d])], bad_piece: false });
                    v.push(Act::Activate { by: Who::M1, via: Via::Scc, sectors: vec![(1, 0, vec![d]), (3, 0, vec![d])], bad_piece: false });
                    v.push(Act::Activate { by: Who::M1, via: Via::Batch, sectors: vec![(1, 0, vec![d, l.next_id])], bad_piece: false });
                }
            }
            if unact.len() >= 2 && self.cfg.activate_variants {
                // a repeated id with another id in between (non-adjacent repeat)
                let rep = vec![unact[0], unact[1], unact[0]];
                v.push(Act::Activate { by: Who::M1, via: Via::Batch, sectors: vec![(5, 0, rep.clone())], bad_piece: false });
                v.push(Act::Activate { by: Who::M1, via: Via::Scc, sectors: vec![(5, 0, rep)], bad_piece: false });
            }
            if unact.len() >= 2 {
                v.push(Act::Activate { by: Who::M1, via: Via::Batch, sectors: vec![(4, 0, unact.clone())], bad_piece: false });
                v.push(Act::Activate { by: Who::M1, via: Via::Scc, sectors: vec![(4, 0, unact.clone())], bad_piece: false });
            }
        }
        if l.settles_left > 0 {
            for &d in &live {
                v.push(Act::Settle { by: Who::Z, ids: vec![d] });
            }
            if live.len() >= 2 {
                v.push(Act::Settle { by: Who::W1, ids: live.clone() });
            }
            v.push(Act::Settle { by: Who::Z, ids: vec![l.next_id] });
            if l.next_id > 0 && !live.contains(&0) {
                v.push(Act::Settle { by: Who::Z, ids: vec![0] });
            }
        }
        if l.terms_left > 0 {
            let mut sectors: BTreeSet<u64> = BTreeSet::new();
            for d in l.deals.values() {
                if let Some(s) = d.sector {
                    sectors.insert(s);
                }
            }
            for s in &sectors {
                v.push(Act::Terminate { by: Who::M1, sectors: vec![*s] });
            }
            if let Some(s) = sectors.iter().next() {
                v.push(Act::Terminate { by: Who::M2, sectors: vec![*s] });
            }
        }
        let bs = self.boundaries(c, l);
        for t in bs.into_iter().filter(|t| *t > now).take(self.cfg.tick_lookahead) {
            v.push(Act::TickTo(t));
        }
        v
    }

    fn step(&self, w: &W, s: &VS<M>, a: &Act, faults: &[usize]) -> Step<VS<M>> {
        let mut sites: Vec<usize> = vec![];
        let vm = &w.vm;
        let c = &w.cast;
        vm.restore(&s.snap);
        let now = vm.epoch();
        let mut l = s.m.l.clone();
        let mut viol: Option<String> = None;
        let mut outcome = "ok";
        let market = STORAGE_MARKET_ACTOR_ADDR;
        let z = TokenAmount::zero();
        let mut bad = |m: String| {
            if viol.is_none() {
                viol = Some(m)
            }
        };
        match a {
            Act::AddBalance { by, to, amount } => {
                l.adds_left -= 1;
                let r = ext(vm, c.id(*by), &market, &atto(*amount), Method::AddBalance as u64, Some(&AddBalanceParams { provider_or_client: id(c.id(*to)) }));
                let expect = *amount > 0;
                if r.ok() != expect {
                    bad(format!("add balance {amount}: model accept={expect}: {}", r.tree()));
                }
                if expect {
                    *l.esc(c.id(*to)) += amount;
                }
                outcome = if r.ok() { "accepted" } else { "rejected" };
            }
            Act::Withdraw { by, party, sel } => {
                l.withdraws_left -= 1;
                let pid = c.id(*party);
                let esc = *l.escrow.get(&pid).unwrap_or(&0);
                let avail = esc - l.locked(pid);
                let amount = match sel {
                    0 => 1,
                    1 => avail,
                    2 => avail + 1,
                    3 => esc,
                    _ => -1,
                };
                let (approved, recipient): (Vec<Who>, ActorID) = match party {
                    Who::M1 => (vec![Who::O1, Who::W1], c.o1),
                    Who::M2 => (vec![Who::O2], c.o2),
                    p => (vec![*p], pid),
                };
                let before = vm.balance(recipient);
                vm.set_fault_plan(faults);
                let r = ext(vm, c.id(*by), &market, &z, Method::WithdrawBalance as u64, Some(&WithdrawBalanceParams { provider_or_client: id(pid), amount: atto(amount) }));
                let expect = amount >= 0 && approved.contains(by);
                if !faults.is_empty() {
                    // fault class F1: the payout transfer fails (the recipient rejects it). The
                    // withdrawal must then fail as a whole: escrow is debited only by what was paid.
                    if r.ok() {
                        bad(format!("withdrawal reported success although its payout transfer failed: {}", r.tree()));
                    }
                    if vm.balance(recipient) != before {
                        bad("recipient balance moved although the payout transfer failed".to_string());
                    }
                    outcome = "payout failed";
                } else if r.ok() != expect {
                    bad(format!("withdraw {amount} of {party:?} by {by:?}: model accept={expect}: {}", r.tree()));
                } else if expect {
                    let want = amount.min(avail).max(0);
                    let got: WithdrawBalanceReturn = r.ret.as_ref().unwrap().deserialize().unwrap();
                    if got.amount_withdrawn != atto(want) {
                        bad(format!("withdraw returned {} but escrow-locked allows exactly min({amount},{avail})={want}", got.amount_withdrawn));
                    }
                    let sends: Vec<&Inv> = r.subs.iter().filter(|i| i.from == MARKET && !i.value.is_zero()).collect();
                    if want > 0 && !(sends.len() == 1 && sends[0].to == id(recipient) && sends[0].value == atto(want)) {
                        bad(format!("withdrawal must be one send of {want} to {recipient}: {}", r.tree()));
                    }
                    if r.subs.iter().any(|i| i.from == MARKET && i.to != id(recipient) && !i.value.is_zero()) {
                        bad(format!("withdrawal paid somebody else: {}", r.tree()));
                    }
                    if vm.balance(recipient) - &before != atto(want) {
                        bad(format!("recipient balance moved by {} instead of {want}", vm.balance(recipient) - &before));
                    }
                    *l.esc(pid) -= want;
                    sites = r.subs.iter().filter(|i| i.from == MARKET && !i.value.is_zero()).filter_map(|i| i.send_index).collect();
                }
                if faults.is_empty() {
                    outcome = if r.ok() { "accepted" } else { "rejected" };
                }
            }
            Act::Publish { by, batch } => {
                l.publishes_left -= 1;
                let prm = PublishStorageDealsParams { deals: batch.iter().map(|&i| self.proposal(c, &self.cfg.specs[i])).collect() };
                let r = ext(vm, c.id(*by), &market, &z, Method::PublishStorageDeals as u64, Some(&prm));
                let ret: Option<PublishStorageDealsReturn> = if r.ok() { Some(r.ret.as_ref().unwrap().deserialize().unwrap()) } else { None };
                let impl_valid: Vec<usize> = ret.as_ref().map(|x| x.valid_deals.iter().map(|i| i as usize).collect()).unwrap_or_default();
                let iv = impl_valid.clone();
                let (ok, ids, valid) = self.model_publish(c, &mut l, *by, batch, now, &move |i| Some(iv.contains(&i)));
                if ok != r.ok() {
                    bad(format!("publish {batch:?} by {by:?}: model accept={ok}: {}", r.tree()));
                } else if let Some(ret) = ret {
                    if ret.ids != ids {
                        bad(format!("publish returned ids {:?}, model expects fresh sequential ids {:?}", ret.ids, ids));
                    }
                    if impl_valid != valid {
                        bad(format!("publish accepted entries {:?} of batch {batch:?}, model accepts {:?}", impl_valid, valid));
                    }
                }
                outcome = if r.ok() { "accepted" } else { "rejected" };
            }
            Act::Activate { by, via, sectors, bad_piece } => {
                l.acts_left -= 1;
                let miner = c.id(*by);
                let expiry = |sel: u8, ids: &[u64], l: &Ledger| -> i64 {
                    if sel == 0 { FAR } else { ids.iter().filter_map(|d| l.deals.get(d)).map(|d| d.end).max().unwrap_or(FAR) - 1 }
                };
                // model
                let mut done: BTreeSet<u64> = BTreeSet::new();
                let mut expect_sectors: Vec<Vec<bool>> = vec![];
                let can = |l: &Ledger, d: u64, exp: i64, done: &BTreeSet<u64>| -> bool {
                    match l.deals.get(&d) {
                        None => false,
                        Some(dd) => !done.contains(&d) && dd.provider == miner && now <= dd.start && dd.end <= exp && dd.activated_at.is_none(),
                    }
                };
                let mut updates: Vec<(u64, u64)> = vec![];
                for (sno, sel, ids) in sectors {
                    let exp = expiry(*sel, ids, &l);
                    match via {
                        Via::Batch => {
                            let mut sorted = ids.clone();
                            sorted.sort();
                            let dup = sorted.windows(2).any(|w| w[0] == w[1]);
                            let all = !dup && ids.iter().all(|d| can(&l, *d, exp, &done));
                            if all {
                                for d in ids {
                                    done.insert(*d);
                                    updates.push((*d, *sno));
                                }
                            }
                            expect_sectors.push(vec![all]);
                        }
                        Via::Scc => {
                            let mut row = vec![];
                            for d in ids {
                                let okk = can(&l, *d, exp, &done) && !*bad_piece;
                                if okk {
                                    done.insert(*d);
                                    updates.push((*d, *sno));
                                }
                                row.push(okk);
                            }
                            expect_sectors.push(row);
                        }
                    }
                }
                // implementation
                let r;
                let got: Vec<Vec<bool>>;
                match via {
                    Via::Batch => {
                        let prm = BatchActivateDealsParams {
                            sectors: sectors
                                .iter()
                                .map(|(sno, sel, ids)| SectorDeals { sector_number: *sno, sector_type: RegisteredSealProof::StackedDRG32GiBV1P1, sector_expiry: expiry(*sel, ids, &l), deal_ids: ids.clone() })
                                .collect(),
                            compute_cid: false,
                        };
                        r = imp(vm, miner, &market, &z, Method::BatchActivateDeals as u64, Some(&prm));
                        got = if r.ok() {
                            let ret: BatchActivateDealsResult = r.ret.as_ref().unwrap().deserialize().unwrap();
                            let codes = ret.activation_results.codes();
                            codes.iter().map(|c| vec![c.is_success()]).collect()
                        } else {
                            vec![]
                        };
                    }
                    Via::Scc => {
                        let prm = SectorContentChangedParams {
                            sectors: sectors
                                .iter()
                                .map(|(sno, sel, ids)| SectorChanges {
                                    sector: *sno,
                                    minimum_commitment_epoch: expiry(*sel, ids, &l),
                                    added: ids
                                        .iter()
                                        .map(|d| {
                                            let piece = l.deals.get(d).map(|dd| self.cfg.specs[dd.spec].piece).unwrap_or(0);
                                            PieceChange {
                                                data: make_piece_cid(&[b'p', if *bad_piece { piece + 100 } else { piece }]),
                                                size: PaddedPieceSize(2048),
                                                payload: RawBytes::serialize(d).unwrap(),
                                            }
                                        })
                                        .collect(),
                                })
                                .collect(),
                        };
                        r = imp(vm, miner, &market, &z, Method::SectorContentChangedExported as u64, Some(&prm));
                        got = if r.ok() {
                            let ret: SectorContentChangedReturn = r.ret.as_ref().unwrap().deserialize().unwrap();
                            ret.sectors.iter().map(|s| s.added.iter().map(|p| p.accepted).collect()).collect()
                        } else {
                            vec![]
                        };
                    }
                }
                if !r.ok() {
                    bad(format!("activation message by a miner failed: {}", r.tree()));
                } else if got != expect_sectors {
                    bad(format!("activation by {by:?} via {via:?} of {sectors:?} at {now}: implementation accepted {:?}, lifecycle model {:?}", got, expect_sectors));
                }
                for (d, sno) in updates {
                    let dd = l.deals.get_mut(&d).unwrap();
                    dd.activated_at = Some(now);
                    dd.sector = Some(sno);
                    dd.in_sector_map = true;
                }
                outcome = if got.iter().flatten().any(|b| *b) { "activated" } else { "nothing activated" };
            }
            Act::Settle { by, ids } => {
                l.settles_left -= 1;
                let r = ext(vm, c.id(*by), &market, &z, Method::SettleDealPaymentsExported as u64, Some(&SettleDealPaymentsParams { deal_ids: { let mut bf = BitField::new(); for i in ids { bf.set(*i); } bf } }));
                let mut sorted = ids.clone();
                sorted.sort();
                let mut expect_pay: Vec<i128> = vec![];
                for d in sorted {
                    let Some(dd) = l.deals.get(&d).cloned() else { continue };
                    if dd.activated_at.is_none() {
                        if now < dd.start {
                            expect_pay.push(0);
                        } else {
                            l.timeout(d);
                        }
                        continue;
                    }
                    let paid = if now >= dd.start { l.pay_to(d, now) } else { 0 };
                    expect_pay.push(paid);
                    if now >= dd.end {
                        l.complete(d);
                    }
                }
                if !r.ok() {
                    bad(format!("settle message failed: {}", r.tree()));
                } else {
                    let ret: SettleDealPaymentsReturn = r.ret.as_ref().unwrap().deserialize().unwrap();
                    let got: Vec<i128> = ret.settlements.iter().map(|s| i128::try_from(s.payment.atto()).unwrap()).collect();
                    if got != expect_pay {
                        bad(format!("settlement at {now} paid {:?}; price x elapsed epochs is {:?}", got, expect_pay));
                    }
                }
            }
            Act::Terminate { by, sectors } => {
                l.terms_left -= 1;
                let miner = c.id(*by);
                let mut bf = BitField::new();
                for s in sectors {
                    bf.set(*s);
                }
                let r = imp(vm, miner, &market, &z, Method::OnMinerSectorsTerminate as u64, Some(&OnMinerSectorsTerminateParams { epoch: now, sectors: bf }));
                if !r.ok() {
                    bad(format!("termination message failed: {}", r.tree()));
                }
                let ids: Vec<u64> = l.deals.iter().filter(|d| d.1.provider == miner && d.1.in_sector_map && d.1.sector.map(|s| sectors.contains(&s)).unwrap_or(false)).map(|d| *d.0).collect();
                for d in ids {
                    let dd = l.deals.get_mut(&d).unwrap();
                    dd.in_sector_map = false;
                    if dd.end <= now {
                        continue;
                    }
                    l.terminate(d, now);
                }
            }
            Act::TickTo(t) => {
                let invs = tick_to(vm, *t);
                for i in &invs {
                    if !i.ok() || i.any_panicked() || i.flat().iter().any(|x| !x.ok()) {
                        bad(format!("cron tick failed: {}", i.tree()));
                    }
                }
                if let Err(e) = self.sync_after_ticks(vm, &mut l, *t - 1) {
                    bad(e);
                }
            }
        }
        if viol.is_none()
            && let Err(e) = self.compare(vm, c, &l, &self.burnt0())
        {
            viol = Some(e);
        }
        // API-level probe of one party
        if viol.is_none() {
            let p = c.a.0;
            let r = ext(vm, c.z.0, &market, &z, Method::GetBalanceExported as u64, Some(&id(p)));
            if r.ok() {
                let g: fil_actor_market::GetBalanceReturn = r.ret.as_ref().unwrap().deserialize().unwrap();
                if g.balance != atto(*l.escrow.get(&p).unwrap_or(&0)) || g.locked != atto(l.locked(p)) {
                    viol = Some(format!("GetBalance({p}) = ({}, {}), ledger model ({}, {})", g.balance, g.locked, l.escrow.get(&p).unwrap_or(&0), l.locked(p)));
                }
            } else {
                viol = Some(format!("GetBalance failed: {}", r.tree()));
            }
        }
        let mut st = Step::new(VS { snap: vm.snapshot(), m: M { base: s.m.base, l } }, outcome);
        st.agreed = 1;
        st.sites = sites;
        st.violation = viol;
        st
    }

    fn describe(&self) -> serde_json::Value {
        json!({"policy": "MAINNET", "config": self.cfg.name, "proposals": self.cfg.specs, "batches": self.cfg.batches.iter().map(|b| json!({"by": b.0, "specs": b.1})).collect::<Vec<_>>(),
               "deal_duration": DURATION, "provider_collateral": PCOLL.to_string(), "boundaries": self.cfg.boundaries,
               "budgets": {"publish": self.cfg.publishes, "withdraw": self.cfg.withdraws, "add": self.cfg.adds, "settle": self.cfg.settles, "terminate": self.cfg.terms, "activate": self.cfg.acts},
               "time": "sparse ticking: real cron tick at every epoch with something scheduled and at the target",
               "oracle": "reference ledger: escrow, locked = sum of outstanding obligations, market-wide totals, burnt, ids, per-call accept/return values"})
    }
}

pub fn spec(client: Who, provider: Who, piece: u8, start_off: i64, price: i128) -> PSpec {
    PSpec { client, provider, piece, start_off, price, ccoll: 7, sig: Sig::Good, client_by_key: false }
}
