//! C01 — no FIL is created, lost or stranded: conservation and solvency. DESIGN §3 C01.
//! The conservation/solvency oracle is evaluated after every transition of several scenarios
//! (payment channel, multisig, market, miner life with penalties and failing transfers) and of a
//! dedicated `economy` scenario (plain sends incl. auto-created recipients, miner creation with
//! short / exact / excess deposits, block rewards with penalties to miners and non-miners, failing
//! nested sends).
use crate::chain::*;
use crate::miner::{award, small_policy};
use crate::util::*;
use fil_actor_market::State as MarketState;
use fil_actor_market::balance_table::BalanceTable;
use fil_actor_miner::State as MinerState;
use fil_actor_paych::State as PaychState;
use fil_actor_reward::State as RewardState;
use fil_actors_runtime::runtime::Policy;
use fil_actors_runtime::runtime::builtins::Type;
use fil_actors_runtime::test_utils::ACTOR_TYPES;
use fvm_shared::address::Address;
use fvm_shared::econ::TokenAmount;
use fvm_shared::sector::RegisteredPoStProof;
use fvm_shared::{ActorID, METHOD_SEND};
use mcvm::{Inv, MsgKind, Store, Vm};
use mcx::{Bounds, Key, Scenario, Step};
use num_traits::Zero;
use serde::{Deserialize, Serialize};
use serde_json::json;

pub trait HasVm {
    fn vm(&self) -> &Vm;
}
impl HasVm for crate::c16::W {
    fn vm(&self) -> &Vm {
        &self.vm
    }
}
impl HasVm for crate::c12::W {
    fn vm(&self) -> &Vm {
        &self.vm
    }
}
impl HasVm for crate::market::W {
    fn vm(&self) -> &Vm {
        &self.vm
    }
}
impl HasVm for crate::minerlife::W {
    fn vm(&self) -> &Vm {
        &self.vm
    }
}
impl HasVm for crate::c14::WW {
    fn vm(&self) -> &Vm {
        &self.vm
    }
}

/// The C01 state oracle: total FIL constant; every custodian solvent.
pub fn check_conservation(vm: &Vm, genesis_total: &TokenAmount, burnt_before: &TokenAmount) -> Result<TokenAmount, String> {
    let actors = vm.actor_states();
    let mut total = TokenAmount::zero();
    for (idn, a) in &actors {
        if a.balance.is_negative() {
            return Err(format!("actor {idn} has a negative balance {}", a.balance));
        }
        total += &a.balance;
    }
    if &total != genesis_total {
        return Err(format!("total FIL over all actors {} != the genesis total {} (difference {})", total, genesis_total, &total - genesis_total));
    }
    let burnt = actors.get(&99).map(|a| a.balance.clone()).unwrap_or_default();
    if &burnt < burnt_before {
        return Err(format!("burnt funds decreased from {burnt_before} to {burnt}"));
    }
    for (idn, a) in &actors {
        match ACTOR_TYPES.get(&a.code) {
            Some(Type::Market) => {
                let st: MarketState = vm.state_of(*idn).unwrap();
                let et = BalanceTable::from_root(&vm.store, &st.escrow_table, "e").unwrap();
                let lt = BalanceTable::from_root(&vm.store, &st.locked_table, "l").unwrap();
                let mut sum = TokenAmount::zero();
                et.0.for_each(|_, v| {
                    sum += v;
                    Ok(())
                })
                .unwrap();
                if a.balance < sum {
                    return Err(format!("market holds {} but owes escrow {}", a.balance, sum));
                }
                let mut bad = None;
                lt.0.for_each(|k, v| {
                    let e = et.get(&k).unwrap();
                    if *v > e {
                        bad = Some(format!("party {k}: locked {v} exceeds escrow {e}"));
                    }
                    Ok(())
                })
                .unwrap();
                if let Some(b) = bad {
                    return Err(b);
                }
            }
            Some(Type::Miner) => {
                let st: MinerState = vm.state_of(*idn).unwrap();
                let need = &st.pre_commit_deposits + &st.locked_funds + &st.initial_pledge;
                if a.balance < need {
                    return Err(format!("miner {idn} holds {} but its pre-commit deposits + vesting funds + pledge are {need}", a.balance));
                }
            }
            Some(Type::PaymentChannel) => {
                let st: PaychState = vm.state_of(*idn).unwrap();
                if st.to_send.is_negative() || a.balance < st.to_send {
                    return Err(format!("payment channel {idn} holds {} but owes the payee {}", a.balance, st.to_send));
                }
            }
            _ => {}
        }
    }
    Ok(burnt)
}

/// Wraps a VM scenario and evaluates the C01 oracle after every transition.
pub struct Conserved<Sc: Scenario> {
    pub inner: Sc,
}

#[derive(Clone)]
pub struct CS<S> {
    pub s: S,
    pub total: TokenAmount,
    pub burnt: TokenAmount,
}

impl<Sc> Scenario for Conserved<Sc>
where
    Sc: Scenario,
    Sc::W: HasVm,
{
    type S = CS<Sc::S>;
    type A = Sc::A;
    type W = Sc::W;

    fn name(&self) -> String {
        format!("c01+{}", self.inner.name())
    }
    fn worker(&self, store: &Store) -> Sc::W {
        self.inner.worker(store)
    }
    fn bases(&self, w: &Sc::W) -> Vec<(String, CS<Sc::S>)> {
        let bs = self.inner.bases(w);
        // every base must be evaluated on its own snapshot: step a no-op by restoring through the
        // inner scenario's first action is not possible generically, so read the totals from the
        // genesis constant (all bases descend from the same genesis by real messages)
        let vm = w.vm();
        let total = vm.total_balance();
        bs.into_iter().map(|(n, s)| (n, CS { s, total: total.clone(), burnt: TokenAmount::zero() })).collect()
    }
    fn key(&self, s: &CS<Sc::S>) -> Key {
        self.inner.key(&s.s)
    }
    fn actions(&self, w: &Sc::W, s: &CS<Sc::S>) -> Vec<Sc::A> {
        self.inner.actions(w, &s.s)
    }
    fn kind(&self, a: &Sc::A) -> String {
        self.inner.kind(a)
    }
    fn step(&self, w: &Sc::W, s: &CS<Sc::S>, a: &Sc::A, faults: &[usize]) -> Step<CS<Sc::S>> {
        let st = self.inner.step(w, &s.s, a, faults);
        let mut out = Step {
            next: None,
            sites: st.sites,
            outcome: st.outcome,
            // only this property's oracle decides here; the inner scenario's own verdicts belong
            // to its own check
            violation: None,
            known: vec![],
            agreed: 1,
        };
        if let Some(n) = st.next {
            match check_conservation(w.vm(), &s.total, &s.burnt) {
                Ok(burnt) => out.next = Some(CS { s: n, total: s.total.clone(), burnt }),
                Err(e) => {
                    out.next = Some(CS { s: n, total: s.total.clone(), burnt: s.burnt.clone() });
                    out.violation = Some(format!("after {a:?}: {e}"));
                }
            }
        }
        out
    }
    fn describe(&self) -> serde_json::Value {
        json!({"wrapped": self.inner.describe(), "oracle": "sum of all balances constant; burnt funds monotone; market balance >= sum of escrow, locked <= escrow; every miner balance >= deposits + vesting + pledge; every payment channel balance >= amount owed"})
    }
}

// ------------------------------------------------------------------ economy scenario

#[derive(Clone, Copy, Debug, Serialize, Deserialize, PartialEq, Eq)]
pub enum To {
    B,
    NewKey,
    NewEth,
    ForeignNs,
    Miner,
    Multisig,
    Burnt,
    Reward,
}

#[derive(Clone, Debug, Serialize, Deserialize)]
pub enum EAct {
    /// amount selector: 0 = 1 atto, 1 = 1 FIL, 2 = whole balance, 3 = balance + 1
    Send { to: To, sel: u8 },
    /// deposit selector: 0 = one atto short, 1 = exact, 2 = excess
    CreateMiner(u8),
    /// to_miner: true = the miner, false = a plain account; penalty / gas reward present or not
    Award { to_miner: bool, penalty: bool, gas: bool },
    WithdrawMiner,
    Tick,
}

#[derive(Clone, Debug, Serialize)]
pub struct EM {
    pub msgs_left: u8,
    pub ticks_left: u8,
    pub creates_left: u8,
}

pub struct Economy {
    pub msgs: u8,
}

pub struct EW {
    pub vm: Vm,
    pub a: ActorID,
    pub b: ActorID,
    pub m: ActorID,
    pub x: ActorID,
    pub deposit: TokenAmount,
    pub base: mcvm::Snapshot,
}
impl HasVm for EW {
    fn vm(&self) -> &Vm {
        &self.vm
    }
}

impl Scenario for Economy {
    type S = VS<EM>;
    type A = EAct;
    type W = EW;

    fn name(&self) -> String {
        "economy".into()
    }
    fn worker(&self, store: &Store) -> EW {
        let vm = Vm::genesis(store.clone(), small_policy());
        vm.bump_nonce.set(true);
        let a = vm.new_account(41, &fil(5000)).0;
        let b = vm.new_account(42, &fil(5000)).0;
        let bo = vm.new_account(43, &fil(5000)).0;
        vm.tick();
        let bm = create_miner(&vm, bo, bo, crate::miner::POST_PROOF, &fil(1000)).unwrap();
        for _ in 0..20 {
            award(&vm, bm, &TokenAmount::zero(), &TokenAmount::zero());
        }
        let m = create_miner(&vm, a, a, crate::miner::POST_PROOF, &fil(100)).unwrap();
        let deposit: TokenAmount = vm.state_of::<MinerState>(m).unwrap().locked_funds;
        // a multisig with A as the only signer
        let ctor = fil_actor_multisig::ConstructorParams { signers: vec![id(a)], num_approvals_threshold: 1, unlock_duration: 0, start_epoch: 0 };
        let r = ext(
            &vm,
            a,
            &fil_actors_runtime::INIT_ACTOR_ADDR,
            &fil(1),
            fil_actor_init::Method::Exec as u64,
            Some(&fil_actor_init::ExecParams {
                code_cid: *fil_actors_runtime::test_utils::MULTISIG_ACTOR_CODE_ID,
                constructor_params: fvm_ipld_encoding::RawBytes::serialize(&ctor).unwrap(),
            }),
        );
        assert!(r.ok());
        let x = r.ret.unwrap().deserialize::<fil_actor_init::ExecReturn>().unwrap().id_address.id().unwrap();
        let base = vm.snapshot();
        EW { vm, a, b, m, x, deposit, base }
    }
    fn bases(&self, w: &EW) -> Vec<(String, VS<EM>)> {
        vec![("accounts+miner+multisig".into(), VS { snap: w.base.clone(), m: EM { msgs_left: self.msgs, ticks_left: 2, creates_left: 1 } })]
    }
    fn key(&self, s: &VS<EM>) -> Key {
        vs_key(s)
    }
    fn kind(&self, a: &EAct) -> String {
        match a {
            EAct::Send { to, sel } => format!("send to {to:?} sel{sel}"),
            EAct::CreateMiner(k) => format!("create-miner deposit-sel{k}"),
            EAct::Award { to_miner, penalty, gas } => format!("award miner={to_miner} penalty={penalty} gas={gas}"),
            EAct::WithdrawMiner => "withdraw-miner".into(),
            EAct::Tick => "tick".into(),
        }
    }
    fn actions(&self, _w: &EW, s: &VS<EM>) -> Vec<EAct> {
        let mut v = vec![];
        if s.m.msgs_left > 0 {
            for to in [To::B, To::NewKey, To::NewEth, To::ForeignNs, To::Miner, To::Multisig, To::Burnt, To::Reward] {
                for sel in 0..4 {
                    v.push(EAct::Send { to, sel });
                }
            }
            if s.m.creates_left > 0 {
                for k in 0..3 {
                    v.push(EAct::CreateMiner(k));
                }
            }
            for to_miner in [true, false] {
                for penalty in [false, true] {
                    for gas in [false, true] {
                        v.push(EAct::Award { to_miner, penalty, gas });
                    }
                }
            }
            v.push(EAct::WithdrawMiner);
        }
        if s.m.ticks_left > 0 {
            v.push(EAct::Tick);
        }
        v
    }
    fn step(&self, w: &EW, s: &VS<EM>, a: &EAct, faults: &[usize]) -> Step<VS<EM>> {
        let vm = &w.vm;
        vm.restore(&s.snap);
        vm.bump_nonce.set(true);
        let mut m = s.m.clone();
        let mut viol = None;
        let mut sites = vec![];
        let reward0: RewardState = vm.state_of(2).unwrap();
        let reward_bal0 = vm.balance(2);
        vm.set_fault_plan(faults);
        let r: Inv = match a {
            EAct::Send { to, sel } => {
                m.msgs_left -= 1;
                let bal = vm.balance(w.a);
                let amount = match sel {
                    0 => atto(1),
                    1 => fil(1),
                    2 => bal.clone(),
                    _ => &bal + atto(1),
                };
                let dest: Address = match to {
                    To::B => id(w.b),
                    To::NewKey => Address::new_secp256k1(&[7u8; 65]).unwrap(),
                    To::NewEth => Address::new_delegated(10, &[0x11u8; 20]).unwrap(),
                    To::ForeignNs => Address::new_delegated(4321, &[0x22u8; 20]).unwrap(),
                    To::Miner => id(w.m),
                    To::Multisig => id(w.x),
                    To::Burnt => id(99),
                    To::Reward => id(2),
                };
                ext(vm, w.a, &dest, &amount, METHOD_SEND, NOP)
            }
            EAct::CreateMiner(k) => {
                m.msgs_left -= 1;
                m.creates_left -= 1;
                // the deposit depends on network state: learn it by a trial creation
                let snap = vm.snapshot();
                let t = create_miner(vm, w.b, w.b, crate::miner::POST_PROOF, &fil(1000));
                let d = t.ok().and_then(|t| vm.state_of::<MinerState>(t)).map(|s| s.locked_funds).unwrap_or_else(|| w.deposit.clone());
                vm.restore(&snap);
                vm.set_fault_plan(faults);
                let value = match k {
                    0 => &d - atto(1),
                    1 => d.clone(),
                    _ => &d + fil(3),
                };
                let p = fil_actor_power::CreateMinerParams {
                    owner: id(w.b),
                    worker: id(w.b),
                    window_post_proof_type: crate::miner::POST_PROOF,
                    peer: b"p".to_vec(),
                    multiaddrs: vec![],
                };
                ext(vm, w.b, &fil_actors_runtime::STORAGE_POWER_ACTOR_ADDR, &value, fil_actor_power::Method::CreateMiner as u64, Some(&p))
            }
            EAct::Award { to_miner, penalty, gas } => {
                m.msgs_left -= 1;
                let pen = if *penalty { fil(2) } else { TokenAmount::zero() };
                let g = if *gas { fil(1) } else { TokenAmount::zero() };
                let r = award(vm, if *to_miner { w.m } else { w.b }, &pen, &g);
                // the reward actor never pays out more than it held, and books exactly the block part
                let paid: TokenAmount = r.effective().iter().filter(|i| i.from == 2).map(|i| i.value.clone()).sum();
                if paid > reward_bal0 {
                    viol = Some(format!("reward actor paid {paid} out of a balance of {reward_bal0}"));
                }
                if r.ok() {
                    let reward1: RewardState = vm.state_of(2).unwrap();
                    let block_part = &reward1.total_storage_power_reward - &reward0.total_storage_power_reward;
                    let expect_block = reward0.this_epoch_reward.div_floor(5);
                    if block_part != expect_block {
                        viol = Some(format!("total storage power reward grew by {block_part}, the block reward is {expect_block}"));
                    }
                    if paid != &block_part + &g && paid != TokenAmount::zero() {
                        viol = Some(format!("reward actor sent {paid} for a block reward {block_part} + gas reward {g}"));
                    }
                }
                r
            }
            EAct::WithdrawMiner => {
                m.msgs_left -= 1;
                crate::miner::withdraw(vm, w.a, w.m, &fil(1_000_000))
            }
            EAct::Tick => {
                m.ticks_left -= 1;
                vm.tick()
            }
        };
        if r.any_panicked() {
            viol = Some(format!("panic: {}", r.tree()));
        }
        for i in r.flat() {
            if i.from == 99 {
                viol = Some(format!("funds sent from the burnt-funds account: {}", i.brief()));
            }
        }
        if faults.is_empty() {
            // tolerated nested sends: value transfers and the reward actor's ApplyRewards call
            sites = r.flat().iter().skip(1).filter(|i| !i.value.is_zero() || i.method == fil_actor_miner::Method::ApplyRewards as u64).filter_map(|i| i.send_index).collect();
        }
        vm.bump_nonce.set(false);
        let mut st = Step::new(VS { snap: vm.snapshot(), m }, if r.ok() { "accepted" } else { "rejected" });
        st.sites = sites;
        st.violation = viol;
        st.agreed = 1;
        st
    }
    fn describe(&self) -> serde_json::Value {
        json!({"policy": "SMALL", "cast": ["account A", "account B", "miner of A", "ballast miner", "multisig of A"],
               "amounts": ["1 atto", "1 FIL", "whole balance", "balance + 1"],
               "fault_classes": ["every nested value transfer", "reward -> miner.ApplyRewards"]})
    }
}

pub fn run(tier: &str) -> ! {
    let th = tier_is_thorough(tier);
    let mut run = mcx::evidence::Run::new("C01", tier, "model_checking");
    run.assumptions = vec![
        "the conservation/solvency oracle is evaluated after every transition of the wrapped scenarios; their own reference models are not judged here".into(),
        "mcvm stands in for the FVM (value transfer before dispatch, rollback of state and balances on abort)".into(),
        "EVM value transfers and self-destruct balances are covered by C19's oracle, not here".into(),
    ];
    let cap = if th { 400.0 } else { 12.0 };
    let eco = Conserved { inner: Economy { msgs: if th { 4 } else { 3 } } };
    run.add(mcx::explore(&eco, &Bounds { max_depth: if th { 6 } else { 4 }, max_faults: if th { 2 } else { 1 }, wall_cap_s: cap, replay_sample: 8, ..Default::default() }));
    let (p, mut b) = crate::c16::scenario("quick");
    b.wall_cap_s = cap;
    b.max_depth = if th { 4 } else { 3 };
    b.replay_sample = 8;
    run.add(mcx::explore(&Conserved { inner: p }, &b));
    let (ms, mut b) = crate::c12::scenario("quick");
    b.wall_cap_s = cap;
    b.max_depth = if th { 3 } else { 2 };
    b.replay_sample = 8;
    run.add(mcx::explore(&Conserved { inner: ms }, &b));
    let (mk, mut b) = crate::c06::scenario("quick");
    b.wall_cap_s = cap;
    b.max_depth = if th { 5 } else { 4 };
    b.replay_sample = 8;
    run.add(mcx::explore(&Conserved { inner: mk }, &b));
    let (mt, mut b) = big_client_collateral();
    b.wall_cap_s = cap;
    run.add(mcx::explore(&Conserved { inner: mt }, &b));
    let (life, mut b) = crate::c15::scenario_regime(tier, true);
    b.wall_cap_s = if th { 600.0 } else { 20.0 };
    b.replay_sample = 8;
    run.add(mcx::explore(&Conserved { inner: life }, &b));
    let _ = (Policy::default(), MsgKind::External, RegisteredPoStProof::Invalid(0));
    run.finish()
}

/// The market's payment/time-out scenario with a client collateral (2 FIL) larger than the
/// provider collateral (1 FIL): amounts that are confused with each other show up as insolvency.
fn big_client_collateral() -> (crate::market::Market, Bounds) {
    let (mut m, b) = crate::c07::scenario("quick");
    m.cfg.name = "payments-big-client-collateral";
    for s in m.cfg.specs.iter_mut() {
        s.ccoll = 2_000_000_000_000_000_000;
    }
    m.cfg.bases = vec!["published-1", "active-1"];
    (m, b)
}

pub fn replay(v: &serde_json::Value) -> ! {
    let scn = v["scenario"].as_str().unwrap_or("");
    let tier = v["tier"].as_str().unwrap_or("quick");
    match scn {
        "c01+economy" => crate::replay_with(&Conserved { inner: Economy { msgs: 4 } }, v),
        "c01+paych" => crate::replay_with(&Conserved { inner: crate::c16::scenario("quick").0 }, v),
        "c01+multisig" => crate::replay_with(&Conserved { inner: crate::c12::scenario("quick").0 }, v),
        "c01+market/escrow" => crate::replay_with(&Conserved { inner: crate::c06::scenario("quick").0 }, v),
        "c01+market/payments-big-client-collateral" => crate::replay_with(&Conserved { inner: big_client_collateral().0 }, v),
        "c01+miner-life/c15-poor" => crate::replay_with(&Conserved { inner: crate::c15::scenario_regime(tier, true).0 }, v),
        _ => {
            eprintln!("unknown C01 scenario {scn}");
            std::process::exit(2)
        }
    }
}
