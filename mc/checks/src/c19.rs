//! C19 — not implemented yet.

pub fn run(_tier: &str) -> ! {
    eprintln!("C19: check not implemented");
    std::process::exit(2)
}

/// Replay a violation file written by this check; `v` is the parsed replay JSON.
pub fn replay(_v: &serde_json::Value) -> ! {
    eprintln!("C19: replay not implemented");
    std::process::exit(2)
}
