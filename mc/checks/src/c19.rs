//! C19 — EVM contract state stays coherent across nested, re-entrant and reverted calls.
//! DESIGN §3 C19.
//!
//! What is enumerated: **call-tree scripts**. A script is a list of 1..M top-level messages; each
//! message is a *frame* = (contract, op*, end); op ∈ {SSTORE k v, SLOAD k, TSTORE k v, TLOAD k,
//! LOG, CREATE2(child), CALL f, CALL-with-value f, STATICCALL f, DELEGATECALL f} where f is again
//! a frame; end ∈ {RETURN (implicit), REVERT, INVALID, SELFDESTRUCT(beneficiary)}. A tier is a
//! list of *spaces* (`Space::for_tier`), each given by bounds on nesting depth, ops per frame,
//! contracts, messages, senders, the alphabets, and the total number of ops of a script. ALL
//! scripts of a space are generated, fewest ops first, and executed (no sampling; the only
//! reduction is the canonical naming of contracts, argued at `Enumerator`).
//!
//! How a script runs: a code generator compiles a work unit of scripts into ONE bytecode per
//! contract (entry: jump to the frame whose code offset is given in the first two bytes of the
//! call data). The codes are deployed through the real EAM actor (`CreateExternal`, init code =
//! "return the following bytes"); every top-level message is a real `InvokeContract` message from
//! an account, carrying 2 atto. Every frame reports, in memory, what it observes: its ADDRESS,
//! CALLER and CALLVALUE at entry, every value it reads, and after each call the success flag, the
//! length and the bytes of the callee's return data (the callee's own report; a reverting frame
//! reverts *with* its report). The top frame returns the whole report.
//!
//! Oracle: an **account journal** written from Ethereum semantics (Yellow Paper §8/§9, EIP-1153,
//! EIP-214, EIP-7; *not* derived from /repo/actors/evm): per-contract storage / transient maps and
//! balances, snapshot at call entry, restore when that frame reverts or fails, transient maps
//! emptied at the end of every top-level message, self-destruct set applied at the end of the
//! message (balance moved at once, contract alive until the end, afterwards no code / no storage),
//! DELEGATECALL = callee code on the caller's storage / sender / value, STATICCALL = any write,
//! log, creation, value transfer or self-destruct below it fails its frame. Compared after EVERY
//! top-level message: success flag and return data of the message (= everything every frame read
//! + all flags), `GetStorageAt` of every key of every contract, `GetBytecode` (empty iff
//! destroyed), balances of all contracts, of both senders and of the beneficiary, the multiset of
//! effective LOG events, existence of CREATE2 children.
//!
//! Two sender accounts are kept at EQUAL nonces, so that consecutive messages may differ in the
//! origin only (spaces with `senders: 2`): the life span of transient storage and the
//! "destroyed in an earlier message" test hang on the pair (origin, nonce).
//!
//! Deliberately NOT judged (the property is silent, or Ethereum and FEVM differ): exit codes; gas;
//! order of logs across activations; event layout beyond emitter and first topic; the exact
//! bytes behind `GetBytecode` of a live contract; the balance of a contract that received funds
//! *after* self-destructing in the same message (Ethereum burns them at the end of the
//! transaction, FEVM keeps them in the dead actor) — that contract's balance is no longer compared.
//!
//! Development knobs (not used by run.sh): `C19_SPACE="name=x,depth=3,size=4,..."` replaces the
//! tier's spaces, `C19_COUNT_ONLY=1` only counts the scripts, `C19_CAP_S`, `MC_THREADS`,
//! `MC_TIMING`.
use crate::util::*;
use fil_actors_runtime::runtime::{Policy, Primitives};
use fil_actors_runtime::{EAM_ACTOR_ADDR, EAM_ACTOR_ID, SYSTEM_ACTOR_ADDR};
use fvm_ipld_encoding::ipld_block::IpldBlock;
use fvm_ipld_encoding::{BytesDe, BytesSer};
use fvm_shared::ActorID;
use fvm_shared::address::Address;
use fvm_shared::crypto::hash::SupportedHashes;
use fvm_shared::econ::TokenAmount;
use mcvm::{Inv, MsgKind, Snapshot, Store, Vm};
use mcx::{PathStep, ViolationReport};
use num_traits::Zero;
use serde::{Deserialize, Serialize};
use serde_json::{Value, json};
use std::collections::{BTreeMap, HashSet};
use std::sync::Mutex;
use std::sync::atomic::{AtomicBool, Ordering};
use std::time::Instant;

// =============================================================================================
// Scripts
// =============================================================================================

#[derive(Clone, Copy, Debug, PartialEq, Eq, PartialOrd, Ord, Serialize, Deserialize)]
pub enum Kind {
    Call,
    /// CALL transferring 1 atto.
    CallValue,
    Static,
    Delegate,
}

#[derive(Clone, Debug, PartialEq, Eq, Serialize, Deserialize)]
pub enum Op {
    SStore(u8, u8),
    SLoad(u8),
    TStore(u8, u8),
    TLoad(u8),
    /// LOG1 with a topic unique within the script (numbered by `Script::number_logs`).
    Log(u16),
    /// CREATE2(value 0, salt 0, fixed child init code); reports whether an address came back.
    Create2,
    Call(Kind, Frame),
}

#[derive(Clone, Copy, Debug, PartialEq, Eq, PartialOrd, Ord, Serialize, Deserialize)]
pub enum End {
    Return,
    Revert,
    Invalid,
    SelfDestruct,
}

#[derive(Clone, Debug, PartialEq, Eq, Serialize, Deserialize)]
pub struct Frame {
    /// Contract whose code this frame is (for DELEGATECALL: where the code lives).
    pub c: u8,
    pub ops: Vec<Op>,
    pub end: End,
}

#[derive(Clone, Debug, PartialEq, Eq, Serialize, Deserialize)]
pub struct Script {
    pub msgs: Vec<Frame>,
    /// Which of the two sender accounts sends message i (missing = sender 0). The two accounts
    /// are arranged to have EQUAL nonces when they send their first message of a script, so that
    /// consecutive messages can differ in the origin only, in the nonce only, or in both.
    #[serde(default)]
    pub senders: Vec<u8>,
}

impl Frame {
    fn walk<'a>(&'a self, f: &mut dyn FnMut(&'a Frame)) {
        f(self);
        for op in &self.ops {
            if let Op::Call(_, g) = op {
                g.walk(f);
            }
        }
    }
    fn number_logs(&mut self, next: &mut u16) {
        for op in &mut self.ops {
            match op {
                Op::Log(t) => {
                    *t = *next;
                    *next += 1;
                }
                Op::Call(_, g) => g.number_logs(next),
                _ => {}
            }
        }
    }
    fn pretty(&self, out: &mut String) {
        out.push((b'A' + self.c) as char);
        out.push('{');
        let mut first = true;
        let mut sep = |out: &mut String| {
            if !first {
                out.push_str("; ");
            }
            first = false;
        };
        for op in &self.ops {
            sep(out);
            match op {
                Op::SStore(k, v) => out.push_str(&format!("s{k}={v}")),
                Op::SLoad(k) => out.push_str(&format!("s{k}?")),
                Op::TStore(k, v) => out.push_str(&format!("t{k}={v}")),
                Op::TLoad(k) => out.push_str(&format!("t{k}?")),
                Op::Log(t) => out.push_str(&format!("log#{t}")),
                Op::Create2 => out.push_str("create2"),
                Op::Call(k, g) => {
                    out.push_str(match k {
                        Kind::Call => "call ",
                        Kind::CallValue => "call+1 ",
                        Kind::Static => "static ",
                        Kind::Delegate => "delegate ",
                    });
                    g.pretty(out);
                }
            }
        }
        match self.end {
            End::Return => {}
            End::Revert => {
                sep(out);
                out.push_str("REVERT")
            }
            End::Invalid => {
                sep(out);
                out.push_str("INVALID")
            }
            End::SelfDestruct => {
                sep(out);
                out.push_str("SELFDESTRUCT")
            }
        }
        out.push('}');
    }
}

impl Script {
    pub fn sender_of(&self, i: usize) -> usize {
        self.senders.get(i).copied().unwrap_or(0) as usize
    }
    pub fn contracts(&self) -> usize {
        let mut n = 0;
        for m in &self.msgs {
            m.walk(&mut |f| n = n.max(f.c as usize + 1));
        }
        n
    }
    pub fn number_logs(&mut self) {
        let mut next = 1;
        for m in &mut self.msgs {
            m.number_logs(&mut next);
        }
    }
    pub fn uses_create2(&self) -> bool {
        let mut y = false;
        for m in &self.msgs {
            m.walk(&mut |f| y |= f.ops.iter().any(|o| matches!(o, Op::Create2)));
        }
        y
    }
    pub fn pretty(&self) -> String {
        let mut s = String::new();
        for (i, m) in self.msgs.iter().enumerate() {
            if i > 0 {
                s.push_str("  |  ");
            }
            s.push_str(&format!("msg{}{}: ", i + 1, if self.sender_of(i) == 0 { "" } else { " (2nd sender)" }));
            m.pretty(&mut s);
        }
        s
    }
}

// =============================================================================================
// The script space and its enumeration
// =============================================================================================

#[derive(Clone, Debug, Serialize)]
pub struct Space {
    pub name: String,
    /// Nesting depth of frames (a top-level frame has depth 1).
    pub max_depth: usize,
    /// Ops per frame, an explicit REVERT / INVALID / SELFDESTRUCT counting as one.
    pub max_ops: usize,
    pub max_contracts: usize,
    pub max_msgs: usize,
    /// Total number of ops of a script (every op of every frame of every message, explicit
    /// terminators included, a call counting 1 + the size of its callee frame).
    pub max_size: usize,
    pub keys: Vec<u8>,
    pub values: Vec<u8>,
    pub kinds: Vec<Kind>,
    pub ends: Vec<End>,
    pub log: bool,
    pub create2: bool,
    /// false: no SSTORE / SLOAD in the alphabet (transient storage and calls only)
    pub persistent: bool,
    /// 1: every message comes from the same account; 2: messages 2.. come from either of two
    /// accounts (all assignments)
    pub senders: usize,
    /// scripts per work unit / code-size budget of one deployed system (machinery, not bounds)
    pub batch: usize,
    pub code_budget: usize,
}

impl Space {
    /// The design alphabet: k in {0,1}, v in {1,2}, all four call kinds, REVERT and SELFDESTRUCT.
    fn base(name: &str) -> Space {
        Space {
            name: name.into(),
            max_depth: 2,
            max_ops: 3,
            max_contracts: 3,
            max_msgs: 2,
            max_size: 3,
            keys: vec![0, 1],
            values: vec![1, 2],
            kinds: vec![Kind::Call, Kind::CallValue, Kind::Static, Kind::Delegate],
            ends: vec![End::Revert, End::SelfDestruct],
            log: false,
            create2: false,
            persistent: true,
            senders: 1,
            batch: 16,
            code_budget: 16 << 10,
        }
    }

    /// `C19_SPACE="name=x,depth=3,ops=3,contracts=3,msgs=2,size=5,keys=0,values=1:2,kinds=call:callv:static:delegate,ends=revert:invalid:sd,log=1,create2=0"`
    fn from_spec(spec: &str) -> Space {
        let mut sp = Space::base("custom");
        for kv in spec.split(',') {
            let (k, v) = kv.split_once('=').expect("key=value");
            let nums = || v.split(':').filter(|x| !x.is_empty()).map(|x| x.parse::<u8>().unwrap()).collect::<Vec<_>>();
            match k {
                "name" => sp.name = v.into(),
                "depth" => sp.max_depth = v.parse().unwrap(),
                "ops" => sp.max_ops = v.parse().unwrap(),
                "contracts" => sp.max_contracts = v.parse().unwrap(),
                "msgs" => sp.max_msgs = v.parse().unwrap(),
                "size" => sp.max_size = v.parse().unwrap(),
                "batch" => sp.batch = v.parse().unwrap(),
                "budget" => sp.code_budget = v.parse().unwrap(),
                "keys" => sp.keys = nums(),
                "values" => sp.values = nums(),
                "log" => sp.log = v == "1",
                "create2" => sp.create2 = v == "1",
                "persistent" => sp.persistent = v == "1",
                "senders" => sp.senders = v.parse().unwrap(),
                "kinds" => {
                    sp.kinds = v
                        .split(':')
                        .filter(|x| !x.is_empty())
                        .map(|x| match x {
                            "call" => Kind::Call,
                            "callv" => Kind::CallValue,
                            "static" => Kind::Static,
                            "delegate" => Kind::Delegate,
                            _ => panic!("unknown call kind {x}"),
                        })
                        .collect()
                }
                "ends" => {
                    sp.ends = v
                        .split(':')
                        .filter(|x| !x.is_empty())
                        .map(|x| match x {
                            "revert" => End::Revert,
                            "invalid" => End::Invalid,
                            "sd" => End::SelfDestruct,
                            _ => panic!("unknown end {x}"),
                        })
                        .collect()
                }
                _ => panic!("unknown space key {k}"),
            }
        }
        assert!(sp.max_contracts <= MAX_CONTRACTS && sp.max_contracts >= 1 && sp.max_depth >= 1);
        sp
    }

    pub fn for_tier(tier: &str) -> Vec<Space> {
        if let Ok(spec) = std::env::var("C19_SPACE") {
            return spec.split(';').map(Space::from_spec).collect();
        }
        use End::*;
        use Kind::*;
        let b = Space::base;
        if tier_is_thorough(tier) {
            vec![
                // Ordered smallest first, so that a run capped by the wall clock (exhaustive:false)
                // still completes the cheap spaces.
                // every op of the alphabet incl. LOG and CREATE2, two senders, small scripts
                Space { max_depth: 4, max_ops: 4, max_contracts: 4, max_msgs: 3, max_size: 3, values: vec![0, 1, 2], ends: vec![Revert, Invalid, SelfDestruct], log: true, create2: true, senders: 2, ..b("everything-small") },
                // one key, longer call trees
                Space { max_depth: 4, max_ops: 4, max_contracts: 2, max_msgs: 1, max_size: 6, keys: vec![0], values: vec![1], kinds: vec![Call, Delegate], ends: vec![Revert], ..b("deeper") },
                Space { max_depth: 3, max_ops: 4, max_contracts: 2, max_msgs: 2, max_size: 5, keys: vec![0], values: vec![0, 1], kinds: vec![Call, Delegate], ..b("deep-two-messages") },
                Space { max_depth: 4, max_ops: 4, max_contracts: 3, max_msgs: 1, max_size: 5, keys: vec![0], ..b("deep") },
                // the design alphabet (+ value 0, + INVALID) one op deeper than quick
                Space { max_depth: 4, max_ops: 4, max_contracts: 4, max_msgs: 3, max_size: 4, values: vec![0, 1, 2], ends: vec![Revert, Invalid, SelfDestruct], ..b("full-alphabet") },
                Space { max_depth: 3, max_ops: 5, max_contracts: 2, max_msgs: 2, max_size: 6, keys: vec![0], values: vec![0, 1], kinds: vec![Call, Static, Delegate], ends: vec![Revert], persistent: false, ..b("transient-lock") },
            ]
        } else {
            vec![
                // the design alphabet + value 0 (slot deletion) + INVALID + LOG
                Space { values: vec![0, 1, 2], ends: vec![Revert, Invalid, SelfDestruct], log: true, ..b("full-alphabet") },
                // one key, depth 3, one op more
                Space { max_depth: 3, max_contracts: 2, max_msgs: 1, max_size: 4, keys: vec![0], kinds: vec![Call, Static, Delegate], ..b("deep") },
                // up to three messages from two senders with equal nonces
                Space { max_contracts: 2, max_msgs: 3, keys: vec![0], values: vec![1], kinds: vec![Call, Delegate], senders: 2, ..b("two-senders") },
                // transient storage only (set / clear / read around re-entrant calls: the
                // transient re-entrancy lock), two ops more
                Space { max_ops: 4, max_contracts: 2, max_msgs: 1, max_size: 5, keys: vec![0], values: vec![0, 1], kinds: vec![Call, Delegate], ends: vec![Revert], persistent: false, ..b("transient-lock") },
            ]
        }
    }

    fn simple_ops(&self) -> Vec<Op> {
        let mut v = vec![];
        if self.persistent {
            for &k in &self.keys {
                for &x in &self.values {
                    v.push(Op::SStore(k, x));
                }
            }
            for &k in &self.keys {
                v.push(Op::SLoad(k));
            }
        }
        for &k in &self.keys {
            for &x in &self.values {
                v.push(Op::TStore(k, x));
            }
        }
        for &k in &self.keys {
            v.push(Op::TLoad(k));
        }
        if self.log {
            v.push(Op::Log(0));
        }
        if self.create2 {
            v.push(Op::Create2);
        }
        v
    }
}

/// Streams every script of the space, smallest total size first.
///
/// The only reduction applied is the **naming of contracts**: contracts are numbered in the order
/// of their first appearance in the pre-order walk of the script (message 1's top frame is always
/// contract A, the next contract that appears is B, ...). Argument: a contract's name carries no
/// meaning except identity — every contract of a system starts empty, with code generated from the
/// script alone, and its address is an (arbitrary) hash in either naming; a script and its image
/// under a permutation of names describe the same call tree over the same number of distinct
/// contracts, deployed in a different order. (The initial balances differ per name, 16·2^i atto,
/// only to make mix-ups of accounts visible; no behaviour within the bounds depends on the amount
/// beyond "can pay 1 atto", which holds for every contract until it self-destructs.) Likewise the
/// first message is always sent by sender 0. No pruning by keys, values or "relevance" is done:
/// every syntactically different script within the bounds is executed.
struct Enumerator<'a> {
    sp: &'a Space,
    simple: Vec<Op>,
    stop: &'a AtomicBool,
}

impl<'a> Enumerator<'a> {
    /// All frames of exactly `size` ops with nesting depth <= `depth`, given that `n_in` contracts
    /// have been named before this frame; `out(frame, n_out)`.
    fn frames(&self, depth: usize, size: usize, n_in: u8, out: &mut dyn FnMut(&Frame, u8)) {
        let maxc = self.sp.max_contracts as u8;
        for c in 0..=n_in.min(maxc - 1) {
            let n = n_in.max(c + 1);
            let mut ops = vec![];
            self.extend(depth, c, n, size, &mut ops, out);
        }
    }

    fn extend(&self, depth: usize, c: u8, n: u8, remaining: usize, ops: &mut Vec<Op>, out: &mut dyn FnMut(&Frame, u8)) {
        if self.stop.load(Ordering::Relaxed) {
            return;
        }
        if remaining == 0 {
            out(&Frame { c, ops: ops.clone(), end: End::Return }, n);
            return;
        }
        if ops.len() >= self.sp.max_ops {
            return;
        }
        if remaining == 1 {
            for &e in &self.sp.ends {
                out(&Frame { c, ops: ops.clone(), end: e }, n);
            }
        }
        for op in &self.simple {
            ops.push(op.clone());
            self.extend(depth, c, n, remaining - 1, ops, out);
            ops.pop();
        }
        if depth >= 2 {
            for t in 0..remaining {
                for &kind in &self.sp.kinds {
                    self.frames(depth - 1, t, n, &mut |callee, n2| {
                        ops.push(Op::Call(kind, callee.clone()));
                        self.extend(depth, c, n2, remaining - 1 - t, ops, out);
                        ops.pop();
                    });
                }
            }
        }
    }

    /// All message lists with exactly `sizes[i]` ops in message i.
    fn messages(&self, sizes: &[usize], n_in: u8, acc: &mut Vec<Frame>, out: &mut dyn FnMut(&[Frame])) {
        if sizes.is_empty() {
            out(acc);
            return;
        }
        self.frames(self.sp.max_depth, sizes[0], n_in, &mut |f, n| {
            acc.push(f.clone());
            self.messages(&sizes[1..], n, acc, out);
            acc.pop();
        });
    }

    /// `out(size_class, script)`.
    fn run(&self, out: &mut dyn FnMut(usize, Script)) {
        for size in 1..=self.sp.max_size {
            for m in 1..=self.sp.max_msgs.min(size) {
                for comp in compositions(size, m) {
                    let mut acc = vec![];
                    self.messages(&comp, 0, &mut acc, &mut |msgs| {
                        // sender assignments: message 1 by sender 0, the others by any of them
                        let free = if self.sp.senders >= 2 { msgs.len() - 1 } else { 0 };
                        for bits in 0..(1u32 << free) {
                            let senders = (0..msgs.len()).map(|i| if i == 0 { 0 } else { ((bits >> (i - 1)) & 1) as u8 }).collect();
                            let mut s = Script { msgs: msgs.to_vec(), senders };
                            s.number_logs();
                            out(size, s);
                        }
                    });
                }
            }
        }
    }
}

/// Ordered compositions of `n` into `m` parts >= 1, lexicographic.
fn compositions(n: usize, m: usize) -> Vec<Vec<usize>> {
    if m == 1 {
        return vec![vec![n]];
    }
    let mut v = vec![];
    for first in 1..=(n - (m - 1)) {
        for mut rest in compositions(n - first, m - 1) {
            let mut c = vec![first];
            c.append(&mut rest);
            v.push(c);
        }
    }
    v
}

// =============================================================================================
// Tiny assembler and the code generator
// =============================================================================================

mod op {
    pub const ADD: u8 = 0x01;
    pub const SUB: u8 = 0x03;
    pub const ISZERO: u8 = 0x15;
    pub const SHL: u8 = 0x1b;
    pub const SHR: u8 = 0x1c;
    pub const ADDRESS: u8 = 0x30;
    pub const CALLER: u8 = 0x33;
    pub const CALLVALUE: u8 = 0x34;
    pub const CALLDATALOAD: u8 = 0x35;
    pub const CODECOPY: u8 = 0x39;
    pub const RETURNDATASIZE: u8 = 0x3d;
    pub const RETURNDATACOPY: u8 = 0x3e;
    pub const MLOAD: u8 = 0x51;
    pub const MSTORE: u8 = 0x52;
    pub const MSTORE8: u8 = 0x53;
    pub const SLOAD: u8 = 0x54;
    pub const SSTORE: u8 = 0x55;
    pub const JUMP: u8 = 0x56;
    pub const GAS: u8 = 0x5a;
    pub const JUMPDEST: u8 = 0x5b;
    pub const TLOAD: u8 = 0x5c;
    pub const TSTORE: u8 = 0x5d;
    pub const PUSH0: u8 = 0x5f;
    pub const PUSH1: u8 = 0x60;
    pub const DUP1: u8 = 0x80;
    pub const DUP2: u8 = 0x81;
    pub const SWAP1: u8 = 0x90;
    pub const LOG1: u8 = 0xa1;
    pub const CALL: u8 = 0xf1;
    pub const RETURN: u8 = 0xf3;
    pub const DELEGATECALL: u8 = 0xf4;
    pub const CREATE2: u8 = 0xf5;
    pub const STATICCALL: u8 = 0xfa;
    pub const REVERT: u8 = 0xfd;
    pub const INVALID: u8 = 0xfe;
    pub const SELFDESTRUCT: u8 = 0xff;
}

/// Memory map of every activation: [0x00,0x20) call-input scratch, [0x20,0x40) report end
/// pointer P, report bytes from 0x40.
const PTR: u8 = 0x20;
const REPORT0: u8 = 0x40;

#[derive(Default)]
struct Asm {
    code: Vec<u8>,
    /// (position of a 2-byte immediate, frame uid whose code offset goes there)
    fixups: Vec<(usize, usize)>,
}

impl Asm {
    fn o(&mut self, b: u8) -> &mut Self {
        self.code.push(b);
        self
    }
    fn push1(&mut self, v: u8) -> &mut Self {
        if v == 0 {
            self.code.push(op::PUSH0);
        } else {
            self.code.extend_from_slice(&[op::PUSH1, v]);
        }
        self
    }
    fn push2(&mut self, v: u16) -> &mut Self {
        self.code.push(op::PUSH1 + 1);
        self.code.extend_from_slice(&v.to_be_bytes());
        self
    }
    fn pushn(&mut self, bytes: &[u8]) -> &mut Self {
        assert!(!bytes.is_empty() && bytes.len() <= 32);
        self.code.push(op::PUSH1 + (bytes.len() as u8 - 1));
        self.code.extend_from_slice(bytes);
        self
    }
    /// stack: [v] -> []; report ++= low byte of v
    fn append1(&mut self) -> &mut Self {
        self.push1(PTR).o(op::MLOAD).o(op::SWAP1).o(op::DUP2).o(op::MSTORE8);
        self.push1(1).o(op::ADD).push1(PTR).o(op::MSTORE)
    }
    /// stack: [addr] -> []; report ++= 20 bytes of addr
    fn append20(&mut self) -> &mut Self {
        self.push1(96).o(op::SHL).push1(PTR).o(op::MLOAD).o(op::SWAP1).o(op::DUP2).o(op::MSTORE);
        self.push1(20).o(op::ADD).push1(PTR).o(op::MSTORE)
    }
    /// push (P - REPORT0), push REPORT0  => ready for RETURN / REVERT
    fn report_region(&mut self) -> &mut Self {
        self.push1(REPORT0).push1(PTR).o(op::MLOAD).o(op::SUB).push1(REPORT0)
    }
}

/// Run-time code of the CREATE2 child: returns one byte, its storage slot 0.
const CHILD_RUNTIME: [u8; 8] = [op::PUSH0, op::SLOAD, op::PUSH0, op::MSTORE8, op::PUSH1, 1, op::PUSH0, op::RETURN];

/// Init code of the CREATE2 child: slot0 := 1, return CHILD_RUNTIME.
fn child_init() -> Vec<u8> {
    let mut v = vec![op::PUSH1, 1, op::PUSH0, op::SSTORE];
    // PUSH1 len DUP1 PUSH1 off PUSH0 CODECOPY PUSH0 RETURN   (9 bytes)
    let off = (v.len() + 9) as u8;
    v.extend_from_slice(&[op::PUSH1, CHILD_RUNTIME.len() as u8, op::DUP1, op::PUSH1, off, op::PUSH0, op::CODECOPY, op::PUSH0, op::RETURN]);
    v.extend_from_slice(&CHILD_RUNTIME);
    v
}

/// Init code that returns `runtime`.
fn init_code(runtime: &[u8]) -> Vec<u8> {
    let mut a = Asm::default();
    a.push2(runtime.len() as u16).o(op::DUP1).push2(11).o(op::PUSH0).o(op::CODECOPY).o(op::PUSH0).o(op::RETURN);
    assert_eq!(a.code.len(), 11);
    a.code.extend_from_slice(runtime);
    a.code
}

pub struct Compiled {
    /// run-time code per contract
    pub codes: Vec<Vec<u8>>,
    /// per script, per message: code offset of the top frame
    pub entries: Vec<Vec<u16>>,
}

struct Compiler<'e> {
    env: &'e Env,
    asms: Vec<Asm>,
    /// uid -> code offset (in the code of the frame's contract)
    offsets: Vec<u16>,
}

impl<'e> Compiler<'e> {
    fn new(env: &'e Env, ncontracts: usize) -> Self {
        let mut asms = vec![];
        for _ in 0..ncontracts {
            let mut a = Asm::default();
            // dispatcher: jump to the offset given in the first two bytes of the call data
            a.o(op::PUSH0).o(op::CALLDATALOAD).push1(0xf0).o(op::SHR).o(op::JUMP);
            asms.push(a);
        }
        Compiler { env, asms, offsets: vec![] }
    }

    fn alloc(&mut self) -> usize {
        self.offsets.push(0);
        self.offsets.len() - 1
    }

    /// Emit `f` (and, after it, every frame it calls); returns its uid.
    fn frame(&mut self, f: &Frame) -> usize {
        let uid = self.alloc();
        self.emit(uid, f);
        uid
    }

    fn emit(&mut self, uid: usize, f: &Frame) {
        let mut pending: Vec<(usize, &Frame)> = vec![];
        let ben = self.env.ben.1;
        let me = f.c as usize;
        let off = self.asms[me].code.len();
        assert!(off < 0xffff);
        self.offsets[uid] = off as u16;
        // prologue
        {
            let a = &mut self.asms[me];
            a.o(op::JUMPDEST);
            a.push1(REPORT0).push1(PTR).o(op::MSTORE);
            a.o(op::ADDRESS).append20();
            a.o(op::CALLER).append20();
            a.o(op::CALLVALUE).append1();
        }
        for o in &f.ops {
            match o {
                Op::SStore(k, v) => {
                    self.asms[me].push1(*v).push1(*k).o(op::SSTORE);
                }
                Op::SLoad(k) => {
                    self.asms[me].push1(*k).o(op::SLOAD).append1();
                }
                Op::TStore(k, v) => {
                    self.asms[me].push1(*v).push1(*k).o(op::TSTORE);
                }
                Op::TLoad(k) => {
                    self.asms[me].push1(*k).o(op::TLOAD).append1();
                }
                Op::Log(t) => {
                    // LOG1(offset 0, size 0, topic t)
                    self.asms[me].push2(*t).o(op::PUSH0).o(op::PUSH0).o(op::LOG1);
                }
                Op::Create2 => {
                    let init = child_init();
                    let a = &mut self.asms[me];
                    a.pushn(&init).o(op::PUSH0).o(op::MSTORE);
                    // CREATE2(value 0, offset 32-len, size len, salt 0)
                    a.o(op::PUSH0).push1(init.len() as u8).push1(32 - init.len() as u8).o(op::PUSH0).o(op::CREATE2);
                    a.o(op::ISZERO).o(op::ISZERO).append1();
                }
                Op::Call(kind, g) => {
                    let callee = self.alloc();
                    pending.push((callee, g));
                    let target = self.env.addrs[g.c as usize];
                    let a = &mut self.asms[me];
                    // call data: 2-byte frame offset of the callee at mem[0..2)
                    a.o(op::PUSH1 + 1);
                    a.fixups.push((a.code.len(), callee));
                    a.code.extend_from_slice(&[0, 0]);
                    a.push1(0xf0).o(op::SHL).o(op::PUSH0).o(op::MSTORE);
                    // outSize outOff inSize inOff [value] addr gas
                    a.o(op::PUSH0).o(op::PUSH0).push1(2).o(op::PUSH0);
                    match kind {
                        Kind::Call => {
                            a.o(op::PUSH0);
                        }
                        Kind::CallValue => {
                            a.push1(1);
                        }
                        _ => {}
                    }
                    a.pushn(&target).o(op::GAS);
                    a.o(match kind {
                        Kind::Call | Kind::CallValue => op::CALL,
                        Kind::Static => op::STATICCALL,
                        Kind::Delegate => op::DELEGATECALL,
                    });
                    a.append1(); // success flag
                    a.o(op::RETURNDATASIZE).append1(); // length (mod 256)
                    // RETURNDATACOPY(dest P, offset 0, size RETURNDATASIZE); P += RETURNDATASIZE
                    a.o(op::RETURNDATASIZE).o(op::PUSH0).push1(PTR).o(op::MLOAD).o(op::RETURNDATACOPY);
                    a.o(op::RETURNDATASIZE).push1(PTR).o(op::MLOAD).o(op::ADD).push1(PTR).o(op::MSTORE);
                }
            }
        }
        {
            let a = &mut self.asms[me];
            match f.end {
                End::Return => {
                    a.report_region().o(op::RETURN);
                }
                End::Revert => {
                    a.report_region().o(op::REVERT);
                }
                End::Invalid => {
                    a.o(op::INVALID);
                }
                End::SelfDestruct => {
                    a.pushn(&ben).o(op::SELFDESTRUCT);
                }
            }
        }
        for (uid, g) in pending {
            self.emit(uid, g);
        }
    }

    fn max_code_len(&self) -> usize {
        self.asms.iter().map(|a| a.code.len()).max().unwrap_or(0)
    }

    fn finish(self) -> Vec<Vec<u8>> {
        let Compiler { asms, offsets, .. } = self;
        asms.into_iter()
            .map(|mut a| {
                for (pos, uid) in std::mem::take(&mut a.fixups) {
                    a.code[pos..pos + 2].copy_from_slice(&offsets[uid].to_be_bytes());
                }
                a.code
            })
            .collect()
    }
}

/// Compile as many of `scripts` (a prefix) as fit the code-size budget into one system.
fn compile_batch(env: &Env, scripts: &[Script], budget: usize) -> (Compiled, usize) {
    let n = scripts.iter().map(|s| s.contracts()).max().unwrap_or(1);
    let mut c = Compiler::new(env, n);
    let mut entries_uid: Vec<Vec<usize>> = vec![];
    let mut taken = 0;
    for s in scripts {
        if taken > 0 && c.max_code_len() > budget {
            break;
        }
        entries_uid.push(s.msgs.iter().map(|m| c.frame(m)).collect());
        taken += 1;
    }
    let offsets = c.offsets.clone();
    let entries = entries_uid.into_iter().map(|v| v.into_iter().map(|u| offsets[u]).collect()).collect();
    let codes = c.finish();
    for code in &codes {
        assert!(code.len() <= 24 << 10, "generated code too large");
    }
    (Compiled { codes, entries }, taken)
}

// =============================================================================================
// The reference model: an account journal
// =============================================================================================

#[derive(Clone, Debug, Default, PartialEq, Eq, Serialize)]
pub struct Account {
    pub storage: BTreeMap<u8, u8>,
    pub transient: BTreeMap<u8, u8>,
    pub balance: i128,
    /// In the self-destruct set of the running message.
    pub destructing: bool,
    /// Destroyed at the end of an earlier message: no code, no storage.
    pub dead: bool,
    /// Received funds after self-destructing within the same message: Ethereum burns them, FEVM
    /// keeps them; the property is silent, the balance is no longer judged.
    pub balance_unspecified: bool,
    /// The CREATE2 child of this contract exists.
    pub child: bool,
}

#[derive(Clone, Debug, Default, PartialEq, Eq, Serialize)]
pub struct Journal {
    pub acc: Vec<Account>,
    pub sender: [i128; 2],
    pub beneficiary: i128,
    /// (emitting contract, topic) of the running message
    pub logs: Vec<(u8, u16)>,
}

impl Journal {
    /// Canonical bytes of the first `nc` accounts + externals (for counting distinct states).
    fn bytes(&self, nc: usize) -> Vec<u8> {
        let mut v = vec![];
        for a in self.acc.iter().take(nc) {
            for (k, x) in &a.storage {
                v.extend_from_slice(&[1, *k, *x]);
            }
            for (k, x) in &a.transient {
                v.extend_from_slice(&[2, *k, *x]);
            }
            v.push(3);
            v.extend_from_slice(&a.balance.to_le_bytes());
            v.extend_from_slice(&[a.destructing as u8, a.dead as u8, a.balance_unspecified as u8, a.child as u8]);
        }
        v.extend_from_slice(&self.beneficiary.to_le_bytes());
        v
    }
}

#[derive(Clone, Copy, PartialEq, Eq)]
enum Who {
    Sender(usize),
    C(u8),
}

#[derive(Clone, Copy)]
struct Ctx {
    /// whose storage / balance / identity (ADDRESS)
    me: u8,
    caller: Who,
    value: u8,
    is_static: bool,
    depth: usize,
}

/// What the model execution of a script exercised (vacuity statistics).
#[derive(Clone, Debug, Default, Serialize)]
pub struct Cover {
    pub ops: BTreeMap<&'static str, u64>,
    pub frames_run: u64,
    pub frames_reverted: u64,
    pub frames_failed: u64,
    pub reentrant_frames: u64,
    pub selfdestructs: u64,
    pub calls_into_dead: u64,
    pub nonzero_reads: u64,
    pub static_violations: u64,
    pub insufficient_funds: u64,
    pub delegate_frames: u64,
    pub rolled_back_writes: u64,
}

impl Cover {
    fn hit(&mut self, k: &'static str) {
        *self.ops.entry(k).or_default() += 1;
    }
    fn merge(&mut self, o: &Cover) {
        for (k, v) in &o.ops {
            *self.ops.entry(k).or_default() += v;
        }
        self.frames_run += o.frames_run;
        self.frames_reverted += o.frames_reverted;
        self.frames_failed += o.frames_failed;
        self.reentrant_frames += o.reentrant_frames;
        self.selfdestructs += o.selfdestructs;
        self.calls_into_dead += o.calls_into_dead;
        self.nonzero_reads += o.nonzero_reads;
        self.static_violations += o.static_violations;
        self.insufficient_funds += o.insufficient_funds;
        self.delegate_frames += o.delegate_frames;
        self.rolled_back_writes += o.rolled_back_writes;
    }
}

pub struct Model<'e> {
    env: &'e Env,
    pub j: Journal,
    pub cov: Cover,
    /// contracts with an activation on the call stack (for the re-entrancy statistics)
    active: Vec<u8>,
}

pub const TOP_VALUE: u8 = 2;

impl<'e> Model<'e> {
    pub fn new(env: &'e Env, ncontracts: usize) -> Self {
        let mut j = Journal { sender: [env.sender_balance; 2], beneficiary: 0, ..Default::default() };
        for i in 0..ncontracts {
            j.acc.push(Account { balance: endowment(i), ..Default::default() });
            j.sender[0] -= endowment(i); // paid at deployment
        }
        Model { env, j, cov: Cover::default(), active: vec![] }
    }

    fn addr_of(&self, w: Who) -> [u8; 20] {
        match w {
            Who::Sender(i) => self.env.senders[i].1,
            Who::C(c) => self.env.addrs[c as usize],
        }
    }

    /// Body of a frame. Returns (success, return data). The caller restores its snapshot when
    /// success is false.
    fn run_frame(&mut self, f: &Frame, cx: Ctx) -> (bool, Vec<u8>) {
        self.cov.frames_run += 1;
        if self.active.contains(&cx.me) {
            self.cov.reentrant_frames += 1;
        }
        self.active.push(cx.me);
        let r = self.run_frame_inner(f, cx);
        self.active.pop();
        r
    }

    fn run_frame_inner(&mut self, f: &Frame, cx: Ctx) -> (bool, Vec<u8>) {
        let me = cx.me as usize;
        let mut rep = vec![];
        rep.extend_from_slice(&self.env.addrs[me]);
        rep.extend_from_slice(&self.addr_of(cx.caller));
        rep.push(cx.value);
        let fail = |m: &mut Self| {
            m.cov.frames_failed += 1;
            (false, vec![])
        };
        for o in &f.ops {
            match o {
                Op::SStore(k, v) => {
                    self.cov.hit("sstore");
                    if cx.is_static {
                        self.cov.static_violations += 1;
                        return fail(self);
                    }
                    if *v == 0 {
                        self.j.acc[me].storage.remove(k);
                    } else {
                        self.j.acc[me].storage.insert(*k, *v);
                    }
                }
                Op::SLoad(k) => {
                    self.cov.hit("sload");
                    let v = self.j.acc[me].storage.get(k).copied().unwrap_or(0);
                    if v != 0 {
                        self.cov.nonzero_reads += 1;
                    }
                    rep.push(v);
                }
                Op::TStore(k, v) => {
                    self.cov.hit("tstore");
                    if cx.is_static {
                        self.cov.static_violations += 1;
                        return fail(self);
                    }
                    if *v == 0 {
                        self.j.acc[me].transient.remove(k);
                    } else {
                        self.j.acc[me].transient.insert(*k, *v);
                    }
                }
                Op::TLoad(k) => {
                    self.cov.hit("tload");
                    let v = self.j.acc[me].transient.get(k).copied().unwrap_or(0);
                    if v != 0 {
                        self.cov.nonzero_reads += 1;
                    }
                    rep.push(v);
                }
                Op::Log(t) => {
                    self.cov.hit("log");
                    if cx.is_static {
                        self.cov.static_violations += 1;
                        return fail(self);
                    }
                    self.j.logs.push((cx.me, *t));
                }
                Op::Create2 => {
                    self.cov.hit("create2");
                    if cx.is_static {
                        self.cov.static_violations += 1;
                        return fail(self);
                    }
                    // same creator, salt and init code => same address: the second one collides
                    if self.j.acc[me].child {
                        rep.push(0);
                    } else {
                        self.j.acc[me].child = true;
                        rep.push(1);
                    }
                }
                Op::Call(kind, g) => {
                    self.cov.hit(match kind {
                        Kind::Call => "call",
                        Kind::CallValue => "call+value",
                        Kind::Static => "staticcall",
                        Kind::Delegate => "delegatecall",
                    });
                    if *kind == Kind::CallValue && cx.is_static {
                        // value transfer in a static context: the *calling* frame fails
                        self.cov.static_violations += 1;
                        return fail(self);
                    }
                    let (ok, data) = self.call(*kind, g, cx);
                    rep.push(ok as u8);
                    rep.push(data.len() as u8);
                    rep.extend_from_slice(&data);
                }
            }
        }
        match f.end {
            End::Return => (true, rep),
            End::Revert => {
                self.cov.hit("revert");
                self.cov.frames_reverted += 1;
                (false, rep)
            }
            End::Invalid => {
                self.cov.hit("invalid");
                fail(self)
            }
            End::SelfDestruct => {
                self.cov.hit("selfdestruct");
                if cx.is_static {
                    self.cov.static_violations += 1;
                    return fail(self);
                }
                self.cov.selfdestructs += 1;
                let b = std::mem::take(&mut self.j.acc[me].balance);
                self.j.beneficiary += b;
                self.j.acc[me].destructing = true;
                (true, vec![])
            }
        }
    }

    fn call(&mut self, kind: Kind, g: &Frame, cx: Ctx) -> (bool, Vec<u8>) {
        let snapshot = self.j.clone();
        let callee_cx = match kind {
            Kind::Delegate => Ctx { depth: cx.depth + 1, ..cx },
            _ => {
                let value = if kind == Kind::CallValue { 1 } else { 0 };
                if self.j.acc[cx.me as usize].balance < value as i128 {
                    self.cov.insufficient_funds += 1;
                    return (false, vec![]);
                }
                self.j.acc[cx.me as usize].balance -= value as i128;
                let to = &mut self.j.acc[g.c as usize];
                to.balance += value as i128;
                if value > 0 && to.destructing && g.c != cx.me {
                    to.balance_unspecified = true;
                }
                Ctx { me: g.c, caller: Who::C(cx.me), value, is_static: cx.is_static || kind == Kind::Static, depth: cx.depth + 1 }
            }
        };
        // an account without code: the call succeeds and returns nothing
        if self.j.acc[g.c as usize].dead {
            self.cov.calls_into_dead += 1;
            return (true, vec![]);
        }
        if kind == Kind::Delegate {
            self.cov.delegate_frames += 1;
        }
        let (ok, data) = self.run_frame(g, callee_cx);
        if !ok {
            if self.j != snapshot {
                self.cov.rolled_back_writes += 1;
            }
            self.j = snapshot;
        }
        (ok, data)
    }

    /// One top-level message. Returns (success, return data, effective logs).
    pub fn message(&mut self, f: &Frame, sender: usize) -> (bool, Vec<u8>, Vec<(u8, u16)>) {
        let snapshot = self.j.clone();
        self.j.sender[sender] -= TOP_VALUE as i128;
        self.j.acc[f.c as usize].balance += TOP_VALUE as i128;
        let (ok, data) = if self.j.acc[f.c as usize].dead {
            self.cov.calls_into_dead += 1;
            (true, vec![])
        } else {
            self.run_frame(f, Ctx { me: f.c, caller: Who::Sender(sender), value: TOP_VALUE, is_static: false, depth: 1 })
        };
        if !ok {
            self.j = snapshot;
        }
        // end of the top-level message
        let logs = std::mem::take(&mut self.j.logs);
        for a in &mut self.j.acc {
            a.transient.clear();
            if a.destructing {
                a.destructing = false;
                a.dead = true;
                a.storage.clear();
            }
        }
        (ok, data, logs)
    }
}

fn endowment(i: usize) -> i128 {
    16 << i
}

// =============================================================================================
// The implementation side: world, deployment, observation
// =============================================================================================

pub struct Env {
    pub addrs: Vec<[u8; 20]>,
    pub ids: Vec<ActorID>,
    pub senders: [(ActorID, [u8; 20]); 2],
    pub ben: (ActorID, [u8; 20]),
    pub sender_balance: i128,
    /// addresses of the CREATE2 children, per creator
    pub child_addrs: Vec<[u8; 20]>,
}

pub struct World {
    pub vm: Vm,
    pub env: Env,
    s0: Snapshot,
}

fn id_addr(a: ActorID) -> Address {
    Address::new_id(a)
}

fn masked_id(id: ActorID) -> [u8; 20] {
    let mut b = [0u8; 20];
    b[0] = 0xff;
    b[12..].copy_from_slice(&id.to_be_bytes());
    b
}

const MAX_CONTRACTS: usize = 4;

fn deploy(vm: &Vm, from: ActorID, runtime: &[u8], value: i128) -> Result<(ActorID, [u8; 20]), String> {
    let r = ext(
        vm,
        from,
        &EAM_ACTOR_ADDR,
        &atto(value),
        fil_actor_eam::Method::CreateExternal as u64,
        Some(&fil_actor_eam::CreateExternalParams(init_code(runtime))),
    );
    if !r.ok() {
        return Err(format!("deployment through EAM.CreateExternal failed:\n{}", r.tree()));
    }
    let ret: fil_actor_eam::CreateExternalReturn =
        r.ret.ok_or("no return from CreateExternal")?.deserialize().map_err(|e| e.to_string())?;
    Ok((ret.actor_id, ret.eth_address.0))
}

impl World {
    pub fn new() -> World {
        let vm = Vm::genesis(Store::new(), Policy::default());
        vm.bump_nonce.set(true);
        let sender = vm.new_account(1, &fil(1000));
        let sender2 = vm.new_account(3, &fil(1000));
        let ben = vm.new_account(2, &TokenAmount::zero());
        let s0 = vm.snapshot();
        // Addresses are a function of (deployer, deployer nonce): learn them once with dummies.
        let mut addrs = vec![];
        let mut ids = vec![];
        for i in 0..MAX_CONTRACTS {
            let (id, a) = deploy(&vm, sender.0, &[0x00], endowment(i)).unwrap_or_else(|e| {
                eprintln!("SETUP-FAILED C19 step=deploy-dummy: {e}");
                std::process::exit(2)
            });
            ids.push(id);
            addrs.push(a);
        }
        vm.restore(&s0);
        let keccak = |d: &[u8]| vm.prims.hash(SupportedHashes::Keccak256, d);
        let init_hash = keccak(&child_init());
        let child_addrs = addrs
            .iter()
            .map(|a| {
                let mut pre = vec![0xffu8];
                pre.extend_from_slice(a);
                pre.extend_from_slice(&[0u8; 32]);
                pre.extend_from_slice(&init_hash);
                let h = keccak(&pre);
                let mut out = [0u8; 20];
                out.copy_from_slice(&h[12..32]);
                out
            })
            .collect();
        let sender_balance = vm.balance(sender.0).atto().try_into().unwrap();
        vm.store.commit();
        let env = Env {
            addrs,
            ids,
            senders: [(sender.0, masked_id(sender.0)), (sender2.0, masked_id(sender2.0))],
            ben: (ben.0, masked_id(ben.0)),
            sender_balance,
            child_addrs,
        };
        World { vm, env, s0 }
    }

    /// Deploy the system (contracts 0..n in order) on the base state; returns the snapshot.
    fn install(&self, codes: &[Vec<u8>]) -> Result<Snapshot, String> {
        self.vm.restore(&self.s0);
        for (i, code) in codes.iter().enumerate() {
            let (id, a) = deploy(&self.vm, self.env.senders[0].0, code, endowment(i))?;
            if id != self.env.ids[i] || a != self.env.addrs[i] {
                return Err(format!("contract {i} deployed at an unexpected address/id"));
            }
            // keep the nonce of the second sender equal to that of the first
            let s2 = self.env.senders[1].0;
            let r = ext(&self.vm, s2, &id_addr(s2), &TokenAmount::zero(), fvm_shared::METHOD_SEND, NOP);
            if !r.ok() {
                return Err(format!("nonce alignment send failed: {}", r.tree()));
            }
        }
        let seq = |i: usize| self.vm.actor(self.env.senders[i].0).map(|a| a.sequence);
        if seq(0) != seq(1) {
            return Err(format!("sender nonces not aligned: {:?} vs {:?}", seq(0), seq(1)));
        }
        Ok(self.vm.snapshot())
    }
}

/// Everything observed of the implementation for one top-level message.
#[derive(Clone, Debug, PartialEq, Eq, Serialize)]
pub struct Observed {
    pub ok: bool,
    pub data: Vec<u8>,
    /// per contract: storage values of the probed keys
    pub storage: Vec<Vec<u8>>,
    /// per contract: GetBytecode is None / empty
    pub code_empty: Vec<bool>,
    /// per contract: GetBytecode (when present) equals the deployed run-time code (recorded, not
    /// judged: that the code still *works* is what the reports show)
    pub code_intact: Vec<bool>,
    pub balances: Vec<i128>,
    pub sender: [i128; 2],
    pub beneficiary: i128,
    pub logs: Vec<(ActorID, Option<u16>)>,
    /// per contract: CREATE2 child exists with the expected code and storage
    pub children: Vec<Option<bool>>,
}

fn bal(vm: &Vm, id: ActorID) -> i128 {
    vm.balance(id).atto().try_into().unwrap()
}

fn bytes_of(b: &Option<IpldBlock>) -> Vec<u8> {
    match b {
        None => vec![],
        Some(blk) => match blk.deserialize::<BytesDe>() {
            Ok(BytesDe(v)) => v,
            Err(_) => blk.data.clone(),
        },
    }
}

fn storage_at(vm: &Vm, id: ActorID, key: u8) -> Result<u8, String> {
    let r = vm.apply(
        MsgKind::Implicit,
        &SYSTEM_ACTOR_ADDR,
        &Address::new_id(id),
        &TokenAmount::zero(),
        fil_actor_evm::Method::GetStorageAt as u64,
        params(&fil_actor_evm::GetStorageAtParams { storage_key: fil_actors_evm_shared::uints::U256::from(key as u64) }),
    );
    if !r.ok() {
        return Err(format!("GetStorageAt failed: {}", r.tree()));
    }
    let ret: fil_actor_evm::GetStorageAtReturn =
        r.ret.ok_or("GetStorageAt returned nothing")?.deserialize().map_err(|e| e.to_string())?;
    let w = ret.storage.to_big_endian();
    if w[..31].iter().any(|b| *b != 0) {
        return Ok(0xff);
    }
    Ok(w[31])
}

/// (empty, intact)
fn bytecode_state(vm: &Vm, id: ActorID, expect: &[u8]) -> Result<(bool, bool), String> {
    let r = vm.apply(
        MsgKind::Implicit,
        &SYSTEM_ACTOR_ADDR,
        &Address::new_id(id),
        &TokenAmount::zero(),
        fil_actor_evm::Method::GetBytecode as u64,
        None,
    );
    if !r.ok() {
        return Err(format!("GetBytecode failed: {}", r.tree()));
    }
    let ret: fil_actor_evm::BytecodeReturn =
        r.ret.ok_or("GetBytecode returned nothing")?.deserialize().map_err(|e| e.to_string())?;
    match ret.code {
        None => Ok((true, false)),
        Some(cid) => {
            use fvm_ipld_blockstore::Blockstore;
            let code = vm.store.get(&cid).ok().flatten().unwrap_or_default();
            Ok((code.is_empty(), code == expect))
        }
    }
}

/// Observe the first `n` contracts (those the script names; the batch may have deployed more,
/// which no frame of this script can address).
fn observe(w: &World, sp_keys: &[u8], codes: &[Vec<u8>], n: usize, with_children: bool, inv: &Inv) -> Result<Observed, String> {
    let vm = &w.vm;
    let mut logs = vec![];
    for (emitter, ev) in inv.effective_events() {
        let topic = ev.entries.iter().find(|e| e.key == "t1").map(|e| {
            let v = &e.value;
            let l = v.len();
            let hi = if l >= 2 { v[l - 2] } else { 0 };
            let lo = if l >= 1 { v[l - 1] } else { 0 };
            u16::from_be_bytes([hi, lo])
        });
        logs.push((emitter, topic));
    }
    let mut o = Observed {
        ok: inv.ok(),
        data: bytes_of(&inv.ret),
        storage: vec![],
        code_empty: vec![],
        code_intact: vec![],
        balances: vec![],
        sender: [bal(vm, w.env.senders[0].0), bal(vm, w.env.senders[1].0)],
        beneficiary: bal(vm, w.env.ben.0),
        logs,
        children: vec![],
    };
    for i in 0..n {
        let id = w.env.ids[i];
        let mut vals = vec![];
        for &k in sp_keys {
            vals.push(storage_at(vm, id, k)?);
        }
        o.storage.push(vals);
        let (empty, intact) = bytecode_state(vm, id, &codes[i])?;
        o.code_empty.push(empty);
        o.code_intact.push(intact);
        o.balances.push(bal(vm, id));
        if with_children {
            let f4 = Address::new_delegated(EAM_ACTOR_ID, &w.env.child_addrs[i]).unwrap();
            o.children.push(match vm.resolve(&f4).filter(|id| vm.actor(*id).is_some()) {
                None => Some(false),
                Some(cid) => {
                    // exists = an actor with non-empty code sits at the CREATE2 address
                    let (empty, _) = bytecode_state(vm, cid, &CHILD_RUNTIME)?;
                    Some(!empty)
                }
            });
        }
    }
    Ok(o)
}

const PROBE_KEYS: [u8; 2] = [0, 1];

/// Compare one message's observation with the journal; `Err` = disagreement.
fn compare(env: &Env, m: &Model, ok: bool, data: &[u8], logs: &[(u8, u16)], o: &Observed, with_children: bool) -> Result<(), String> {
    if o.ok != ok {
        return Err(format!("top-level message {} but the journal says it {}", if o.ok { "succeeded" } else { "failed" }, if ok { "succeeds" } else { "fails" }));
    }
    if o.data != data {
        return Err(format!(
            "return data (the report of what every frame observed) differs:\n  implementation {}\n  journal        {}\n  first difference at byte {}",
            hex::encode(&o.data),
            hex::encode(data),
            o.data.iter().zip(data.iter()).position(|(a, b)| a != b).unwrap_or(o.data.len().min(data.len()))
        ));
    }
    for (i, a) in m.j.acc.iter().enumerate().take(o.storage.len()) {
        let name = (b'A' + i as u8) as char;
        for (ki, &k) in PROBE_KEYS.iter().enumerate() {
            let want = if a.dead { 0 } else { a.storage.get(&k).copied().unwrap_or(0) };
            if o.storage[i][ki] != want {
                return Err(format!("GetStorageAt({name}, {k}) = {} but the journal has {}", o.storage[i][ki], want));
            }
        }
        if a.dead && !o.code_empty[i] {
            return Err(format!("{name} self-destructed and the message has ended, but it still has code"));
        }
        if !a.dead && o.code_empty[i] {
            return Err(format!("{name} is alive in the journal but its bytecode is empty"));
        }
        if !a.balance_unspecified && o.balances[i] != a.balance {
            return Err(format!("balance of {name} is {} but the journal has {}", o.balances[i], a.balance));
        }
        if with_children && o.children[i] != Some(a.child) {
            return Err(format!("CREATE2 child of {name}: implementation {:?}, journal exists={}", o.children[i], a.child));
        }
    }
    if o.sender != m.j.sender {
        return Err(format!("sender balances are {:?} but the journal has {:?}", o.sender, m.j.sender));
    }
    if o.beneficiary != m.j.beneficiary {
        return Err(format!("beneficiary balance is {} but the journal has {}", o.beneficiary, m.j.beneficiary));
    }
    // The property promises which logs survive, not an order across activations (and the trace
    // groups events per invocation, not by time): compare as multisets. If the topic cannot be
    // located in the event (layout change), only the emitters are compared.
    let mut want_logs: Vec<(ActorID, u16)> = logs.iter().map(|(c, t)| (env.ids[*c as usize], *t)).collect();
    want_logs.sort();
    let logs_agree = if o.logs.iter().all(|(_, t)| t.is_some()) {
        let mut got: Vec<(ActorID, u16)> = o.logs.iter().map(|(e, t)| (*e, t.unwrap())).collect();
        got.sort();
        got == want_logs
    } else {
        let mut got: Vec<ActorID> = o.logs.iter().map(|(e, _)| *e).collect();
        got.sort();
        got == want_logs.iter().map(|(e, _)| *e).collect::<Vec<_>>()
    };
    if !logs_agree {
        return Err(format!("effective LOG events {:?} but the journal has {:?}", o.logs, want_logs));
    }
    Ok(())
}

thread_local! {
    /// [apply, model, observe, install, compile] nanoseconds (diagnostics under MC_TIMING only)
    static PROF: std::cell::Cell<[u64; 5]> = const { std::cell::Cell::new([0; 5]) };
}
fn prof(i: usize, t: Instant) {
    PROF.with(|p| {
        let mut v = p.get();
        v[i] += t.elapsed().as_nanos() as u64;
        p.set(v);
    });
}

/// Outcome of running one script against implementation and journal.
pub struct Outcome {
    pub violation: Option<String>,
    pub cover: Cover,
    pub final_state: mcx::Key,
    /// digest of everything observed (for the batched-vs-isolated determinism check)
    pub digest: mcx::Key,
    pub summary: Value,
    pub messages: u64,
}

/// Run script `s` (already compiled into the installed system) from snapshot `s1`.
fn run_script(w: &World, s1: &Snapshot, codes: &[Vec<u8>], s: &Script, entries: &[u16], want_summary: bool) -> Result<Outcome, String> {
    let vm = &w.vm;
    vm.restore(s1);
    let n = codes.len();
    let with_children = s.uses_create2();
    let nc = s.contracts();
    let mut model = Model::new(&w.env, n);
    let mut violation = None;
    let mut dig: Vec<u8> = vec![];
    let mut msgs_json = vec![];
    let mut messages = 0;
    for (mi, f) in s.msgs.iter().enumerate() {
        let calldata = entries[mi].to_be_bytes().to_vec();
        let t = Instant::now();
        let inv = vm.apply(
            MsgKind::External,
            &Address::new_id(w.env.senders[s.sender_of(mi)].0),
            &Address::new_id(w.env.ids[f.c as usize]),
            &atto(TOP_VALUE as i128),
            fil_actor_evm::Method::InvokeContract as u64,
            IpldBlock::serialize_cbor(&BytesSer(&calldata)).unwrap(),
        );
        prof(0, t);
        messages += 1;
        let t = Instant::now();
        let (ok, data, logs) = model.message(f, s.sender_of(mi));
        prof(1, t);
        let t = Instant::now();
        let o = observe(w, &PROBE_KEYS, codes, nc, with_children, &inv)?;
        prof(2, t);
        {
            // digest of what was observed (sender balance net of the endowments of the batch)
            let paid: i128 = (0..n).map(endowment).sum();
            dig.push(o.ok as u8);
            dig.extend_from_slice(&(o.data.len() as u32).to_le_bytes());
            dig.extend_from_slice(&o.data);
            for i in 0..nc {
                dig.extend_from_slice(&o.storage[i]);
                dig.push(o.code_empty[i] as u8);
                dig.push(o.code_intact[i] as u8);
                dig.extend_from_slice(&o.balances[i].to_le_bytes());
                if with_children {
                    dig.push(match o.children[i] {
                        None => 2,
                        Some(b) => b as u8,
                    });
                }
            }
            dig.extend_from_slice(&(o.sender[0] + paid).to_le_bytes());
            dig.extend_from_slice(&o.sender[1].to_le_bytes());
            dig.extend_from_slice(&o.beneficiary.to_le_bytes());
            for (e, t) in &o.logs {
                dig.extend_from_slice(&e.to_le_bytes());
                dig.extend_from_slice(&t.map(|t| t as u32).unwrap_or(u32::MAX).to_le_bytes());
            }
        }
        if want_summary {
            msgs_json.push(json!({
                "message": mi + 1, "success": o.ok, "report": hex::encode(&o.data),
                "storage_after": o.storage, "code_empty_after": o.code_empty, "balances_after": o.balances,
                "beneficiary_after": o.beneficiary.to_string(),
            }));
        }
        if let Err(e) = compare(&w.env, &model, ok, &data, &logs, &o, with_children) {
            violation = Some(format!("message {} of script [{}]: {}\ninvocation trace:\n{}", mi + 1, s.pretty(), e, inv.tree()));
            break;
        }
    }
    let final_state = mcx::hash_key(&[&model.j.bytes(nc)]);
    Ok(Outcome {
        violation,
        cover: model.cov,
        final_state,
        digest: mcx::hash_key(&[&dig]),
        summary: json!({"script": s.pretty(), "messages": msgs_json}),
        messages,
    })
}

/// Compile + install + run one script in isolation (replay, determinism sample).
fn run_isolated(w: &World, s: &Script) -> Result<Outcome, String> {
    let (c, taken) = compile_batch(&w.env, std::slice::from_ref(s), usize::MAX);
    assert_eq!(taken, 1);
    let s1 = w.install(&c.codes)?;
    let r = run_script(w, &s1, &c.codes, s, &c.entries[0], true);
    w.vm.store.discard();
    r
}


// =============================================================================================
// Driver
// =============================================================================================

#[derive(Default)]
struct WorkerOut {
    scripts: u64,
    messages: u64,
    batches: u64,
    cover: Cover,
    flags: BTreeMap<&'static str, u64>,
    finals: HashSet<mcx::Key>,
    per_size: BTreeMap<usize, u64>,
    /// (script index, index of the first script of its work unit, script, message)
    violations: Vec<(u64, u64, Script, String)>,
    samples: Vec<(u64, Script, mcx::Key)>,
    /// first script (smallest index) exhibiting a feature
    first_with: BTreeMap<&'static str, (u64, Script)>,
    machinery: Option<String>,
    max_code: usize,
}

/// Deterministic thinning for the batched-vs-isolated check: all of the first 32 scripts, then
/// 16-32 per octave of the script index.
fn sampled(i: u64) -> bool {
    if i < 32 {
        return true;
    }
    let p = (i / 32).next_power_of_two();
    i % p == 0
}

fn script_flags(c: &Cover) -> Vec<&'static str> {
    let mut v = vec![];
    if c.frames_reverted > 0 {
        v.push("has_reverted_frame");
    }
    if c.frames_failed > 0 {
        v.push("has_failed_frame");
    }
    if c.rolled_back_writes > 0 {
        v.push("has_rolled_back_effects");
    }
    if c.reentrant_frames > 0 {
        v.push("has_reentrancy");
    }
    if c.selfdestructs > 0 {
        v.push("has_selfdestruct");
    }
    if c.calls_into_dead > 0 {
        v.push("calls_into_destroyed_contract");
    }
    if c.delegate_frames > 0 {
        v.push("has_delegatecall_frame");
    }
    if c.static_violations > 0 {
        v.push("has_static_violation");
    }
    if c.insufficient_funds > 0 {
        v.push("has_insufficient_funds_call");
    }
    if c.nonzero_reads > 0 {
        v.push("reads_a_nonzero_value");
    }
    if c.ops.contains_key("create2") {
        v.push("has_create2");
    }
    if c.ops.contains_key("log") {
        v.push("has_log");
    }
    v
}

type Job = (u64, usize, Vec<Script>);

fn process_batch(w: &World, sp: &Space, first: u64, size_class: usize, scripts: &[Script], out: &mut WorkerOut) {
    let mut done = 0;
    while done < scripts.len() {
        let t = Instant::now();
        let (c, taken) = compile_batch(&w.env, &scripts[done..], sp.code_budget);
        prof(4, t);
        let t = Instant::now();
        out.max_code = out.max_code.max(c.codes.iter().map(|c| c.len()).max().unwrap_or(0));
        let s1 = match w.install(&c.codes) {
            Ok(s) => s,
            Err(e) => {
                out.machinery = Some(e);
                return;
            }
        };
        prof(3, t);
        out.batches += 1;
        for (bi, s) in scripts[done..done + taken].iter().enumerate() {
            let idx = first + (done + bi) as u64;
            match run_script(w, &s1, &c.codes, s, &c.entries[bi], false) {
                Err(e) => {
                    out.machinery = Some(format!("script [{}]: {e}", s.pretty()));
                    return;
                }
                Ok(o) => {
                    out.scripts += 1;
                    out.messages += o.messages;
                    *out.per_size.entry(size_class).or_default() += 1;
                    out.finals.insert(o.final_state);
                    out.cover.merge(&o.cover);
                    for fl in script_flags(&o.cover) {
                        *out.flags.entry(fl).or_default() += 1;
                        if out.first_with.get(fl).is_none_or(|e| idx < e.0) {
                            out.first_with.insert(fl, (idx, s.clone()));
                        }
                    }
                    if let Some(v) = o.violation {
                        out.violations.push((idx, first, s.clone(), v));
                    } else if sampled(idx) {
                        out.samples.push((idx, s.clone(), o.digest));
                    }
                }
            }
        }
        w.vm.store.discard();
        done += taken;
    }
}

fn threads() -> usize {
    std::env::var("MC_THREADS")
        .ok()
        .and_then(|s| s.parse().ok())
        .unwrap_or_else(|| std::thread::available_parallelism().map(|n| n.get()).unwrap_or(8))
        .max(1)
}

struct SpaceResult {
    tot: WorkerOut,
    produced: BTreeMap<usize, u64>,
    /// size classes whose enumeration ran to its end
    enumerated: Vec<usize>,
    capped: bool,
    completed: usize,
    exhaustive: bool,
    wall_s: f64,
}

/// Enumerate one space completely (or until `deadline_s` of the tier's clock) on all cores.
fn explore_space(sp: &Space, t0: Instant, deadline_s: f64, count_only: bool) -> SpaceResult {
    let t_start = Instant::now();
    let nthreads = threads();
    let stop = AtomicBool::new(false);
    let capped = AtomicBool::new(false);
    let produced: Mutex<BTreeMap<usize, u64>> = Mutex::new(BTreeMap::new());
    let enumerated: Mutex<Vec<usize>> = Mutex::new(vec![]);
    let (tx, rx) = std::sync::mpsc::sync_channel::<Job>(nthreads * 8);
    let rx = Mutex::new(rx);

    let outs: Vec<WorkerOut> = std::thread::scope(|sc| {
        // producer: the enumeration is sequential and cheap (< 1 µs per script)
        let (stop_r, produced_r, enumerated_r) = (&stop, &produced, &enumerated);
        sc.spawn(move || {
            let en = Enumerator { sp, simple: sp.simple_ops(), stop: stop_r };
            let mut buf: Vec<Script> = vec![];
            let mut first = 0u64;
            let mut next = 0u64;
            let mut cur_size = 0usize;
            let tx = tx;
            let flush = |buf: &mut Vec<Script>, first: &mut u64, next: u64, size: usize| {
                if !buf.is_empty() {
                    let n = buf.len() as u64;
                    if count_only || tx.send((*first, size, std::mem::take(buf))).is_ok() {
                        *produced_r.lock().unwrap().entry(size).or_default() += n;
                    }
                    buf.clear();
                }
                *first = next;
            };
            en.run(&mut |size, s| {
                if size != cur_size {
                    flush(&mut buf, &mut first, next, cur_size);
                    if cur_size > 0 && !stop_r.load(Ordering::Relaxed) {
                        enumerated_r.lock().unwrap().push(cur_size);
                    }
                    cur_size = size;
                }
                buf.push(s);
                next += 1;
                if buf.len() >= sp.batch {
                    flush(&mut buf, &mut first, next, cur_size);
                }
            });
            if !stop_r.load(Ordering::Relaxed) {
                flush(&mut buf, &mut first, next, cur_size);
                if cur_size > 0 {
                    enumerated_r.lock().unwrap().push(cur_size);
                }
            }
        });
        let mut hs = vec![];
        for _ in 0..nthreads {
            let (rx, stop, capped) = (&rx, &stop, &capped);
            hs.push(
                std::thread::Builder::new()
                    .stack_size(256 << 20)
                    .spawn_scoped(sc, move || {
                        let mut out = WorkerOut::default();
                        if count_only {
                            return out;
                        }
                        let w = World::new();
                        loop {
                            let job = rx.lock().unwrap().recv();
                            let Ok((first, size, scripts)) = job else { break };
                            if stop.load(Ordering::Relaxed) {
                                continue; // drain so that the producer can finish
                            }
                            if t0.elapsed().as_secs_f64() > deadline_s {
                                capped.store(true, Ordering::Relaxed);
                                stop.store(true, Ordering::Relaxed);
                                continue;
                            }
                            process_batch(&w, sp, first, size, &scripts, &mut out);
                            if !out.violations.is_empty() || out.machinery.is_some() {
                                stop.store(true, Ordering::Relaxed);
                            }
                        }
                        if std::env::var("MC_TIMING").is_ok() {
                            let p = PROF.with(|p| p.get());
                            eprintln!("  worker: scripts {} apply {:.2}s model {:.2}s observe {:.2}s install {:.2}s compile {:.2}s", out.scripts, p[0] as f64 / 1e9, p[1] as f64 / 1e9, p[2] as f64 / 1e9, p[3] as f64 / 1e9, p[4] as f64 / 1e9);
                        }
                        out
                    })
                    .unwrap(),
            );
        }
        hs.into_iter().map(|h| h.join().expect("worker panicked (machinery error)")).collect()
    });

    let mut tot = WorkerOut::default();
    for o in outs {
        if let Some(m) = o.machinery {
            eprintln!("MACHINERY ERROR C19: {m}");
            std::process::exit(2);
        }
        tot.scripts += o.scripts;
        tot.messages += o.messages;
        tot.batches += o.batches;
        tot.cover.merge(&o.cover);
        tot.max_code = tot.max_code.max(o.max_code);
        for (k, v) in o.flags {
            *tot.flags.entry(k).or_default() += v;
        }
        for (k, v) in o.per_size {
            *tot.per_size.entry(k).or_default() += v;
        }
        tot.finals.extend(o.finals);
        tot.violations.extend(o.violations);
        tot.samples.extend(o.samples);
        for (k, v) in o.first_with {
            if tot.first_with.get(k).is_none_or(|e| v.0 < e.0) {
                tot.first_with.insert(k, v);
            }
        }
    }
    tot.violations.sort_by_key(|v| v.0);
    tot.samples.sort_by_key(|v| v.0);
    let produced = produced.into_inner().unwrap();
    let enumerated = enumerated.into_inner().unwrap();
    let was_capped = capped.load(Ordering::Relaxed);
    let mut completed = 0;
    for size in 1..=sp.max_size {
        let p = produced.get(&size).copied().unwrap_or(0);
        if enumerated.contains(&size) && p == tot.per_size.get(&size).copied().unwrap_or(0) && tot.violations.is_empty() {
            completed = size;
        } else {
            break;
        }
    }
    let exhaustive = !count_only && !was_capped && tot.violations.is_empty() && completed == sp.max_size;
    SpaceResult { tot, produced, enumerated, capped: was_capped, completed, exhaustive, wall_s: t_start.elapsed().as_secs_f64() }
}

pub fn run(tier: &str) -> ! {
    let spaces = Space::for_tier(tier);
    let count_only = std::env::var("C19_COUNT_ONLY").is_ok();
    let t0 = Instant::now();
    let cap_s: f64 = std::env::var("C19_CAP_S").ok().and_then(|s| s.parse().ok()).unwrap_or(if tier_is_thorough(tier) { 1140.0 } else { 27.0 });
    let mut run = mcx::evidence::Run::new("C19", tier, "model_checking");
    run.assumptions = vec![
        "mcvm mirrors the FVM message semantics (value transfer before dispatch, rollback of state, balances and events on abort, read-only propagation to sub-calls)".into(),
        "no gas: the 63/64 rule and out-of-gas failures are outside the model".into(),
        "storage keys {0,1}; values from a 2-3 element set; transfers of 1 atto; one fixed beneficiary account; one fixed CREATE2 child per creator".into(),
        "several scripts share one deployed system (one bytecode per contract, frames selected by call data); a sample is re-run in isolation and must observe exactly the same".into(),
        "not judged: exit codes, gas, event layout beyond emitter and first topic, the balance of a contract that received funds after self-destructing in the same message".into(),
    ];
    let mut all_samples: Vec<Value> = vec![];
    let mut per_space: Vec<Value> = vec![];
    let mut total_scripts = 0u64;
    let mut total_msgs = 0u64;
    let mut all_finals: HashSet<mcx::Key> = HashSet::new();
    let mut all_exhaustive = true;
    let mut flags_total: BTreeMap<&'static str, u64> = BTreeMap::new();
    let mut cover_total = Cover::default();
    let mut isolated_total = 0u64;
    let mut found_violation = false;

    for sp in &spaces {
        let res = explore_space(sp, t0, cap_s, count_only);
        if count_only {
            eprintln!("[C19] space {}: scripts per size class {:?} total {} ({:.2}s)", sp.name, res.produced, res.produced.values().sum::<u64>(), res.wall_s);
            continue;
        }
        let tot = &res.tot;
        // determinism check: re-run a sample in isolation (own system, fresh VM): the observations
        // must be exactly those of the batched run
        let mut replayed = 0u64;
        let w = World::new();
        if tot.violations.is_empty() {
            for (idx, s, digest) in &tot.samples {
                match run_isolated(&w, s) {
                    Ok(o) if o.violation.is_none() && o.digest == *digest => replayed += 1,
                    Ok(o) => {
                        eprintln!(
                            "MACHINERY ERROR C19: script #{idx} [{}] behaves differently in isolation than in its batch ({})",
                            s.pretty(),
                            o.violation.unwrap_or_else(|| "observations differ".into())
                        );
                        std::process::exit(2);
                    }
                    Err(e) => {
                        eprintln!("MACHINERY ERROR C19: {e}");
                        std::process::exit(2);
                    }
                }
            }
        }
        // Replay-twice before reporting a violation. Reported: the violation with the smallest
        // script index and up to two more of the same work unit. (Work units are handed out in
        // index order and always run to their end, so this choice is independent of thread timing;
        // violations found in later units before the workers stopped are not.)
        let unit = tot.violations.first().map(|v| v.1);
        for (idx, _, s, msg) in tot.violations.iter().filter(|v| Some(v.1) == unit).take(3) {
            match run_isolated(&w, s) {
                Ok(o) if o.violation.is_some() => {
                    found_violation = true;
                    run.extra_violations.push(ViolationReport {
                        scenario: format!("c19/{}", sp.name),
                        base: "fresh-system".into(),
                        path: vec![PathStep { action: serde_json::to_value(s).unwrap(), faults: vec![] }],
                        message: msg.to_string(),
                    });
                }
                Ok(_) => {
                    eprintln!("MACHINERY ERROR C19: violation of script #{idx} [{}] does not reproduce in isolation: {msg}", s.pretty());
                    std::process::exit(2);
                }
                Err(e) => {
                    eprintln!("MACHINERY ERROR C19: {e}");
                    std::process::exit(2);
                }
            }
        }
        // samples: the first script exhibiting each feature, with what was observed
        for (why, (idx, s)) in &tot.first_with {
            if all_samples.iter().any(|x| x["why"] == *why) {
                continue;
            }
            if let Ok(o) = run_isolated(&w, s) {
                all_samples.push(json!({"space": sp.name, "why": why, "script_index": idx, "script_json": s, "trace": o.summary, "agrees_with_journal": o.violation.is_none()}));
            }
        }
        let mut caps = vec![];
        if res.capped {
            caps.push(format!(
                "wall cap {}s hit inside size class {} ({} of {} produced scripts of that class executed; its enumeration was cut short)",
                cap_s,
                res.completed + 1,
                tot.per_size.get(&(res.completed + 1)).copied().unwrap_or(0),
                res.produced.get(&(res.completed + 1)).copied().unwrap_or(0)
            ));
        }
        let mut outcomes: BTreeMap<String, BTreeMap<String, u64>> = BTreeMap::new();
        for (k, v) in &tot.cover.ops {
            outcomes.entry(k.to_string()).or_default().insert("executed_in_model".into(), *v);
        }
        let vac = json!({
            "scripts_with": tot.flags,
            "model_executions": {
                "frames_run": tot.cover.frames_run, "frames_reverted": tot.cover.frames_reverted,
                "frames_failed": tot.cover.frames_failed, "reentrant_frames": tot.cover.reentrant_frames,
                "selfdestructs": tot.cover.selfdestructs, "calls_into_destroyed": tot.cover.calls_into_dead,
                "nonzero_reads": tot.cover.nonzero_reads, "static_violations": tot.cover.static_violations,
                "insufficient_funds": tot.cover.insufficient_funds, "delegate_frames": tot.cover.delegate_frames,
                "frames_whose_effects_were_rolled_back": tot.cover.rolled_back_writes,
            },
        });
        let report = mcx::Report {
            scenario: format!("c19/{}", sp.name),
            states: tot.finals.len() as u64,
            transitions: tot.messages,
            agreed: tot.scripts,
            replayed,
            depth_completed: res.completed,
            max_depth: sp.max_size,
            max_faults: 0,
            fault_transitions: 0,
            exhaustive: res.exhaustive,
            caps_hit: caps,
            level_sizes: (1..=sp.max_size).map(|s| tot.per_size.get(&s).copied().unwrap_or(0)).collect(),
            outcomes,
            known: Default::default(),
            violations: vec![],
            samples: vec![],
            wall_s: res.wall_s,
            bases: vec!["fresh-system".into()],
            describe: json!({
                "policy": "MAINNET",
                "space": sp,
                "note": "depth_completed / max_depth / level_sizes are in units of *total ops per script* (size classes, smallest first); states = distinct final journal states; transitions = top-level messages",
                "top_level_value_atto": TOP_VALUE, "endowments_atto": (0..sp.max_contracts).map(endowment).collect::<Vec<_>>(),
                "scripts_produced_per_size_class": res.produced,
                "size_classes_enumerated_to_the_end": res.enumerated,
                "systems_deployed": tot.batches, "largest_generated_bytecode": tot.max_code,
                "vacuity": vac,
            }),
            store_bytes: 0,
        };
        eprintln!(
            "[C19] {}: scripts={} messages={} final-states={} systems={} completed-size={}/{} exhaustive={} wall={:.1}s max-code={}B",
            sp.name, tot.scripts, tot.messages, tot.finals.len(), tot.batches, res.completed, sp.max_size, res.exhaustive, res.wall_s, tot.max_code
        );
        per_space.push(json!({"space": sp.name, "scripts": tot.scripts, "messages": tot.messages, "distinct_final_states": tot.finals.len(),
            "scripts_per_size_class": tot.per_size, "size_classes_completed": res.completed, "exhaustive": res.exhaustive, "wall_s": res.wall_s}));
        total_scripts += tot.scripts;
        total_msgs += tot.messages;
        all_finals.extend(tot.finals.iter().cloned());
        all_exhaustive &= res.exhaustive;
        for (k, v) in &tot.flags {
            *flags_total.entry(k).or_default() += v;
        }
        cover_total.merge(&tot.cover);
        isolated_total += replayed;
        run.add(report);
        if found_violation {
            break;
        }
    }
    if count_only {
        std::process::exit(0);
    }
    let ce = &mut run.coverage_extra;
    ce.insert("scripts_compared".into(), json!(total_scripts));
    ce.insert("top_level_messages".into(), json!(total_msgs));
    // `states`: distinct final journal states over all spaces (the per-space counts overlap)
    if !all_finals.is_empty() {
        ce.insert("states".into(), json!(all_finals.len()));
    }
    ce.insert("distinct_final_journal_states_over_all_spaces".into(), json!(all_finals.len()));
    ce.insert("spaces".into(), json!(per_space));
    ce.insert("isolated_reruns_identical".into(), json!(isolated_total));
    ce.insert("threads".into(), json!(threads()));
    ce.insert("exhaustive".into(), json!(all_exhaustive && !found_violation));
    ce.insert("vacuity".into(), json!({"scripts_with": flags_total, "ops_executed_in_model": cover_total.ops}));
    ce.insert("samples".into(), Value::Array(all_samples));
    run.finish()
}

/// Replay a violation file written by this check; `v` is the parsed replay JSON.
pub fn replay(v: &Value) -> ! {
    let Some(action) = v["path"].get(0).map(|p| p["action"].clone()) else {
        eprintln!("replay machinery error: no path[0].action in the replay file");
        std::process::exit(2)
    };
    let mut s: Script = match serde_json::from_value(action) {
        Ok(s) => s,
        Err(e) => {
            eprintln!("replay machinery error: script does not decode: {e}");
            std::process::exit(2)
        }
    };
    s.number_logs();
    if s.msgs.is_empty() || s.contracts() > MAX_CONTRACTS {
        eprintln!("replay machinery error: script outside the supported shape");
        std::process::exit(2);
    }
    let w = World::new();
    match run_isolated(&w, &s) {
        Ok(o) => match o.violation {
            Some(msg) => {
                println!("REPRODUCED property={} {}", v["property"].as_str().unwrap_or("C19"), msg);
                std::process::exit(1)
            }
            None => {
                println!("NOT-REPRODUCED: the recorded script [{}] agrees with the journal on this tree", s.pretty());
                std::process::exit(0)
            }
        },
        Err(e) => {
            eprintln!("replay machinery error: {e}");
            std::process::exit(2)
        }
    }
}
