//! refevm — an independent, deliberately plain reference interpreter of EVM semantics.
//!
//! Written from the Ethereum Yellow Paper (sections 9 and appendix H) and the EIPs that added
//! instructions later (EIP-145 shifts, EIP-211 return data, EIP-1153 transient storage,
//! EIP-3855 PUSH0, EIP-5656 MCOPY, EIP-7939 CLZ). It is *not* derived from /repo/actors/evm:
//! words are unbounded `BigUint`s reduced modulo 2^256 after every operation, signed
//! operations go through `BigInt`, memory is a byte vector, storage is a `BTreeMap`.
//!
//! Scope: exactly the instruction groups property C17 names. Every other opcode yields
//! `Verdict::Undefined` ("outside the model"); the caller excludes such programs and counts
//! them. Gas does not exist here (FEVM has its own gas model); the only resource rules are
//!   * a step limit (`Limits::max_steps`) -> `Undefined(StepLimit)`,
//!   * memory: an access ending beyond 2^32 bytes is a failure (FEVM's documented 32-bit memory
//!     limit, Ethereum: always out of gas); an access ending between `Limits::mem_cap` and 2^32
//!     is `Undefined(MemoryGreyZone)` (Ethereum: depends on gas; FEVM: allocates).
use fvm_shared::bigint::{BigInt, BigUint, Sign};
use num_traits::{One, ToPrimitive, Zero};
use std::collections::BTreeMap;

pub type Word = BigUint;

/// Kinds of exceptional halt (Yellow Paper 9.4.2 "Exceptional Halting"), folded to what is
/// observable without gas.
#[derive(Clone, Copy, Debug, PartialEq, Eq, PartialOrd, Ord, Hash)]
pub enum Fail {
    StackUnderflow,
    StackOverflow,
    BadJump,
    /// INVALID (0xfe) or an opcode that is not defined.
    InvalidInstruction,
    /// Memory access beyond the limit, or RETURNDATACOPY beyond the return-data buffer (EIP-211).
    MemAccess,
    /// State modification in a static context (EIP-214). Never produced by the single-frame
    /// reference interpreter; used by the classification of real outcomes.
    StaticViolation,
    /// The harness' step budget (hook H1) ran out: the "out of gas" of this test bench.
    StepBudget,
    /// Any other failure exit code (value kept for diagnostics only).
    Other(u32),
}

#[derive(Clone, Debug, PartialEq, Eq, PartialOrd, Ord, Hash)]
pub enum Outcome {
    Return(Vec<u8>),
    Revert(Vec<u8>),
    Failure(Fail),
}

impl Outcome {
    pub fn class(&self) -> &'static str {
        match self {
            Outcome::Return(_) => "return",
            Outcome::Revert(_) => "revert",
            Outcome::Failure(_) => "failure",
        }
    }
    pub fn brief(&self) -> String {
        let h = |d: &Vec<u8>| {
            if d.len() <= 96 { hex::encode(d) } else { format!("{}..({} bytes)", hex::encode(&d[..96]), d.len()) }
        };
        match self {
            Outcome::Return(d) => format!("return[{}]", h(d)),
            Outcome::Revert(d) => format!("revert[{}]", h(d)),
            Outcome::Failure(f) => format!("failure[{f:?}]"),
        }
    }
}

#[derive(Clone, Copy, Debug, PartialEq, Eq, PartialOrd, Ord)]
pub enum Undefined {
    StepLimit,
    MemoryGreyZone,
    /// Opcode outside the instruction groups of C17 (context, calls, logs, create, ...).
    OutsideModel(u8),
}

#[derive(Clone, Debug, PartialEq, Eq)]
pub enum Verdict {
    Defined(Outcome),
    Undefined(Undefined),
}

#[derive(Clone, Copy, Debug)]
pub struct Limits {
    pub max_steps: u64,
    pub mem_cap: u64,
}

impl Default for Limits {
    fn default() -> Self {
        Limits { max_steps: 10_000, mem_cap: 1 << 22 }
    }
}

// ------------------------------------------------------------------------------ words

pub fn two_pow(n: u32) -> BigUint {
    BigUint::one() << (n as usize)
}
pub fn modulus() -> BigUint {
    two_pow(256)
}
pub fn max_word() -> BigUint {
    two_pow(256) - BigUint::one()
}
fn wrap(x: BigUint) -> BigUint {
    x % modulus()
}
pub fn w(n: u64) -> Word {
    BigUint::from(n)
}
pub fn word_from_be(b: &[u8]) -> Word {
    BigUint::from_bytes_be(b)
}
/// 32-byte big-endian image of a word.
pub fn word_to_be(x: &Word) -> [u8; 32] {
    let b = x.to_bytes_be();
    assert!(b.len() <= 32, "word out of range");
    let mut out = [0u8; 32];
    out[32 - b.len()..].copy_from_slice(&b);
    out
}
fn is_neg(x: &Word) -> bool {
    *x >= two_pow(255)
}
/// Two's-complement reading of a word.
fn signed(x: &Word) -> BigInt {
    if is_neg(x) {
        BigInt::from_biguint(Sign::Plus, x.clone()) - BigInt::from_biguint(Sign::Plus, modulus())
    } else {
        BigInt::from_biguint(Sign::Plus, x.clone())
    }
}
/// The word congruent to `x` modulo 2^256.
fn unsigned(x: BigInt) -> Word {
    let m = BigInt::from_biguint(Sign::Plus, modulus());
    let mut r = x % &m;
    if r.sign() == Sign::Minus {
        r += &m;
    }
    r.to_biguint().unwrap()
}
fn abs(x: &BigInt) -> BigUint {
    x.magnitude().clone()
}
fn flag(b: bool) -> Word {
    if b { BigUint::one() } else { BigUint::zero() }
}

// pure instruction semantics ------------------------------------------------------------

pub fn op_add(a: &Word, b: &Word) -> Word {
    wrap(a + b)
}
pub fn op_mul(a: &Word, b: &Word) -> Word {
    wrap(a * b)
}
pub fn op_sub(a: &Word, b: &Word) -> Word {
    wrap(a + modulus() - b)
}
pub fn op_div(a: &Word, b: &Word) -> Word {
    if b.is_zero() { BigUint::zero() } else { a / b }
}
pub fn op_sdiv(a: &Word, b: &Word) -> Word {
    if b.is_zero() {
        return BigUint::zero();
    }
    let (sa, sb) = (signed(a), signed(b));
    // truncation toward zero: sign * (|a| / |b|); -2^255 / -1 wraps to -2^255 through `unsigned`
    let q = abs(&sa) / abs(&sb);
    let neg = (sa.sign() == Sign::Minus) != (sb.sign() == Sign::Minus);
    let q = BigInt::from_biguint(if neg { Sign::Minus } else { Sign::Plus }, q);
    unsigned(q)
}
pub fn op_mod(a: &Word, b: &Word) -> Word {
    if b.is_zero() { BigUint::zero() } else { a % b }
}
pub fn op_smod(a: &Word, b: &Word) -> Word {
    if b.is_zero() {
        return BigUint::zero();
    }
    let (sa, sb) = (signed(a), signed(b));
    // sgn(a) * (|a| mod |b|)
    let r = abs(&sa) % abs(&sb);
    let r = BigInt::from_biguint(if sa.sign() == Sign::Minus { Sign::Minus } else { Sign::Plus }, r);
    unsigned(r)
}
pub fn op_addmod(a: &Word, b: &Word, n: &Word) -> Word {
    if n.is_zero() { BigUint::zero() } else { (a + b) % n }
}
pub fn op_mulmod(a: &Word, b: &Word, n: &Word) -> Word {
    if n.is_zero() { BigUint::zero() } else { (a * b) % n }
}
pub fn op_exp(a: &Word, e: &Word) -> Word {
    // square and multiply over the bits of the exponent, everything modulo 2^256
    let mut result = BigUint::one();
    let mut base = a.clone();
    let nbits = e.bits();
    for i in 0..nbits {
        if e.bit(i) {
            result = wrap(&result * &base);
        }
        base = wrap(&base * &base);
    }
    result
}
pub fn op_signextend(b: &Word, x: &Word) -> Word {
    // b = index of the byte (0 = least significant) holding the sign bit
    match b.to_u64() {
        Some(k) if k < 31 => {
            let t = (8 * k + 7) as u32; // sign bit position
            let low_mask = two_pow(t + 1) - BigUint::one();
            if x.bit(t as u64) {
                (x & &low_mask) | (max_word() - low_mask)
            } else {
                x & &low_mask
            }
        }
        _ => x.clone(),
    }
}
pub fn op_lt(a: &Word, b: &Word) -> Word {
    flag(a < b)
}
pub fn op_gt(a: &Word, b: &Word) -> Word {
    flag(a > b)
}
pub fn op_slt(a: &Word, b: &Word) -> Word {
    flag(signed(a) < signed(b))
}
pub fn op_sgt(a: &Word, b: &Word) -> Word {
    flag(signed(a) > signed(b))
}
pub fn op_eq(a: &Word, b: &Word) -> Word {
    flag(a == b)
}
pub fn op_iszero(a: &Word) -> Word {
    flag(a.is_zero())
}
pub fn op_and(a: &Word, b: &Word) -> Word {
    a & b
}
pub fn op_or(a: &Word, b: &Word) -> Word {
    a | b
}
pub fn op_xor(a: &Word, b: &Word) -> Word {
    a ^ b
}
pub fn op_not(a: &Word) -> Word {
    max_word() - a
}
pub fn op_byte(i: &Word, x: &Word) -> Word {
    // byte 0 is the most significant one
    match i.to_u64() {
        Some(k) if k < 32 => (x >> ((8 * (31 - k)) as usize)) & BigUint::from(0xffu32),
        _ => BigUint::zero(),
    }
}
pub fn op_shl(shift: &Word, value: &Word) -> Word {
    match shift.to_u64() {
        Some(s) if s < 256 => wrap(value << (s as usize)),
        _ => BigUint::zero(),
    }
}
pub fn op_shr(shift: &Word, value: &Word) -> Word {
    match shift.to_u64() {
        Some(s) if s < 256 => value >> (s as usize),
        _ => BigUint::zero(),
    }
}
pub fn op_sar(shift: &Word, value: &Word) -> Word {
    // floor(signed(value) / 2^shift). For a negative value this is NOT(NOT(value) >> shift).
    let neg = is_neg(value);
    match shift.to_u64() {
        Some(s) if s < 256 => {
            if neg {
                op_not(&(op_not(value) >> (s as usize)))
            } else {
                value >> (s as usize)
            }
        }
        _ => {
            if neg {
                max_word()
            } else {
                BigUint::zero()
            }
        }
    }
}
pub fn op_clz(x: &Word) -> Word {
    w(256 - x.bits())
}

// ------------------------------------------------------------------------------ keccak

const fn keccak_round_constants() -> [u64; 24] {
    // rc[t] from the degree-8 LFSR x^8 + x^6 + x^5 + x^4 + 1 (FIPS 202, algorithm 5)
    let mut rcs = [0u64; 24];
    let mut lfsr: u8 = 1;
    let mut round = 0;
    while round < 24 {
        let mut rc = 0u64;
        let mut j = 0;
        while j < 7 {
            let bit = lfsr & 1;
            // advance
            let hi = lfsr & 0x80;
            lfsr <<= 1;
            if hi != 0 {
                lfsr ^= 0x71;
            }
            if bit != 0 {
                rc |= 1u64 << ((1u32 << j) - 1);
            }
            j += 1;
        }
        rcs[round] = rc;
        round += 1;
    }
    rcs
}

fn keccak_f(a: &mut [u64; 25]) {
    // a[x + 5*y]
    let rc = keccak_round_constants();
    for round in 0..24 {
        // theta
        let mut c = [0u64; 5];
        for x in 0..5 {
            c[x] = a[x] ^ a[x + 5] ^ a[x + 10] ^ a[x + 15] ^ a[x + 20];
        }
        for x in 0..5 {
            let d = c[(x + 4) % 5] ^ c[(x + 1) % 5].rotate_left(1);
            for y in 0..5 {
                a[x + 5 * y] ^= d;
            }
        }
        // rho and pi
        let mut b = [0u64; 25];
        b[0] = a[0];
        let (mut x, mut y) = (1usize, 0usize);
        for t in 0..24u32 {
            let r = ((t + 1) * (t + 2) / 2) % 64;
            // pi: lane (x,y) moves to (y, 2x+3y)
            let (nx, ny) = (y, (2 * x + 3 * y) % 5);
            b[nx + 5 * ny] = a[x + 5 * y].rotate_left(r);
            x = nx;
            y = ny;
        }
        // chi
        for y in 0..5 {
            for x in 0..5 {
                a[x + 5 * y] = b[x + 5 * y] ^ (!b[(x + 1) % 5 + 5 * y] & b[(x + 2) % 5 + 5 * y]);
            }
        }
        // iota
        a[0] ^= rc[round];
    }
}

/// Keccak-256 as used by Ethereum (rate 136 bytes, padding 0x01 .. 0x80).
pub fn keccak256(data: &[u8]) -> [u8; 32] {
    const RATE: usize = 136;
    let mut st = [0u64; 25];
    let mut padded = data.to_vec();
    padded.push(0x01);
    while padded.len() % RATE != 0 {
        padded.push(0x00);
    }
    let last = padded.len() - 1;
    padded[last] |= 0x80;
    for block in padded.chunks(RATE) {
        for (i, lane) in block.chunks(8).enumerate() {
            st[i] ^= u64::from_le_bytes(lane.try_into().unwrap());
        }
        keccak_f(&mut st);
    }
    let mut out = [0u8; 32];
    for i in 0..4 {
        out[8 * i..8 * i + 8].copy_from_slice(&st[i].to_le_bytes());
    }
    out
}

/// Known-answer self test of the pieces of the reference model that are easy to get subtly
/// wrong. A failure is a machinery error (the caller exits 2).
pub fn self_test() -> Result<(), String> {
    let kat = [
        ("", "c5d2460186f7233c927e7db2dcc703c0e500b653ca82273b7bfad8045d85a470"),
        ("abc", "4e03657aea45a94fc7d47ba826c8d667c0d1e6e33a64a036ec44f58fa12d6c45"),
        (
            "The quick brown fox jumps over the lazy dog",
            "4d741b6f1eb29cb2a9b9911c82f56fa8d73b04959d3d9d222895df6c0b28aa15",
        ),
    ];
    for (m, d) in kat {
        if hex::encode(keccak256(m.as_bytes())) != d {
            return Err(format!("keccak256({m:?}) known answer mismatch"));
        }
    }
    // (multi-block inputs are cross-checked against the sha3 implementation the VM uses in
    // `evmkit::self_test`)
    let m1 = max_word();
    let min = two_pow(255);
    let checks: Vec<(&str, Word, Word)> = vec![
        ("sdiv(min,-1)", op_sdiv(&min, &m1), min.clone()),
        ("sdiv(-1,2)", op_sdiv(&m1, &w(2)), w(0)),
        ("smod(-3,2)", op_smod(&(max_word() - w(2)), &w(2)), m1.clone()),
        ("smod(3,-2)", op_smod(&w(3), &(max_word() - w(1))), w(1)),
        ("sar(256,-1)", op_sar(&w(256), &m1), m1.clone()),
        ("sar(1,-2)", op_sar(&w(1), &(max_word() - w(1))), m1.clone()),
        ("sar(255,min)", op_sar(&w(255), &min), m1.clone()),
        ("sar(4,0x80)", op_sar(&w(4), &w(0x80)), w(8)),
        ("signextend(0,0x80)", op_signextend(&w(0), &w(0x80)), max_word() - w(0x7f)),
        ("signextend(0,0x17f)", op_signextend(&w(0), &w(0x17f)), w(0x7f)),
        ("signextend(31,x)", op_signextend(&w(31), &min), min.clone()),
        ("signextend(30,2^247)", op_signextend(&w(30), &two_pow(247)), max_word() - (two_pow(247) - w(1))),
        ("byte(31,0x1234)", op_byte(&w(31), &w(0x1234)), w(0x34)),
        ("byte(0,2^255)", op_byte(&w(0), &min), w(0x80)),
        ("exp(3,5)", op_exp(&w(3), &w(5)), w(243)),
        ("exp(2,256)", op_exp(&w(2), &w(256)), w(0)),
        ("exp(0,0)", op_exp(&w(0), &w(0)), w(1)),
        ("addmod(max,max,max-1)", op_addmod(&m1, &m1, &(max_word() - w(1))), w(2)),
        ("mulmod(max,max,12)", op_mulmod(&m1, &m1, &w(12)), (&m1 * &m1) % w(12)),
        ("clz(0)", op_clz(&w(0)), w(256)),
        ("clz(1)", op_clz(&w(1)), w(255)),
        ("slt(-1,0)", op_slt(&m1, &w(0)), w(1)),
        ("sgt(min,max_pos)", op_sgt(&min, &(two_pow(255) - w(1))), w(0)),
        ("shl(255,1)", op_shl(&w(255), &w(1)), min.clone()),
        ("shl(256,1)", op_shl(&w(256), &w(1)), w(0)),
        ("sub(0,1)", op_sub(&w(0), &w(1)), m1.clone()),
    ];
    for (name, got, want) in checks {
        if got != want {
            return Err(format!("refevm self-test {name}: got {got:x} want {want:x}"));
        }
    }
    Ok(())
}

// ------------------------------------------------------------------------------ code analysis

/// Valid jump destinations: positions holding 0x5b that are reached by the linear sweep which
/// skips the immediate data of PUSH1..PUSH32 (Yellow Paper 9.4.3).
pub fn jumpdests(code: &[u8]) -> Vec<bool> {
    let mut valid = vec![false; code.len()];
    let mut i = 0usize;
    while i < code.len() {
        let op = code[i];
        if op == 0x5b {
            valid[i] = true;
        }
        if (0x60..=0x7f).contains(&op) {
            i += (op - 0x5f) as usize;
        }
        i += 1;
    }
    valid
}

/// (items removed, items added) of every opcode this model knows or that the Yellow Paper /
/// later EIPs define (Cancun + EIP-7939). `None` = undefined opcode.
pub fn stack_io(op: u8) -> Option<(usize, usize)> {
    Some(match op {
        0x00 => (0, 0),
        0x01..=0x07 => (2, 1),
        0x08 | 0x09 => (3, 1),
        0x0a | 0x0b => (2, 1),
        0x10..=0x14 => (2, 1),
        0x15 => (1, 1),
        0x16..=0x18 => (2, 1),
        0x19 => (1, 1),
        0x1a..=0x1d => (2, 1),
        0x1e => (1, 1),
        0x20 => (2, 1),
        0x30 => (0, 1),
        0x31 => (1, 1),
        0x32..=0x34 => (0, 1),
        0x35 => (1, 1),
        0x36 => (0, 1),
        0x37 => (3, 0),
        0x38 => (0, 1),
        0x39 => (3, 0),
        0x3a => (0, 1),
        0x3b => (1, 1),
        0x3c => (4, 0),
        0x3d => (0, 1),
        0x3e => (3, 0),
        0x3f => (1, 1),
        0x40 => (1, 1),
        0x41..=0x48 => (0, 1),
        0x49 => (1, 1), // BLOBHASH (EIP-4844; not modelled)
        0x4a => (0, 1), // BLOBBASEFEE (EIP-7516; not modelled)
        0x50 => (1, 0),
        0x51 => (1, 1),
        0x52 | 0x53 => (2, 0),
        0x54 => (1, 1),
        0x55 => (2, 0),
        0x56 => (1, 0),
        0x57 => (2, 0),
        0x58..=0x5a => (0, 1),
        0x5b => (0, 0),
        0x5c => (1, 1),
        0x5d => (2, 0),
        0x5e => (3, 0),
        0x5f..=0x7f => (0, 1),
        0x80..=0x8f => ((op - 0x7f) as usize, (op - 0x7f) as usize + 1),
        0x90..=0x9f => ((op - 0x8e) as usize, (op - 0x8e) as usize),
        0xa0..=0xa4 => ((op - 0xa0) as usize + 2, 0),
        0xf0 => (3, 1),
        0xf1 | 0xf2 => (7, 1), // CALL, CALLCODE
        0xf3 => (2, 0),
        0xf4 => (6, 1),
        0xf5 => (4, 1),
        0xfa => (6, 1),
        0xfd => (2, 0),
        0xfe => (0, 0),
        0xff => (1, 0),
        _ => return None,
    })
}

// ------------------------------------------------------------------------------ the machine

/// Persistent account state of the single contract under test.
#[derive(Clone, Debug, Default, PartialEq, Eq)]
pub struct Account {
    pub storage: BTreeMap<Word, Word>,
}

impl Account {
    pub fn slot(&self, k: &Word) -> Word {
        self.storage.get(k).cloned().unwrap_or_default()
    }
}

pub struct Run {
    pub verdict: Verdict,
    /// instructions that completed without halting
    pub steps: u64,
    pub max_stack: usize,
    pub mem_size: usize,
}

struct Machine<'a> {
    code: &'a [u8],
    calldata: &'a [u8],
    returndata: Vec<u8>,
    dests: Vec<bool>,
    stack: Vec<Word>,
    mem: Vec<u8>,
    storage: BTreeMap<Word, Word>,
    transient: BTreeMap<Word, Word>,
    pc: usize,
    lim: Limits,
    max_stack: usize,
}

enum Stop {
    Halt(Outcome),
    Undef(Undefined),
}

type R<T> = Result<T, Stop>;

fn fail<T>(f: Fail) -> R<T> {
    Err(Stop::Halt(Outcome::Failure(f)))
}

impl Machine<'_> {
    fn pop(&mut self) -> Word {
        self.stack.pop().expect("arity checked before dispatch")
    }
    fn push(&mut self, x: Word) {
        debug_assert!(x < modulus());
        self.stack.push(x);
        self.max_stack = self.max_stack.max(self.stack.len());
    }

    /// Touch memory `[off, off+size)`: word-granular expansion. `None` for an empty range
    /// (no expansion, any offset: Yellow Paper, M(s, f, 0) = s).
    fn touch(&mut self, off: &Word, size: &Word) -> R<Option<(usize, usize)>> {
        if size.is_zero() {
            return Ok(None);
        }
        let end = off + size;
        if end > two_pow(32) {
            return fail(Fail::MemAccess);
        }
        let end = end.to_u64().unwrap();
        if end > self.lim.mem_cap {
            return Err(Stop::Undef(Undefined::MemoryGreyZone));
        }
        let words = end.div_ceil(32);
        let need = (words * 32) as usize;
        if need > self.mem.len() {
            self.mem.resize(need, 0);
        }
        Ok(Some((off.to_usize().unwrap(), size.to_usize().unwrap())))
    }

    /// `size` bytes of `data` starting at `off`, zero-padded beyond its end.
    fn padded(data: &[u8], off: &Word, size: usize) -> Vec<u8> {
        let mut out = vec![0u8; size];
        if let Some(o) = off.to_usize()
            && o < data.len()
        {
            let n = size.min(data.len() - o);
            out[..n].copy_from_slice(&data[o..o + n]);
        }
        out
    }

    fn copy_in(&mut self, data: &[u8], dest: &Word, src: &Word, size: &Word) -> R<()> {
        if let Some((d, n)) = self.touch(dest, size)? {
            let bytes = Self::padded(data, src, n);
            self.mem[d..d + n].copy_from_slice(&bytes);
        }
        Ok(())
    }

    fn jump_to(&mut self, dest: &Word) -> R<()> {
        match dest.to_usize() {
            Some(d) if d < self.code.len() && self.dests[d] => {
                self.pc = d;
                Ok(())
            }
            _ => fail(Fail::BadJump),
        }
    }

    fn step(&mut self) -> R<()> {
        let op = self.code[self.pc];
        let Some((takes, gives)) = stack_io(op) else {
            return fail(Fail::InvalidInstruction);
        };
        if op == 0xfe {
            return fail(Fail::InvalidInstruction);
        }
        if self.stack.len() < takes {
            return fail(Fail::StackUnderflow);
        }
        if self.stack.len() - takes + gives > 1024 {
            return fail(Fail::StackOverflow);
        }
        let mut next = self.pc + 1;
        match op {
            0x00 => return Err(Stop::Halt(Outcome::Return(vec![]))),
            0x01..=0x07 | 0x0a | 0x0b | 0x10..=0x14 | 0x16..=0x18 | 0x1a..=0x1d => {
                let a = self.pop();
                let b = self.pop();
                let r = match op {
                    0x01 => op_add(&a, &b),
                    0x02 => op_mul(&a, &b),
                    0x03 => op_sub(&a, &b),
                    0x04 => op_div(&a, &b),
                    0x05 => op_sdiv(&a, &b),
                    0x06 => op_mod(&a, &b),
                    0x07 => op_smod(&a, &b),
                    0x0a => op_exp(&a, &b),
                    0x0b => op_signextend(&a, &b),
                    0x10 => op_lt(&a, &b),
                    0x11 => op_gt(&a, &b),
                    0x12 => op_slt(&a, &b),
                    0x13 => op_sgt(&a, &b),
                    0x14 => op_eq(&a, &b),
                    0x16 => op_and(&a, &b),
                    0x17 => op_or(&a, &b),
                    0x18 => op_xor(&a, &b),
                    0x1a => op_byte(&a, &b),
                    0x1b => op_shl(&a, &b),
                    0x1c => op_shr(&a, &b),
                    0x1d => op_sar(&a, &b),
                    _ => unreachable!(),
                };
                self.push(r);
            }
            0x08 | 0x09 => {
                let a = self.pop();
                let b = self.pop();
                let n = self.pop();
                self.push(if op == 0x08 { op_addmod(&a, &b, &n) } else { op_mulmod(&a, &b, &n) });
            }
            0x15 => {
                let a = self.pop();
                self.push(op_iszero(&a));
            }
            0x19 => {
                let a = self.pop();
                self.push(op_not(&a));
            }
            0x1e => {
                let a = self.pop();
                self.push(op_clz(&a));
            }
            0x20 => {
                let off = self.pop();
                let size = self.pop();
                let h = match self.touch(&off, &size)? {
                    Some((o, n)) => keccak256(&self.mem[o..o + n]),
                    None => keccak256(&[]),
                };
                self.push(word_from_be(&h));
            }
            0x35 => {
                let i = self.pop();
                let b = Self::padded(self.calldata, &i, 32);
                self.push(word_from_be(&b));
            }
            0x36 => self.push(w(self.calldata.len() as u64)),
            0x37 => {
                let (d, s, n) = (self.pop(), self.pop(), self.pop());
                let data = self.calldata;
                self.copy_in(data, &d, &s, &n)?;
            }
            0x38 => self.push(w(self.code.len() as u64)),
            0x39 => {
                let (d, s, n) = (self.pop(), self.pop(), self.pop());
                let data = self.code;
                self.copy_in(data, &d, &s, &n)?;
            }
            0x3d => self.push(w(self.returndata.len() as u64)),
            0x3e => {
                let (d, s, n) = (self.pop(), self.pop(), self.pop());
                // EIP-211: reading beyond the buffer is an exceptional halt (no zero padding)
                if &s + &n > w(self.returndata.len() as u64) {
                    return fail(Fail::MemAccess);
                }
                let data = self.returndata.clone();
                self.copy_in(&data, &d, &s, &n)?;
            }
            0x50 => {
                self.pop();
            }
            0x51 => {
                let off = self.pop();
                let (o, _) = self.touch(&off, &w(32))?.unwrap();
                self.push(word_from_be(&self.mem[o..o + 32]));
            }
            0x52 => {
                let off = self.pop();
                let v = self.pop();
                let (o, _) = self.touch(&off, &w(32))?.unwrap();
                self.mem[o..o + 32].copy_from_slice(&word_to_be(&v));
            }
            0x53 => {
                let off = self.pop();
                let v = self.pop();
                let (o, _) = self.touch(&off, &w(1))?.unwrap();
                self.mem[o] = word_to_be(&v)[31];
            }
            0x54 => {
                let k = self.pop();
                let v = self.storage.get(&k).cloned().unwrap_or_default();
                self.push(v);
            }
            0x55 => {
                let k = self.pop();
                let v = self.pop();
                if v.is_zero() {
                    self.storage.remove(&k);
                } else {
                    self.storage.insert(k, v);
                }
            }
            0x56 => {
                let d = self.pop();
                self.jump_to(&d)?;
                next = self.pc;
            }
            0x57 => {
                let d = self.pop();
                let c = self.pop();
                if !c.is_zero() {
                    self.jump_to(&d)?;
                    next = self.pc;
                }
            }
            0x58 => self.push(w(self.pc as u64)),
            0x59 => self.push(w(self.mem.len() as u64)),
            0x5b => {}
            0x5c => {
                let k = self.pop();
                let v = self.transient.get(&k).cloned().unwrap_or_default();
                self.push(v);
            }
            0x5d => {
                let k = self.pop();
                let v = self.pop();
                if v.is_zero() {
                    self.transient.remove(&k);
                } else {
                    self.transient.insert(k, v);
                }
            }
            0x5e => {
                let (d, s, n) = (self.pop(), self.pop(), self.pop());
                if !n.is_zero() {
                    // expansion covers both ranges (EIP-5656: max(dst, src) + len)
                    let (so, len) = self.touch(&s, &n)?.unwrap();
                    let (dof, _) = self.touch(&d, &n)?.unwrap();
                    let tmp = self.mem[so..so + len].to_vec();
                    self.mem[dof..dof + len].copy_from_slice(&tmp);
                }
            }
            0x5f..=0x7f => {
                let n = (op - 0x5f) as usize;
                // code is implicitly followed by zeros
                let mut imm = vec![0u8; n];
                for (i, b) in imm.iter_mut().enumerate() {
                    if let Some(c) = self.code.get(self.pc + 1 + i) {
                        *b = *c;
                    }
                }
                self.push(word_from_be(&imm));
                next = self.pc + 1 + n;
            }
            0x80..=0x8f => {
                let n = (op - 0x7f) as usize;
                let v = self.stack[self.stack.len() - n].clone();
                self.push(v);
            }
            0x90..=0x9f => {
                let n = (op - 0x8f) as usize;
                let top = self.stack.len() - 1;
                self.stack.swap(top, top - n);
            }
            0xf3 | 0xfd => {
                let off = self.pop();
                let size = self.pop();
                let data = match self.touch(&off, &size)? {
                    Some((o, n)) => self.mem[o..o + n].to_vec(),
                    None => vec![],
                };
                return Err(Stop::Halt(if op == 0xf3 { Outcome::Return(data) } else { Outcome::Revert(data) }));
            }
            other => return Err(Stop::Undef(Undefined::OutsideModel(other))),
        }
        self.pc = next;
        Ok(())
    }
}

/// Execute `code` as one message call on `account` with `calldata`. Storage changes are
/// committed to `account` iff the outcome is `Return`; transient storage starts empty
/// (EIP-1153: discarded at the end of every transaction).
pub fn execute(code: &[u8], calldata: &[u8], account: &mut Account, lim: Limits) -> Run {
    let mut m = Machine {
        code,
        calldata,
        returndata: vec![],
        dests: jumpdests(code),
        stack: vec![],
        mem: vec![],
        storage: account.storage.clone(),
        transient: BTreeMap::new(),
        pc: 0,
        lim,
        max_stack: 0,
    };
    let mut steps = 0u64;
    let verdict = loop {
        if m.pc >= code.len() {
            break Verdict::Defined(Outcome::Return(vec![]));
        }
        if steps >= lim.max_steps {
            break Verdict::Undefined(Undefined::StepLimit);
        }
        match m.step() {
            Ok(()) => steps += 1,
            Err(Stop::Halt(o)) => {
                if !matches!(o, Outcome::Failure(_)) {
                    steps += 1;
                }
                break Verdict::Defined(o);
            }
            Err(Stop::Undef(u)) => break Verdict::Undefined(u),
        }
    };
    if let Verdict::Defined(Outcome::Return(_)) = &verdict {
        account.storage = m.storage;
    }
    Run { verdict, steps, max_stack: m.max_stack, mem_size: m.mem.len() }
}
