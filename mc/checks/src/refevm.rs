//! refevm — an independent, deliberately plain reference interpreter of EVM semantics.
