//! C03 — miner-life walk (SMALL policy); see minerlife.rs and DESIGN §3 C03.
use crate::minerlife::*;
use crate::util::*;
use mcx::Bounds;

pub fn scenario(tier: &str) -> (Life, Bounds) {
    let th = tier_is_thorough(tier);
    let cfg = LifeCfg {
        name: "c03",
        periods: if th { 5 } else { 3 },
        devs: if th { 2 } else { 1 },
        bases: if th { vec!["one-deadline", "two-deadlines", "one-deadline-aged", "two-deadlines-aged", "mixed-expiry-aged"] } else { vec!["one-deadline-aged", "two-deadlines", "one-deadline-aged-pc", "mixed-expiry-aged"] },
        oracles: Oracles { c03: true, ..Default::default() },
        sector_sets: if th { sets_all() } else { sets_small() },
        known_open: mcx::evidence::known_open("C03"),
        property: "C03",
        poor: None,
        money_devs: false,
        precommits: true,
        horizon: None,
        big: false,
        tick_faults: false,
        bystander: false,
        extensions: true,
        backlog: false,
    };
    let b = if th {
        Bounds { max_depth: 400, wall_cap_s: 1500.0, ..Default::default() }
    } else {
        Bounds { max_depth: 400, wall_cap_s: 45.0, ..Default::default() }
    };
    (Life { cfg }, b)
}

/// Bursts: several deviations close together (short horizon), also from a pre-faulted base.
pub fn scenario_burst(tier: &str) -> (Life, Bounds) {
    let (mut l, mut b) = scenario(tier);
    let th = tier_is_thorough(tier);
    l.cfg.name = "c03-burst";
    l.cfg.bases = vec!["one-deadline-aged-f12", "two-deadlines"];
    l.cfg.devs = if th { 3 } else { 2 };
    l.cfg.horizon = Some(if th { 10 } else { 7 });
    l.cfg.precommits = false;
    l.cfg.sector_sets = vec![vec![1], vec![2], vec![1, 2], vec![3]];
    b.wall_cap_s = if th { 900.0 } else { 30.0 };
    (l, b)
}

pub fn run(tier: &str) -> ! {
    let (scn, b) = scenario(tier);
    let mut run = mcx::evidence::Run::new("C03", tier, "model_checking");
    run.assumptions = vec![
        "SMALL policy: same actor code with scaled protocol parameters (24-epoch proving period, 2 KiB sectors, partitions of 2); constants that are not policy (vesting spec, termination fee days) are as on mainnet".into(),
        "mcvm stands in for the FVM; proofs are faked (valid unless marked BAD); the real cron tick runs at every epoch".into(),
        "a second 'ballast' miner holds a large locked reward so that the network pledge total stays positive (see KF-1)".into(),
    ];
    run.add(mcx::explore(&scn, &b));
    let (sb, bb) = scenario_burst(tier);
    run.add(mcx::explore(&sb, &bb));
    // MAINNET: real CreateMiner, block rewards, withdrawals, penalties across the first vesting days
    let sv = scenario_vesting(tier);
    run.add(mcx::explore(&sv, &Bounds { max_depth: if tier_is_thorough(tier) { 7 } else { 5 }, wall_cap_s: if tier_is_thorough(tier) { 900.0 } else { 25.0 }, replay_sample: 8, ..Default::default() }));
    let (sk, bk) = crate::c15::scenario_backlog(tier, "C03", Oracles { c03: true, ..Default::default() });
    run.add(mcx::explore(&sk, &bk));
    run.finish()
}

// ------------------------------------------------------------------ MAINNET vesting walk

/// Wraps a VM scenario and checks the network pledge ledger after every transition:
/// `sum over miners (initial pledge + vesting funds) - power.total_pledge_collateral` must stay
/// what it was in the base state (0 without KF-1, the unreported creation deposits with it).
pub struct Pledged<Sc: mcx::Scenario> {
    pub inner: Sc,
    pub known_open: std::collections::BTreeSet<String>,
}

#[derive(Clone)]
pub struct PS<S> {
    pub s: S,
    pub offset: fvm_shared::econ::TokenAmount,
}

pub fn pledge_gap(vm: &mcvm::Vm) -> Result<fvm_shared::econ::TokenAmount, String> {
    use fil_actors_runtime::runtime::builtins::Type;
    use num_traits::Zero;
    let ps: fil_actor_power::State = vm.state_of(4).unwrap();
    if ps.total_pledge_collateral.is_negative() {
        return Err(format!("network pledge total is negative: {}", ps.total_pledge_collateral));
    }
    let mut sum = fvm_shared::econ::TokenAmount::zero();
    for (idn, a) in vm.actor_states() {
        if fil_actors_runtime::test_utils::ACTOR_TYPES.get(&a.code) == Some(&Type::Miner) {
            let st: fil_actor_miner::State = vm.state_of(idn).unwrap();
            sum += &st.initial_pledge + &st.locked_funds;
        }
    }
    Ok(sum - ps.total_pledge_collateral)
}

impl<Sc, M> mcx::Scenario for Pledged<Sc>
where
    Sc: mcx::Scenario<S = VS<M>>,
    Sc::W: crate::c01::HasVm,
    M: Clone + Send + Sync,
{
    type S = PS<VS<M>>;
    type A = Sc::A;
    type W = Sc::W;
    fn name(&self) -> String {
        format!("c03+{}", self.inner.name())
    }
    fn worker(&self, store: &mcvm::Store) -> Sc::W {
        self.inner.worker(store)
    }
    fn bases(&self, w: &Sc::W) -> Vec<(String, Self::S)> {
        use crate::c01::HasVm;
        self.inner
            .bases(w)
            .into_iter()
            .map(|(n, s)| {
                w.vm().restore(&s.snap);
                let offset = pledge_gap(w.vm()).expect("SETUP-FAILED: negative pledge total in a base state");
                (n, PS { s, offset })
            })
            .collect()
    }
    fn check_base(&self, _w: &Sc::W, s: &Self::S) -> Option<String> {
        use num_traits::Zero;
        if !s.offset.is_zero() && !self.known_open.contains("KF-1") {
            return Some(format!("network pledge total differs from sum(IP+LF) by {} (unreported creation deposits)", s.offset));
        }
        None
    }
    fn key(&self, s: &Self::S) -> mcx::Key {
        self.inner.key(&s.s)
    }
    fn actions(&self, w: &Sc::W, s: &Self::S) -> Vec<Sc::A> {
        self.inner.actions(w, &s.s)
    }
    fn kind(&self, a: &Sc::A) -> String {
        self.inner.kind(a)
    }
    fn step(&self, w: &Sc::W, s: &Self::S, a: &Sc::A, f: &[usize]) -> mcx::Step<Self::S> {
        use crate::c01::HasVm;
        use num_traits::Zero;
        let st = self.inner.step(w, &s.s, a, f);
        let mut out = mcx::Step { next: None, sites: st.sites, outcome: st.outcome, violation: None, known: vec![], agreed: 1 };
        if let Some(n) = st.next {
            match pledge_gap(w.vm()) {
                Ok(g) => {
                    if g != s.offset {
                        out.violation = Some(format!("after {a:?}: sum over miners of (initial pledge + vesting funds) minus the network pledge total moved from {} to {g}: a change of locked funds or pledge was not reported exactly", s.offset));
                    } else if !g.is_zero() {
                        out.known.push(mcx::Known { id: "KF-1".into(), text: "creation deposit locked by the miner constructor is never reported to the power actor (network pledge total = sum(IP+LF) - sum(creation deposits))".into() });
                    }
                }
                Err(e) => out.violation = Some(format!("after {a:?}: {e}")),
            }
            out.next = Some(PS { s: n, offset: s.offset.clone() });
        }
        out
    }
    fn describe(&self) -> serde_json::Value {
        serde_json::json!({"wrapped": self.inner.describe(), "oracle": "sum(IP+LF) - power.total_pledge_collateral constant (= unreported creation deposits, KF-1), total never negative"})
    }
}

pub fn scenario_vesting(tier: &str) -> Pledged<crate::c14::Withdrawals> {
    Pledged { inner: crate::c14::scenario_actor(tier), known_open: mcx::evidence::known_open("C03") }
}
