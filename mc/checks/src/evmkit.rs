//! Shared EVM helpers (bytecode assembly, deployment through the EAM, invocation).
