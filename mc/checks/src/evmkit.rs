//! Shared EVM helpers (bytecode assembly, deployment through the EAM, invocation).
//!
//! Everything here goes through the REAL actors: contracts are deployed by an account calling
//! `EAM.CreateExternal` (-> `Init.Exec4` -> `EVM.Constructor` running the init code), invoked
//! with `EVM.InvokeContract`, and storage is read back with `EVM.GetStorageAt` (callable by the
//! system actor only). Needs hook H1 (`/verif/hooks/H1-evm-step-budget.patch`, committed in the
//! repository as "verif hook H1"): `arm_step_budget` / `cap_evm_memory` use its public functions
//! `fil_actor_evm::interpreter::verif::{arm, remaining, cap_memory, EXIT_STEP_BUDGET}`.
use crate::refevm::{self, Fail, Outcome, Word};
use fil_actor_eam as eam;
use fil_actor_evm as evm;
use fil_actors_evm_shared::uints::U256;
use fil_actors_runtime::runtime::Policy;
use fil_actors_runtime::{EAM_ACTOR_ADDR, SYSTEM_ACTOR_ADDR};
use fvm_ipld_encoding::ipld_block::IpldBlock;
use fvm_ipld_encoding::{BytesDe, BytesSer};
use fvm_shared::ActorID;
use fvm_shared::address::Address;
use fvm_shared::econ::TokenAmount;
use fvm_shared::error::ExitCode;
use mcvm::{Inv, MsgKind, Snapshot, Store, Vm};
use num_traits::Zero;
use std::collections::BTreeMap;

// ------------------------------------------------------------------------------ opcodes

pub mod op {
    pub const STOP: u8 = 0x00;
    pub const ADD: u8 = 0x01;
    pub const MUL: u8 = 0x02;
    pub const SUB: u8 = 0x03;
    pub const DIV: u8 = 0x04;
    pub const SDIV: u8 = 0x05;
    pub const MOD: u8 = 0x06;
    pub const SMOD: u8 = 0x07;
    pub const ADDMOD: u8 = 0x08;
    pub const MULMOD: u8 = 0x09;
    pub const EXP: u8 = 0x0a;
    pub const SIGNEXTEND: u8 = 0x0b;
    pub const LT: u8 = 0x10;
    pub const GT: u8 = 0x11;
    pub const SLT: u8 = 0x12;
    pub const SGT: u8 = 0x13;
    pub const EQ: u8 = 0x14;
    pub const ISZERO: u8 = 0x15;
    pub const AND: u8 = 0x16;
    pub const OR: u8 = 0x17;
    pub const XOR: u8 = 0x18;
    pub const NOT: u8 = 0x19;
    pub const BYTE: u8 = 0x1a;
    pub const SHL: u8 = 0x1b;
    pub const SHR: u8 = 0x1c;
    pub const SAR: u8 = 0x1d;
    pub const CLZ: u8 = 0x1e;
    pub const KECCAK256: u8 = 0x20;
    pub const ADDRESS: u8 = 0x30;
    pub const CALLER: u8 = 0x33;
    pub const CALLVALUE: u8 = 0x34;
    pub const CALLDATALOAD: u8 = 0x35;
    pub const CALLDATASIZE: u8 = 0x36;
    pub const CALLDATACOPY: u8 = 0x37;
    pub const CODESIZE: u8 = 0x38;
    pub const CODECOPY: u8 = 0x39;
    pub const EXTCODECOPY: u8 = 0x3c;
    pub const RETURNDATASIZE: u8 = 0x3d;
    pub const RETURNDATACOPY: u8 = 0x3e;
    pub const POP: u8 = 0x50;
    pub const MLOAD: u8 = 0x51;
    pub const MSTORE: u8 = 0x52;
    pub const MSTORE8: u8 = 0x53;
    pub const SLOAD: u8 = 0x54;
    pub const SSTORE: u8 = 0x55;
    pub const JUMP: u8 = 0x56;
    pub const JUMPI: u8 = 0x57;
    pub const PC: u8 = 0x58;
    pub const MSIZE: u8 = 0x59;
    pub const GAS: u8 = 0x5a;
    pub const JUMPDEST: u8 = 0x5b;
    pub const TLOAD: u8 = 0x5c;
    pub const TSTORE: u8 = 0x5d;
    pub const MCOPY: u8 = 0x5e;
    pub const PUSH0: u8 = 0x5f;
    pub const PUSH1: u8 = 0x60;
    pub const PUSH2: u8 = 0x61;
    pub const PUSH32: u8 = 0x7f;
    pub const DUP1: u8 = 0x80;
    pub const DUP2: u8 = 0x81;
    pub const DUP3: u8 = 0x82;
    pub const DUP4: u8 = 0x83;
    pub const SWAP1: u8 = 0x90;
    pub const SWAP2: u8 = 0x91;
    pub const LOG0: u8 = 0xa0;
    pub const CREATE: u8 = 0xf0;
    pub const CALL: u8 = 0xf1;
    pub const RETURN: u8 = 0xf3;
    pub const DELEGATECALL: u8 = 0xf4;
    pub const CREATE2: u8 = 0xf5;
    pub const STATICCALL: u8 = 0xfa;
    pub const REVERT: u8 = 0xfd;
    pub const INVALID: u8 = 0xfe;
    pub const SELFDESTRUCT: u8 = 0xff;
}

// ------------------------------------------------------------------------------ assembler

/// A tiny two-pass assembler: raw opcodes, minimal-width pushes, and labels (always encoded as
/// PUSH2 so that sizes do not depend on label values).
#[derive(Clone, Default)]
pub struct Asm {
    code: Vec<u8>,
    labels: BTreeMap<String, usize>,
    fixups: Vec<(usize, String)>,
}

impl Asm {
    pub fn new() -> Asm {
        Asm::default()
    }
    pub fn len(&self) -> usize {
        self.code.len()
    }
    pub fn is_empty(&self) -> bool {
        self.code.is_empty()
    }
    pub fn op(&mut self, o: u8) -> &mut Self {
        self.code.push(o);
        self
    }
    pub fn ops(&mut self, os: &[u8]) -> &mut Self {
        self.code.extend_from_slice(os);
        self
    }
    pub fn raw(&mut self, bytes: &[u8]) -> &mut Self {
        self.code.extend_from_slice(bytes);
        self
    }
    /// PUSH of a big-endian value with the minimal width (PUSH0 for zero).
    pub fn push_be(&mut self, be: &[u8]) -> &mut Self {
        let s: Vec<u8> = be.iter().cloned().skip_while(|b| *b == 0).collect();
        assert!(s.len() <= 32);
        self.code.push(0x5f + s.len() as u8);
        self.code.extend_from_slice(&s);
        self
    }
    pub fn push(&mut self, n: u64) -> &mut Self {
        self.push_be(&n.to_be_bytes())
    }
    pub fn push_word(&mut self, x: &Word) -> &mut Self {
        self.push_be(&x.to_bytes_be())
    }
    /// PUSHn with exactly the given immediate bytes (no minimisation).
    pub fn push_exact(&mut self, imm: &[u8]) -> &mut Self {
        assert!(imm.len() <= 32);
        self.code.push(0x5f + imm.len() as u8);
        self.code.extend_from_slice(imm);
        self
    }
    pub fn label(&mut self, name: &str) -> &mut Self {
        let prev = self.labels.insert(name.to_string(), self.code.len());
        assert!(prev.is_none(), "duplicate label {name}");
        self
    }
    /// `JUMPDEST` carrying a label.
    pub fn dest(&mut self, name: &str) -> &mut Self {
        self.label(name);
        self.op(op::JUMPDEST)
    }
    pub fn push_label(&mut self, name: &str) -> &mut Self {
        self.code.push(op::PUSH2);
        self.fixups.push((self.code.len(), name.to_string()));
        self.code.extend_from_slice(&[0, 0]);
        self
    }
    pub fn jump(&mut self, name: &str) -> &mut Self {
        self.push_label(name);
        self.op(op::JUMP)
    }
    pub fn jumpi(&mut self, name: &str) -> &mut Self {
        self.push_label(name);
        self.op(op::JUMPI)
    }
    pub fn finish(&self) -> Vec<u8> {
        let mut c = self.code.clone();
        for (at, name) in &self.fixups {
            let v = *self.labels.get(name).unwrap_or_else(|| panic!("undefined label {name}"));
            assert!(v < 65536);
            c[*at] = (v >> 8) as u8;
            c[*at + 1] = v as u8;
        }
        c
    }
}

/// Init code whose only effect is to return `runtime` as the contract's code:
/// `PUSH2 len; DUP1; PUSH2 11; PUSH0; CODECOPY; PUSH0; RETURN; <runtime>`.
pub fn init_code_returning(runtime: &[u8]) -> Vec<u8> {
    assert!(runtime.len() < 65536);
    let n = runtime.len();
    let mut c = vec![
        op::PUSH2,
        (n >> 8) as u8,
        n as u8,
        op::DUP1,
        op::PUSH2,
        0,
        11,
        op::PUSH0,
        op::CODECOPY,
        op::PUSH0,
        op::RETURN,
    ];
    debug_assert_eq!(c.len(), 11);
    c.extend_from_slice(runtime);
    c
}

// ------------------------------------------------------------------------------ outcomes

/// Exit code of hook H1 ("step budget exhausted" / "memory cap exceeded").
pub fn step_budget_exit() -> ExitCode {
    evm::interpreter::verif::EXIT_STEP_BUDGET
}

/// Arm hook H1 on the current thread: at most `n` further interpreter steps (summed over all
/// EVM frames that run on this thread) until it is armed again. `u64::MAX` disarms.
pub fn arm_step_budget(n: u64) {
    evm::interpreter::verif::arm(n)
}

pub fn step_budget_left() -> u64 {
    evm::interpreter::verif::remaining()
}

/// Hook H1, second resource: refuse to grow any EVM memory beyond `bytes` on this thread
/// (same exit code as the step budget). `u64::MAX` disarms. Without gas a three-byte program
/// such as `GAS PUSH0 KECCAK256` would allocate and hash 4 GiB.
pub fn cap_evm_memory(bytes: u64) {
    evm::interpreter::verif::cap_memory(bytes)
}

/// Failure class of a non-zero exit code, by the symbolic constants the EVM actor exports.
pub fn fail_class(code: ExitCode) -> Fail {
    if code == evm::EVM_CONTRACT_STACK_UNDERFLOW {
        Fail::StackUnderflow
    } else if code == evm::EVM_CONTRACT_STACK_OVERFLOW {
        Fail::StackOverflow
    } else if code == evm::EVM_CONTRACT_BAD_JUMPDEST {
        Fail::BadJump
    } else if code == evm::EVM_CONTRACT_INVALID_INSTRUCTION || code == evm::EVM_CONTRACT_UNDEFINED_INSTRUCTION {
        Fail::InvalidInstruction
    } else if code == evm::EVM_CONTRACT_ILLEGAL_MEMORY_ACCESS {
        Fail::MemAccess
    } else if code == ExitCode::USR_READ_ONLY {
        Fail::StaticViolation
    } else if code == step_budget_exit() {
        Fail::StepBudget
    } else {
        Fail::Other(code.value())
    }
}

fn bytes_of(b: &Option<IpldBlock>) -> Vec<u8> {
    match b {
        None => vec![],
        Some(blk) => match blk.deserialize::<BytesDe>() {
            Ok(BytesDe(d)) => d,
            Err(_) => blk.data.clone(),
        },
    }
}

/// Decode the result of an `InvokeContract` (or constructor) invocation.
pub fn classify(inv: &Inv) -> Outcome {
    if inv.code.is_success() {
        Outcome::Return(bytes_of(&inv.ret))
    } else if inv.code == evm::EVM_CONTRACT_REVERTED {
        Outcome::Revert(bytes_of(&inv.ret))
    } else {
        Outcome::Failure(fail_class(inv.code))
    }
}

pub fn u256_of(x: &Word) -> U256 {
    U256::from_big_endian(&refevm::word_to_be(x))
}
pub fn word_of(x: &U256) -> Word {
    let mut b = [0u8; 32];
    x.write_as_big_endian(&mut b);
    refevm::word_from_be(&b)
}

// ------------------------------------------------------------------------------ the world

#[derive(Clone, Debug)]
pub struct Deployed {
    pub id: ActorID,
    /// 20-byte Ethereum address assigned by the EAM.
    pub eth: [u8; 20],
}

impl Deployed {
    pub fn addr(&self) -> Address {
        Address::new_id(self.id)
    }
    pub fn eth_word(&self) -> Word {
        refevm::word_from_be(&self.eth)
    }
}

/// A VM at genesis + one funded account that deploys and calls contracts.
pub struct World {
    pub vm: Vm,
    pub user: ActorID,
    pub base: Snapshot,
    /// Interpreter steps (all frames) spent by the last `create` / `invoke*`, measured by H1.
    pub last_steps: std::cell::Cell<u64>,
    /// Cap on the size of one EVM memory armed around every message (`DEFAULT_MEMORY_CAP`).
    pub memory_cap: std::cell::Cell<u64>,
}

/// Default H1 budget armed before every deployment / invocation made through `World`.
pub const DEFAULT_BUDGET: u64 = 200_000;
/// Default cap on one EVM memory: far above anything the reference model defines (4 MiB).
pub const DEFAULT_MEMORY_CAP: u64 = 64 << 20;

impl World {
    pub fn new(store: &Store) -> World {
        let vm = Vm::genesis(store.clone(), Policy::default());
        vm.bump_nonce.set(true);
        let (user, _) = vm.new_account(0xE7, &TokenAmount::from_whole(1_000_000));
        let base = vm.snapshot();
        store.keep();
        World { vm, user, base, last_steps: Default::default(), memory_cap: std::cell::Cell::new(DEFAULT_MEMORY_CAP) }
    }

    /// Back to the base state; blocks written since are dropped.
    pub fn reset(&self) {
        self.vm.restore(&self.base);
        self.vm.store.discard();
    }

    /// Deploy with the given *init code* through `EAM.CreateExternal`.
    pub fn create(&self, initcode: &[u8], value: &TokenAmount, budget: u64) -> (Option<Deployed>, Inv) {
        arm_step_budget(budget);
        cap_evm_memory(self.memory_cap.get());
        let inv = self.vm.apply(
            MsgKind::External,
            &Address::new_id(self.user),
            &EAM_ACTOR_ADDR,
            value,
            eam::Method::CreateExternal as u64,
            IpldBlock::serialize_cbor(&eam::CreateExternalParams(initcode.to_vec())).unwrap(),
        );
        self.last_steps.set(budget.saturating_sub(step_budget_left()));
        arm_step_budget(u64::MAX);
        cap_evm_memory(u64::MAX);
        let d = if inv.ok() {
            let r: eam::CreateExternalReturn =
                inv.ret.as_ref().expect("CreateExternal returns a value").deserialize().expect("CreateExternalReturn decodes");
            Some(Deployed { id: r.actor_id, eth: r.eth_address.0 })
        } else {
            None
        };
        (d, inv)
    }

    /// Deploy `runtime` as contract code (init code = "return these bytes").
    pub fn deploy(&self, runtime: &[u8]) -> (Option<Deployed>, Inv) {
        self.create(&init_code_returning(runtime), &TokenAmount::zero(), DEFAULT_BUDGET)
    }

    pub fn deploy_funded(&self, runtime: &[u8], value: &TokenAmount) -> (Option<Deployed>, Inv) {
        self.create(&init_code_returning(runtime), value, DEFAULT_BUDGET)
    }

    pub fn invoke_with(&self, c: &Deployed, calldata: &[u8], value: &TokenAmount, budget: u64) -> Inv {
        arm_step_budget(budget);
        cap_evm_memory(self.memory_cap.get());
        let inv = self.vm.apply(
            MsgKind::External,
            &Address::new_id(self.user),
            &c.addr(),
            value,
            evm::Method::InvokeContract as u64,
            IpldBlock::serialize_cbor(&BytesSer(calldata)).unwrap(),
        );
        self.last_steps.set(budget.saturating_sub(step_budget_left()));
        arm_step_budget(u64::MAX);
        cap_evm_memory(u64::MAX);
        inv
    }

    pub fn invoke(&self, c: &Deployed, calldata: &[u8]) -> Inv {
        self.invoke_with(c, calldata, &TokenAmount::zero(), DEFAULT_BUDGET)
    }

    /// `EVM.GetStorageAt` as the system actor (the only permitted caller).
    pub fn storage_at(&self, c: &Deployed, key: &Word) -> Result<Word, Inv> {
        let inv = self.vm.apply(
            MsgKind::Implicit,
            &SYSTEM_ACTOR_ADDR,
            &c.addr(),
            &TokenAmount::zero(),
            evm::Method::GetStorageAt as u64,
            IpldBlock::serialize_cbor(&evm::GetStorageAtParams { storage_key: u256_of(key) }).unwrap(),
        );
        if !inv.ok() {
            return Err(inv);
        }
        let r: evm::GetStorageAtReturn = inv.ret.as_ref().expect("GetStorageAt returns").deserialize().expect("decodes");
        Ok(word_of(&r.storage))
    }

    /// State CID of an actor (content address of its whole state).
    pub fn head(&self, id: ActorID) -> Option<cid::Cid> {
        self.vm.actor(id).map(|a| a.state)
    }
}

/// Cross-checks of the test bench itself (machinery errors, not findings).
pub fn self_test() -> Result<(), String> {
    refevm::self_test()?;
    // refevm's own Keccak against the sha3 implementation used by the VM, across block sizes
    use fil_actors_runtime::runtime::Primitives;
    use fvm_shared::crypto::hash::SupportedHashes;
    let prims = fil_actors_runtime::test_utils::FakePrimitives::default();
    for n in [0usize, 1, 31, 32, 33, 135, 136, 137, 271, 272, 273, 1000] {
        let data: Vec<u8> = (0..n).map(|i| (i * 7 + 3) as u8).collect();
        if prims.hash(SupportedHashes::Keccak256, &data) != refevm::keccak256(&data).to_vec() {
            return Err(format!("refevm keccak256 differs from the VM's at length {n}"));
        }
    }
    // assembler / init wrapper round trip through the real actors
    let store = Store::new();
    let w = World::new(&store);
    let mut a = Asm::new();
    a.push(0x2a).push(0).op(op::SSTORE).push(7).push(0).op(op::MSTORE).push(32).push(0).op(op::RETURN);
    let code = a.finish();
    let (d, inv) = w.deploy(&code);
    let Some(d) = d else { return Err(format!("self-test deployment failed: {}", inv.tree())) };
    let r = w.invoke(&d, &[]);
    let mut want = vec![0u8; 32];
    want[31] = 7;
    if classify(&r) != Outcome::Return(want) {
        return Err(format!("self-test invocation: {}", r.tree()));
    }
    match w.storage_at(&d, &refevm::w(0)) {
        Ok(v) if v == refevm::w(0x2a) => {}
        other => return Err(format!("self-test GetStorageAt: {:?}", other.map_err(|i| i.tree()))),
    }
    // H1 works: an endless loop ends with the budget failure class
    let (d, _) = w.deploy(&[op::JUMPDEST, op::PUSH0, op::JUMP]);
    let r = w.invoke_with(&d.unwrap(), &[], &TokenAmount::zero(), 5_000);
    if classify(&r) != Outcome::Failure(Fail::StepBudget) {
        return Err(format!("hook H1 did not stop an endless loop: {}", r.tree()));
    }
    // ... and a memory bomb: MSTORE8 at 128 MiB
    let mut a = Asm::new();
    a.push(1).push(128 << 20).op(op::MSTORE8);
    let (d, _) = w.deploy(&a.finish());
    let r = w.invoke(&d.unwrap(), &[]);
    if classify(&r) != Outcome::Failure(Fail::StepBudget) {
        return Err(format!("hook H1 did not stop a 128 MiB memory expansion: {}", r.tree()));
    }
    Ok(())
}

/// Run `f(worker_index, &World)` on `threads` workers, each with its own VM over its own store.
pub fn parallel<T: Send>(threads: usize, f: impl Fn(usize, &World) -> T + Sync) -> Vec<T> {
    std::thread::scope(|sc| {
        let hs: Vec<_> = (0..threads)
            .map(|i| {
                let f = &f;
                std::thread::Builder::new()
                    .stack_size(1 << 30)
                    .spawn_scoped(sc, move || {
                        let store = Store::new();
                        let w = World::new(&store);
                        f(i, &w)
                    })
                    .unwrap()
            })
            .collect();
        hs.into_iter().map(|h| h.join().expect("worker panicked (machinery error)")).collect()
    })
}

pub fn threads() -> usize {
    std::env::var("MC_THREADS")
        .ok()
        .and_then(|s| s.parse().ok())
        .unwrap_or_else(|| std::thread::available_parallelism().map(|n| n.get()).unwrap_or(8))
}
