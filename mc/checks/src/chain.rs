//! Chain-level helpers: miner creation through the real power actor, sparse ticking, queue reads.
use crate::util::*;
use fil_actor_market::State as MarketState;
use fil_actor_power::{
    CRON_QUEUE_AMT_BITWIDTH, CRON_QUEUE_HAMT_BITWIDTH, CreateMinerParams, CreateMinerReturn,
    CronEvent, Method as PowerMethod, State as PowerState,
};
use fil_actors_runtime::{
    Multimap, STORAGE_MARKET_ACTOR_ADDR, STORAGE_POWER_ACTOR_ADDR, parse_uint_key,
};
use fvm_ipld_encoding::BytesDe;
use fvm_shared::ActorID;
use fvm_shared::clock::ChainEpoch;
use fvm_shared::econ::TokenAmount;
use fvm_shared::sector::RegisteredPoStProof;
use mcvm::{Inv, Vm};
use std::collections::BTreeMap;

/// Create a miner through the real `Power.CreateMiner` (the creation deposit stays locked).
pub fn create_miner(
    vm: &Vm,
    owner: ActorID,
    worker: ActorID,
    proof: RegisteredPoStProof,
    value: &TokenAmount,
) -> Result<ActorID, Inv> {
    let p = CreateMinerParams {
        owner: id(owner),
        worker: id(worker),
        window_post_proof_type: proof,
        peer: b"miner".to_vec(),
        multiaddrs: vec![BytesDe(b"multiaddr".to_vec())],
    };
    let r = ext(vm, owner, &STORAGE_POWER_ACTOR_ADDR, value, PowerMethod::CreateMiner as u64, Some(&p));
    if !r.ok() {
        return Err(r);
    }
    let ret: CreateMinerReturn = r.ret.as_ref().unwrap().deserialize().unwrap();
    Ok(ret.id_address.id().unwrap())
}

/// epoch -> [(miner, payload bytes)] of the power actor's cron queue
pub fn power_cron_queue(vm: &Vm) -> BTreeMap<ChainEpoch, Vec<(ActorID, Vec<u8>)>> {
    let st: PowerState = vm.state_of(STORAGE_POWER_ACTOR_ADDR.id().unwrap()).unwrap();
    let q = Multimap::from_root(
        &vm.store,
        &st.cron_event_queue,
        CRON_QUEUE_HAMT_BITWIDTH,
        CRON_QUEUE_AMT_BITWIDTH,
    )
    .unwrap();
    let mut out: BTreeMap<ChainEpoch, Vec<(ActorID, Vec<u8>)>> = BTreeMap::new();
    q.for_all::<_, CronEvent>(|k, arr| {
        // keys are signed (zig-zag) varints of the epoch
        let z = parse_uint_key(k).unwrap();
        let e = ((z >> 1) as i64) ^ -((z & 1) as i64);
        arr.for_each(|_, ev| {
            out.entry(e)
                .or_default()
                .push((ev.miner_addr.id().unwrap(), ev.callback_payload.to_vec()));
            Ok(())
        })?;
        Ok(())
    })
    .unwrap();
    out
}

/// epochs at which the market has deal operations scheduled
pub fn market_scheduled_epochs(vm: &Vm) -> Vec<ChainEpoch> {
    let st: MarketState = vm.state_of(STORAGE_MARKET_ACTOR_ADDR.id().unwrap()).unwrap();
    let ops = st.load_deal_ops(&vm.store).unwrap();
    let mut v = vec![];
    ops.for_each(|k, _| {
        v.push(k);
        Ok(())
    })
    .unwrap();
    v.sort();
    v
}

/// Sparse ticking (DESIGN §2.3): advance to `target`, running the real cron tick at every epoch
/// in [now, target) at which anything is scheduled and at target-1; idle epochs are skipped.
pub fn tick_to(vm: &Vm, target: ChainEpoch) -> Vec<Inv> {
    let mut invs = vec![];
    while vm.epoch() < target {
        let now = vm.epoch();
        let mut next = target - 1;
        if let Some((&e, _)) = power_cron_queue(vm).range(..=next).next() {
            // events at or before `now` are due at the very next tick
            next = next.min(e.max(now));
        }
        for e in market_scheduled_epochs(vm) {
            if e >= now && e < next {
                next = e;
            } else if e < now {
                next = now;
            }
        }
        vm.set_epoch(next);
        invs.push(vm.tick());
    }
    invs
}

/// Every-epoch ticking.
pub fn tick_n(vm: &Vm, n: i64) -> Vec<Inv> {
    (0..n).map(|_| vm.tick()).collect()
}
