//! C17 — EVM instruction conformance: the real EVM actor against `refevm`. DESIGN §3 C17.
//!
//! Enumeration (no BFS): three layers of programs, each deployed through `EAM.CreateExternal`
//! and run through `EVM.InvokeContract`, compared with the reference interpreter on
//!   * outcome class (return / revert / failure kind),
//!   * return or revert bytes,
//!   * storage slots 0..3 read back through `EVM.GetStorageAt`.
//! Programs on which the reference model is undefined (step limit, memory grey zone) are
//! excluded and counted.
use crate::evmkit::{self, Asm, World, classify, op};
use crate::refevm::{self, Account, Limits, Outcome, Verdict, Word, max_word, two_pow, w};
use cid::Cid;
use mcx::{PathStep, ViolationReport};
use serde_json::{Value, json};
use std::collections::{BTreeMap, HashMap};
use std::sync::atomic::{AtomicBool, AtomicUsize, Ordering};
use std::time::Instant;

// ------------------------------------------------------------------------------ cases

#[derive(Clone, Debug)]
pub struct Case {
    pub code: Vec<u8>,
    /// Call datas of consecutive messages to the same deployed contract.
    pub calls: Vec<Vec<u8>>,
    pub desc: String,
    /// Instruction evaluations this case stands for (layer 1 batches: many; otherwise 1 per call).
    pub weight: u64,
}

pub struct CaseResult {
    pub excluded: Option<String>,
    pub violation: Option<String>,
    pub nontrivial: bool,
    pub outcomes: Vec<Outcome>,
    pub evaluations: u64,
}

pub struct Bench<'a> {
    pub w: &'a World,
    pub lim: Limits,
    /// contract_state CID -> values of slots 0..3 as read through GetStorageAt (content
    /// addressed, hence sound to reuse)
    slot_cache: std::cell::RefCell<HashMap<Cid, [Word; 4]>>,
}

impl<'a> Bench<'a> {
    pub fn new(w: &'a World) -> Self {
        Bench { w, lim: Limits::default(), slot_cache: Default::default() }
    }

    fn slots(&self, d: &evmkit::Deployed) -> Result<[Word; 4], String> {
        let st: Option<fil_actor_evm::State> = self.w.vm.state_of(d.id);
        let key = st.map(|s| s.contract_state);
        if let Some(k) = &key
            && let Some(v) = self.slot_cache.borrow().get(k)
        {
            return Ok(v.clone());
        }
        let mut out: [Word; 4] = Default::default();
        for (i, o) in out.iter_mut().enumerate() {
            *o = self.w.storage_at(d, &w(i as u64)).map_err(|inv| format!("GetStorageAt({i}) failed: {}", inv.tree()))?;
        }
        if let Some(k) = key {
            let mut c = self.slot_cache.borrow_mut();
            if c.len() > 200_000 {
                c.clear();
            }
            c.insert(k, out.clone());
        }
        Ok(out)
    }

    /// Run one case on the reference model and on the real actor and compare.
    pub fn run(&self, c: &Case) -> CaseResult {
        let mut res = CaseResult { excluded: None, violation: None, nontrivial: false, outcomes: vec![], evaluations: 0 };
        // reference model first: undefined programs are excluded before touching the actor
        let mut acct = Account::default();
        let mut expect = vec![];
        for cd in &c.calls {
            let r = refevm::execute(&c.code, cd, &mut acct, self.lim);
            match r.verdict {
                Verdict::Defined(o) => {
                    if r.steps >= 2 {
                        res.nontrivial = true;
                    }
                    let snapshot: [Word; 4] = [acct.slot(&w(0)), acct.slot(&w(1)), acct.slot(&w(2)), acct.slot(&w(3))];
                    expect.push((o, snapshot));
                }
                Verdict::Undefined(u) => {
                    res.excluded = Some(match u {
                        refevm::Undefined::StepLimit => "reference model exceeded the step limit".to_string(),
                        refevm::Undefined::MemoryGreyZone => "memory beyond the model cap but within 2^32".to_string(),
                        refevm::Undefined::OutsideModel(o) => format!("opcode 0x{o:02x} outside the model"),
                    });
                    res.nontrivial = false;
                    return res;
                }
            }
        }
        self.w.reset();
        let (d, inv) = self.w.deploy(&c.code);
        let Some(d) = d else {
            res.violation = Some(format!("deployment of the program failed: {}", inv.tree()));
            return res;
        };
        if inv.any_panicked() {
            res.violation = Some(format!("panic during deployment: {}", inv.tree()));
            return res;
        }
        for (i, cd) in c.calls.iter().enumerate() {
            let inv = self.w.invoke(&d, cd);
            let got = classify(&inv);
            res.evaluations += 1;
            let (want, want_slots) = &expect[i];
            if inv.any_panicked() {
                res.violation = Some(format!("call {i}: the actor panicked: {}", inv.tree()));
                return res;
            }
            if &got != want {
                res.violation = Some(format!(
                    "call {i} (calldata {}): actor {} != reference {}",
                    hex::encode(cd),
                    got.brief(),
                    want.brief()
                ));
                return res;
            }
            match self.slots(&d) {
                Err(e) => {
                    res.violation = Some(format!("call {i}: {e}"));
                    return res;
                }
                Ok(s) => {
                    if &s != want_slots {
                        res.violation = Some(format!(
                            "call {i} (calldata {}): storage slots 0..3 actor {:x?} != reference {:x?}",
                            hex::encode(cd),
                            s,
                            want_slots
                        ));
                        return res;
                    }
                }
            }
            res.outcomes.push(got);
        }
        self.w.reset();
        res
    }
}

fn case_json(c: &Case) -> Value {
    json!({"code": hex::encode(&c.code), "calldatas": c.calls.iter().map(hex::encode).collect::<Vec<_>>(), "desc": c.desc})
}

fn case_from_json(v: &Value) -> Option<Case> {
    Some(Case {
        code: hex::decode(v["code"].as_str()?).ok()?,
        calls: v["calldatas"].as_array()?.iter().map(|x| hex::decode(x.as_str().unwrap_or("")).unwrap_or_default()).collect(),
        desc: v["desc"].as_str().unwrap_or("").to_string(),
        weight: 1,
    })
}

// ------------------------------------------------------------------------------ layer engine

pub trait Gen: Sync {
    fn name(&self) -> String;
    fn len(&self) -> usize;
    fn get(&self, i: usize) -> Case;
    /// When a (batched) case fails: smaller cases to try, to report the most readable one.
    fn split(&self, _c: &Case) -> Vec<Case> {
        vec![]
    }
    fn describe(&self) -> Value;
}

#[derive(Default)]
pub struct LayerStats {
    pub name: String,
    pub cases: u64,
    pub cases_run: u64,
    pub evaluations: u64,
    pub instr_evaluations: u64,
    pub excluded: BTreeMap<String, u64>,
    pub outcome_hist: BTreeMap<String, u64>,
    pub nontrivial_keys: Vec<[u8; 16]>,
    pub violations: Vec<(usize, Case, String)>,
    pub samples: Vec<Value>,
    pub capped: bool,
    pub wall_s: f64,
    pub describe: Value,
}

fn clip(mut h: String) -> String {
    if h.len() > 600 {
        let n = h.len() / 2;
        h.truncate(600);
        h.push_str(&format!("..({n} bytes)"));
    }
    h
}

fn outcome_key(o: &Outcome) -> String {
    match o {
        Outcome::Return(d) => if d.is_empty() { "return(empty)".into() } else { "return(data)".into() },
        Outcome::Revert(d) => if d.is_empty() { "revert(empty)".into() } else { "revert(data)".into() },
        Outcome::Failure(f) => format!("failure({f:?})"),
    }
}

pub fn run_layer(g: &dyn Gen, threads: usize, deadline: Option<Instant>) -> LayerStats {
    let t0 = Instant::now();
    let n = g.len();
    let next = AtomicUsize::new(0);
    let stop = AtomicBool::new(false);
    // first index that need not be run any more: end of the first chunk containing a violation
    let limit = AtomicUsize::new(n);
    const CHUNK: usize = 128;
    let sample_at: Vec<usize> = (0..5).map(|k| (n.saturating_sub(1)) * (k + 1) / 5).collect();
    let parts = evmkit::parallel(threads, |_, world| {
        let b = Bench::new(world);
        let mut st = LayerStats::default();
        loop {
            if stop.load(Ordering::Relaxed) {
                break;
            }
            if let Some(d) = deadline
                && Instant::now() > d
            {
                stop.store(true, Ordering::Relaxed);
                break;
            }
            let lo = next.fetch_add(CHUNK, Ordering::Relaxed);
            if lo >= n.min(limit.load(Ordering::Relaxed)) {
                break;
            }
            for i in lo..(lo + CHUNK).min(n) {
                if i >= limit.load(Ordering::Relaxed) {
                    break;
                }
                let c = g.get(i);
                let r = b.run(&c);
                st.cases += 1;
                if let Some(e) = r.excluded {
                    *st.excluded.entry(e).or_default() += 1;
                    continue;
                }
                st.cases_run += 1;
                st.evaluations += r.evaluations;
                if let Some(v) = r.violation {
                    // most readable failing sub-case, if the generator can split
                    let mut reported = (c.clone(), v);
                    for sub in g.split(&c) {
                        let rs = b.run(&sub);
                        if let Some(vs) = rs.violation {
                            reported = (sub, vs);
                            break;
                        }
                    }
                    // replay before reporting: a disagreement that does not reproduce on the same
                    // worker is a machinery error, not a verdict
                    if b.run(&reported.0).violation.is_none() {
                        reported.1 = format!("MACHINERY: not reproducible on immediate re-execution: {}", reported.1);
                    }
                    limit.fetch_min((lo + CHUNK).min(n), Ordering::Relaxed);
                    if st.violations.len() < 5 {
                        st.violations.push((i, reported.0, reported.1));
                    }
                    continue;
                }
                st.instr_evaluations += c.weight * c.calls.len() as u64;
                for o in &r.outcomes {
                    *st.outcome_hist.entry(outcome_key(o)).or_default() += 1;
                }
                if r.nontrivial {
                    st.nontrivial_keys.push(mcx::hash_key(&[&c.code]));
                }
                if sample_at.contains(&i) {
                    st.samples.push(json!({
                        "layer": g.name(), "index": i, "program": clip(hex::encode(&c.code)), "desc": c.desc,
                        "calldatas": c.calls.iter().map(hex::encode).collect::<Vec<_>>(),
                        "outcomes_actor_equals_reference": r.outcomes.iter().map(|o| o.brief()).collect::<Vec<_>>(),
                    }));
                }
            }
        }
        st
    });
    let mut out = LayerStats { name: g.name(), describe: g.describe(), ..Default::default() };
    for p in parts {
        out.cases += p.cases;
        out.cases_run += p.cases_run;
        out.evaluations += p.evaluations;
        out.instr_evaluations += p.instr_evaluations;
        for (k, v) in p.excluded {
            *out.excluded.entry(k).or_default() += v;
        }
        for (k, v) in p.outcome_hist {
            *out.outcome_hist.entry(k).or_default() += v;
        }
        out.nontrivial_keys.extend(p.nontrivial_keys);
        out.violations.extend(p.violations);
        out.samples.extend(p.samples);
    }
    // deterministic report: everything below the final limit was run completely
    let final_limit = limit.load(Ordering::Relaxed);
    out.violations.retain(|v| v.0 < final_limit);
    out.violations.sort_by_key(|v| v.0);
    out.violations.truncate(3);
    out.samples.sort_by_key(|s| s["index"].as_u64());
    out.capped = stop.load(Ordering::Relaxed) || (out.cases as usize) < n;
    out.wall_s = t0.elapsed().as_secs_f64();
    out
}

// ------------------------------------------------------------------------------ layer 1

/// The boundary alphabet ℬ.
pub fn boundary_words() -> Vec<Word> {
    let p = two_pow;
    let m = max_word();
    let rep = |b: u8| refevm::word_from_be(&[b; 32]);
    let mut v: Vec<Word> = vec![
        w(0),
        w(1),
        w(2),
        w(3),
        w(7),
        w(8),
        w(15),
        w(16),
        w(30),
        w(31),
        w(32),
        w(33),
        w(0x7f),
        w(0x80),
        w(0xff),
        w(0x100),
        w(0x101),
        w(0x7fff),
        w(0x8000),
        w(0xffff_ffff),
        p(64) - w(1),
        p(64),
        p(64) + w(1),
        p(128) - w(1),
        p(128),
        p(128) + w(1),
        p(192),
        p(248) - w(1),
        p(248),
        p(255) - w(1),
        p(255),
        p(255) + w(1),
        &m - w(256),
        &m - w(255),
        &m - w(2),
        &m - w(1),
        m.clone(),
        &m - (p(128) - w(1)),
        &m - (p(64) - w(1)),
        rep(0xaa),
        rep(0x55),
        rep(0x80),
        rep(0x7f),
        refevm::word_from_be(&(1u8..=32).collect::<Vec<u8>>()),
    ];
    let n = v.len();
    v.dedup();
    assert_eq!(n, v.len());
    v
}

#[derive(Clone, Copy, Debug, PartialEq, Eq)]
enum Form {
    Un(u8),
    Bin(u8),
    Tern(u8),
    /// `v k SSTORE k SLOAD` (op = SSTORE) or the transient pair (op = TSTORE): operands (k, v)
    StoreLoad(u8),
    /// `a scratch MSTORE8 scratch MLOAD`
    Mstore8,
    /// `a scratch+1 MSTORE scratch MLOAD` (unaligned store, aligned load)
    MstoreUnaligned,
    /// keccak over the first `b` bytes of the word `a` stored at scratch
    Keccak,
    /// 17 distinct words, DUPn, observe top
    Dup(u8),
    /// 17 distinct words, SWAPn, observe top
    SwapTop(u8),
    /// 17 distinct words, SWAPn, POP x n, observe top
    SwapDeep(u8),
    /// PUSHn with an n-byte pattern
    Push(u8),
}

#[derive(Clone, Debug)]
struct Eval {
    form: Form,
    args: Vec<Word>,
}

const SCRATCH: u64 = 0x3000;
const RESULTS: u64 = 0;

fn emit_eval(a: &mut Asm, e: &Eval) {
    let x = &e.args;
    match e.form {
        Form::Un(o) => {
            a.push_word(&x[0]).op(o);
        }
        Form::Bin(o) => {
            a.push_word(&x[1]).push_word(&x[0]).op(o);
        }
        Form::Tern(o) => {
            a.push_word(&x[2]).push_word(&x[1]).push_word(&x[0]).op(o);
        }
        Form::StoreLoad(o) => {
            a.push_word(&x[1]).push_word(&x[0]).op(o).push_word(&x[0]).op(o - 1);
        }
        Form::Mstore8 => {
            a.push_word(&x[0]).push(SCRATCH).op(op::MSTORE8).push(SCRATCH).op(op::MLOAD);
        }
        Form::MstoreUnaligned => {
            a.push_word(&x[0]).push(SCRATCH + 1).op(op::MSTORE).push(SCRATCH).op(op::MLOAD);
        }
        Form::Keccak => {
            a.push_word(&x[0]).push(SCRATCH).op(op::MSTORE).push_word(&x[1]).push(SCRATCH).op(op::KECCAK256);
        }
        Form::Dup(n) | Form::SwapTop(n) | Form::SwapDeep(n) => {
            for i in 0..17u64 {
                a.push(0x1111 * (i + 1));
            }
            match e.form {
                Form::Dup(_) => {
                    a.op(0x7f + n);
                    // result = top; then drop the 17 originals after storing (done by caller via swap)
                }
                Form::SwapTop(_) => {
                    a.op(0x8f + n);
                }
                _ => {
                    a.op(0x8f + n);
                    for _ in 0..n {
                        a.op(op::POP);
                    }
                }
            }
        }
        Form::Push(n) => {
            let imm: Vec<u8> = (0..n).map(|i| 0x81 + i).collect();
            a.push_exact(&imm);
        }
    }
}

/// Items left beneath the result by an evaluation (to be popped after the result is stored).
fn leftovers(e: &Eval) -> usize {
    match e.form {
        Form::Dup(_) => 17,
        Form::SwapTop(_) => 16,
        Form::SwapDeep(n) => 16 - n as usize,
        _ => 0,
    }
}

fn batch_program(evals: &[Eval]) -> Vec<u8> {
    let mut a = Asm::new();
    for (i, e) in evals.iter().enumerate() {
        emit_eval(&mut a, e);
        a.push(RESULTS + 32 * i as u64).op(op::MSTORE);
        for _ in 0..leftovers(e) {
            a.op(op::POP);
        }
    }
    a.push(32 * evals.len() as u64).push(RESULTS).op(op::RETURN);
    a.finish()
}

fn eval_desc(e: &Eval) -> String {
    format!("{:?}({})", e.form, e.args.iter().map(|x| format!("0x{x:x}")).collect::<Vec<_>>().join(", "))
}

pub struct Layer1 {
    evals: Vec<Eval>,
    batch: usize,
    calldata: Vec<u8>,
    summary: Value,
}

impl Layer1 {
    pub fn new(tier: &str) -> Layer1 {
        let b = boundary_words();
        let mut evals = vec![];
        let mut per_form: BTreeMap<String, u64> = BTreeMap::new();
        let mut add = |form: Form, args: Vec<Word>, evals: &mut Vec<Eval>| {
            let key = match form {
                Form::Un(o) => format!("unary 0x{o:02x}"),
                Form::Bin(o) => format!("binary 0x{o:02x}"),
                Form::Tern(o) => format!("ternary 0x{o:02x}"),
                Form::StoreLoad(o) => format!("store/load round trip 0x{o:02x}"),
                Form::Mstore8 => "mstore8 + mload".to_string(),
                Form::MstoreUnaligned => "unaligned mstore + mload".to_string(),
                Form::Keccak => "keccak256 of a word prefix".to_string(),
                Form::Dup(_) => "dup1..16".to_string(),
                Form::SwapTop(_) | Form::SwapDeep(_) => "swap1..16 (both swapped positions)".to_string(),
                Form::Push(_) => "push0..32".to_string(),
            };
            *per_form.entry(key).or_default() += 1;
            evals.push(Eval { form, args });
        };
        for o in [op::ISZERO, op::NOT, op::CLZ, op::CALLDATALOAD] {
            for x in &b {
                add(Form::Un(o), vec![x.clone()], &mut evals);
            }
        }
        for x in &b {
            add(Form::Mstore8, vec![x.clone()], &mut evals);
            add(Form::MstoreUnaligned, vec![x.clone()], &mut evals);
            for s in [0u64, 1, 31, 32] {
                add(Form::Keccak, vec![x.clone(), w(s)], &mut evals);
            }
        }
        let bin = [
            op::ADD, op::MUL, op::SUB, op::DIV, op::SDIV, op::MOD, op::SMOD, op::EXP, op::SIGNEXTEND, op::LT, op::GT,
            op::SLT, op::SGT, op::EQ, op::AND, op::OR, op::XOR, op::BYTE, op::SHL, op::SHR, op::SAR,
        ];
        for o in bin {
            for x in &b {
                for y in &b {
                    add(Form::Bin(o), vec![x.clone(), y.clone()], &mut evals);
                }
            }
        }
        for o in [op::SSTORE, op::TSTORE] {
            for k in &b {
                for v in &b {
                    add(Form::StoreLoad(o), vec![k.clone(), v.clone()], &mut evals);
                }
            }
        }
        // ternary: full ℬ³ in the thorough tier, a 16-word sub-alphabet in the quick tier
        let tb: Vec<Word> = if tier == "thorough" {
            b.clone()
        } else {
            let pick = [0usize, 1, 2, 9, 10, 14, 15, 20, 21, 23, 24, 29, 30, 31, 35, 36];
            pick.iter().map(|i| b[*i].clone()).collect()
        };
        for o in [op::ADDMOD, op::MULMOD] {
            for x in &tb {
                for y in &tb {
                    for z in &tb {
                        add(Form::Tern(o), vec![x.clone(), y.clone(), z.clone()], &mut evals);
                    }
                }
            }
        }
        for n in 1..=16u8 {
            add(Form::Dup(n), vec![], &mut evals);
            add(Form::SwapTop(n), vec![], &mut evals);
            add(Form::SwapDeep(n), vec![], &mut evals);
        }
        for n in 0..=32u8 {
            add(Form::Push(n), vec![], &mut evals);
        }
        let summary = json!({
            "boundary_alphabet_size": b.len(),
            "ternary_alphabet_size": tb.len(),
            "boundary_alphabet": b.iter().map(|x| format!("0x{x:x}")).collect::<Vec<_>>(),
            "evaluations_per_form": per_form,
            "batch": 48,
        });
        Layer1 { evals, batch: 48, calldata: (1u8..=40).collect(), summary }
    }
}

impl Gen for Layer1 {
    fn name(&self) -> String {
        "c17/layer1-instruction-grids".into()
    }
    fn len(&self) -> usize {
        self.evals.len().div_ceil(self.batch)
    }
    fn get(&self, i: usize) -> Case {
        let es = &self.evals[i * self.batch..((i + 1) * self.batch).min(self.evals.len())];
        Case {
            code: batch_program(es),
            calls: vec![self.calldata.clone()],
            desc: format!("batch of {} evaluations starting with {}", es.len(), eval_desc(&es[0])),
            weight: es.len() as u64,
        }
    }
    fn split(&self, c: &Case) -> Vec<Case> {
        // find the batch again by its code, then offer every evaluation on its own
        for i in 0..self.len() {
            let es = &self.evals[i * self.batch..((i + 1) * self.batch).min(self.evals.len())];
            if batch_program(es) == c.code {
                return es
                    .iter()
                    .map(|e| Case {
                        code: batch_program(std::slice::from_ref(e)),
                        calls: vec![self.calldata.clone()],
                        desc: eval_desc(e),
                        weight: 1,
                    })
                    .collect();
            }
        }
        vec![]
    }
    fn describe(&self) -> Value {
        self.summary.clone()
    }
}

// ------------------------------------------------------------------------------ layer 2

/// One symbol of the layer-2 instruction alphabet; `bytes(body_start)` gives its encoding.
#[derive(Clone, Copy, Debug)]
pub enum Sym {
    Op(u8),
    /// PUSH1 (body_start + 3): a plausible jump target inside the body
    PushRel3,
    Push(&'static [u8]),
}

const L2_ALPHABET: &[Sym] = &[
    Sym::Push(&[0x5f]),
    Sym::Push(&[0x60, 0x01]),
    Sym::PushRel3,
    Sym::Push(&[0x60, 0x20]),
    Sym::Push(&[0x61, 0x5b, 0x01]),
    Sym::Push(&[
        0x7f, 0xff, 0xff, 0xff, 0xff, 0xff, 0xff, 0xff, 0xff, 0xff, 0xff, 0xff, 0xff, 0xff, 0xff, 0xff, 0xff, 0xff, 0xff, 0xff, 0xff, 0xff, 0xff, 0xff, 0xff, 0xff, 0xff, 0xff, 0xff, 0xff, 0xff, 0xff, 0xff,
    ]),
    Sym::Op(op::DUP1),
    Sym::Op(op::DUP2),
    Sym::Op(op::SWAP1),
    Sym::Op(op::POP),
    Sym::Op(op::ADD),
    Sym::Op(op::SUB),
    Sym::Op(op::LT),
    Sym::Op(op::ISZERO),
    Sym::Op(op::MLOAD),
    Sym::Op(op::MSTORE),
    Sym::Op(op::MSTORE8),
    Sym::Op(op::MCOPY),
    Sym::Op(op::MSIZE),
    Sym::Op(op::SLOAD),
    Sym::Op(op::SSTORE),
    Sym::Op(op::TLOAD),
    Sym::Op(op::TSTORE),
    Sym::Op(op::CALLDATALOAD),
    Sym::Op(op::CALLDATASIZE),
    Sym::Op(op::CALLDATACOPY),
    Sym::Op(op::CODESIZE),
    Sym::Op(op::CODECOPY),
    Sym::Op(op::KECCAK256),
    Sym::Op(op::JUMP),
    Sym::Op(op::JUMPI),
    Sym::Op(op::JUMPDEST),
    Sym::Op(op::PC),
    Sym::Op(op::RETURN),
    Sym::Op(op::REVERT),
    Sym::Op(op::STOP),
    Sym::Op(op::INVALID),
    Sym::Op(op::RETURNDATASIZE),
    Sym::Op(op::RETURNDATACOPY),
];

/// Stack / control-flow sub-alphabet for the longer programs of the thorough tier.
const L2_FLOW_ALPHABET: &[Sym] = &[
    Sym::Push(&[0x5f]),
    Sym::Push(&[0x60, 0x01]),
    Sym::PushRel3,
    Sym::Op(op::DUP1),
    Sym::Op(op::DUP2),
    Sym::Op(op::SWAP1),
    Sym::Op(op::POP),
    Sym::Op(op::ADD),
    Sym::Op(op::ISZERO),
    Sym::Op(op::JUMP),
    Sym::Op(op::JUMPI),
    Sym::Op(op::JUMPDEST),
    Sym::Op(op::PC),
];

const PROLOGUES: [&[u8]; 2] = [&[], &[0x60, 0x20, 0x60, 0x03, 0x60, 0x01]];
const EPILOGUES: [&[u8]; 2] = [&[], &[0x60, 0x40, 0x52, 0x60, 0x60, 0x5f, 0xf3]];

pub struct Layer2 {
    alphabet: &'static [Sym],
    name: String,
    min_len: usize,
    max_len: usize,
    /// number of symbol sequences with length < L, for L in min_len..=max_len+1
    offsets: Vec<usize>,
}

impl Layer2 {
    pub fn new(name: &str, alphabet: &'static [Sym], min_len: usize, max_len: usize) -> Layer2 {
        for s in alphabet {
            if let Sym::Push(b) = s {
                assert_eq!(b.len(), 1 + (b[0] - 0x5f) as usize, "malformed PUSH symbol");
            }
        }
        let mut offsets = vec![0usize];
        for l in min_len..=max_len {
            let last = *offsets.last().unwrap();
            offsets.push(last + alphabet.len().pow(l as u32));
        }
        Layer2 { alphabet, name: name.to_string(), min_len, max_len, offsets }
    }
    fn sequences(&self) -> usize {
        *self.offsets.last().unwrap()
    }
    fn body(&self, mut seq: usize, start: usize) -> (Vec<u8>, Vec<usize>) {
        let li = self.offsets.iter().rposition(|o| *o <= seq).unwrap();
        let len = self.min_len + li;
        seq -= self.offsets[li];
        let k = self.alphabet.len();
        let mut digits = vec![0usize; len];
        for d in digits.iter_mut().rev() {
            *d = seq % k;
            seq /= k;
        }
        let mut out = vec![];
        for d in &digits {
            match self.alphabet[*d] {
                Sym::Op(o) => out.push(o),
                Sym::PushRel3 => out.extend_from_slice(&[0x60, (start + 3) as u8]),
                Sym::Push(b) => out.extend_from_slice(b),
            }
        }
        (out, digits)
    }
}

impl Gen for Layer2 {
    fn name(&self) -> String {
        self.name.clone()
    }
    fn len(&self) -> usize {
        self.sequences() * PROLOGUES.len() * EPILOGUES.len()
    }
    fn get(&self, i: usize) -> Case {
        let variant = i % 4;
        let seq = i / 4;
        let (p, e) = (PROLOGUES[variant / 2], EPILOGUES[variant % 2]);
        let (body, digits) = self.body(seq, p.len());
        let mut code = p.to_vec();
        code.extend_from_slice(&body);
        code.extend_from_slice(e);
        Case {
            code,
            calls: vec![vec![], (1u8..=36).collect()],
            desc: format!("symbols {:?} prologue {} epilogue {}", digits, variant / 2, variant % 2),
            weight: 1,
        }
    }
    fn describe(&self) -> Value {
        json!({
            "alphabet_size": self.alphabet.len(),
            "alphabet": self.alphabet.iter().map(|s| match s {
                Sym::Op(o) => format!("{o:02x}"),
                Sym::PushRel3 => "60<body_start+3>".to_string(),
                Sym::Push(b) => hex::encode(b),
            }).collect::<Vec<_>>(),
            "lengths": [self.min_len, self.max_len],
            "symbol_sequences": self.sequences(),
            "prologues": PROLOGUES.iter().map(hex::encode).collect::<Vec<_>>(),
            "epilogues": EPILOGUES.iter().map(hex::encode).collect::<Vec<_>>(),
            "calldatas": ["", hex::encode((1u8..=36).collect::<Vec<u8>>())],
            "messages_per_program": "two consecutive messages to the same contract (storage persists, transient storage must not)",
        })
    }
}

// ------------------------------------------------------------------------------ layer 3

pub struct Layer3 {
    cases: Vec<Case>,
    families: BTreeMap<String, u64>,
}

const P4: [u64; 4] = [0, 1, 2, 33];

fn ret_word_at_0(a: &mut Asm) {
    a.push(0).op(op::MSTORE).push(32).push(0).op(op::RETURN);
}

impl Layer3 {
    pub fn new() -> Layer3 {
        let mut cases = vec![];
        let mut families: BTreeMap<String, u64> = BTreeMap::new();
        let cds = || vec![vec![], (1u8..=36).collect::<Vec<u8>>()];
        let mut add = |fam: &str, desc: String, code: Vec<u8>, calls: Vec<Vec<u8>>, cases: &mut Vec<Case>| {
            *families.entry(fam.to_string()).or_default() += 1;
            cases.push(Case { code, calls, desc: format!("{fam} {desc}"), weight: 1 });
        };

        // (1) counted loop accumulating into storage: for i in 0..n { s[slot] += step }
        for &n in &P4 {
            for &step in &P4 {
                for &slot in &P4 {
                    for step_from_calldata in [false, true] {
                        let mut a = Asm::new();
                        a.push(0);
                        a.dest("loop");
                        a.push(n).op(op::DUP2).op(op::LT).op(op::ISZERO).jumpi("end");
                        a.push(slot).op(op::SLOAD);
                        if step_from_calldata {
                            a.op(op::CALLDATASIZE);
                        } else {
                            a.push(step);
                        }
                        a.op(op::ADD).push(slot).op(op::SSTORE);
                        a.push(1).op(op::ADD).jump("loop");
                        a.dest("end");
                        a.op(op::POP).push(slot).op(op::SLOAD);
                        ret_word_at_0(&mut a);
                        add("counted-loop", format!("n={n} step={step} slot={slot} calldatasize-step={step_from_calldata}"), a.finish(), cds(), &mut cases);
                    }
                }
            }
        }

        // (2) memcpy: fill 6 words, MCOPY(dst, src, len), then a byte loop MLOAD/BYTE/MSTORE8
        for &src in &P4 {
            for &dst in &P4 {
                for &len in &P4 {
                    let mut a = Asm::new();
                    // fill: for i in 0..6 { mem[32*i] = (i+1) * 0x0101..01 }
                    let ones = refevm::word_from_be(&[1u8; 32]);
                    a.push(0);
                    a.dest("fill");
                    a.push(6).op(op::DUP2).op(op::LT).op(op::ISZERO).jumpi("filled");
                    a.op(op::DUP1).push(1).op(op::ADD).push_word(&ones).op(op::MUL); // value
                    a.op(op::DUP2).push(32).op(op::MUL).op(op::MSTORE);
                    a.push(1).op(op::ADD).jump("fill");
                    a.dest("filled").op(op::POP);
                    a.push(len).push(src).push(64 + dst).op(op::MCOPY);
                    // byte loop: for j in 0..len { mem8[224 + dst + j] = byte0(mload(src + j)) }
                    a.push(0);
                    a.dest("copy");
                    a.push(len).op(op::DUP2).op(op::LT).op(op::ISZERO).jumpi("copied");
                    a.op(op::DUP1).push(src).op(op::ADD).op(op::MLOAD).push(0).op(op::BYTE);
                    a.op(op::DUP2).push(224 + dst).op(op::ADD).op(op::MSTORE8);
                    a.push(1).op(op::ADD).jump("copy");
                    a.dest("copied").op(op::POP);
                    a.op(op::MSIZE).push(0).op(op::RETURN);
                    add("memcpy", format!("src={src} dst={dst} len={len}"), a.finish(), vec![vec![]], &mut cases);
                }
            }
        }

        // (3) jump table: dest = table + 9*idx + skew; arm i stores (0x5b + i) into slot 0
        for &idx in &P4 {
            for &skew in &P4 {
                for (idx_from_calldata, high) in [(false, 0u32), (true, 0), (false, 32), (false, 64), (false, 255)] {
                    let mut a = Asm::new();
                    if idx_from_calldata {
                        // first call-data byte
                        a.push(0).op(op::CALLDATALOAD).push(248).op(op::SHR);
                    } else {
                        a.push(idx);
                    }
                    a.push(9).op(op::MUL).push_label("table").op(op::ADD).push(skew).op(op::ADD);
                    if high > 0 {
                        // a destination whose low bits are plausible but which is >= 2^32
                        a.push_word(&two_pow(high)).op(op::ADD);
                    }
                    a.op(op::JUMP);
                    a.label("table");
                    for i in 0..3u8 {
                        // 9 bytes per arm: JUMPDEST PUSH1 v PUSH0 SSTORE PUSH2 end JUMP
                        a.op(op::JUMPDEST).push_exact(&[0x5b + i]).push(0).op(op::SSTORE).jump("end");
                    }
                    a.dest("end");
                    a.push(0).op(op::SLOAD);
                    ret_word_at_0(&mut a);
                    let calls = if idx_from_calldata {
                        vec![vec![idx as u8], vec![], vec![2, 9, 9]]
                    } else {
                        vec![vec![]]
                    };
                    add("jump-table", format!("idx={idx} skew={skew} idx-from-calldata={idx_from_calldata} plus={}", if high > 0 { format!("2^{high}") } else { "0".into() }), a.finish(), calls, &mut cases);
                }
            }
        }

        // (4) nested conditionals over (a, b, c)
        for &x in &P4 {
            for &y in &P4 {
                for &z in &P4 {
                    let mut a = Asm::new();
                    // if x < y { if z == 0 { r=1 } else { r=2 } } else { if (x-y) s< (0-z) { r=3 } else { r=4 } }
                    a.push(y).push(x).op(op::LT).jumpi("lt");
                    a.push(z).push(0).op(op::SUB).push(y).push(x).op(op::SUB).op(op::SLT).jumpi("r3");
                    a.push(4).jump("out");
                    a.dest("r3").push(3).jump("out");
                    a.dest("lt").push(z).op(op::ISZERO).jumpi("r1");
                    a.push(2).jump("out");
                    a.dest("r1").push(1);
                    a.dest("out");
                    a.op(op::DUP1).push(1).op(op::SSTORE);
                    a.op(op::DUP1).push(2).op(op::TSTORE).push(2).op(op::TLOAD).op(op::ADD);
                    // revert instead of return when z == 33 (storage must then stay untouched)
                    a.push(0).op(op::MSTORE).push(32).push(0);
                    if z == 33 {
                        a.op(op::REVERT);
                    } else {
                        a.op(op::RETURN);
                    }
                    add("nested-conditionals", format!("a={x} b={y} c={z}"), a.finish(), cds(), &mut cases);
                }
            }
        }

        // (5) memory growth up to 64 KiB: touch offset k*unit with one of several instructions,
        // then return MSIZE and the hash of the whole memory
        let touches: [(&str, &[u8]); 8] = [
            ("mstore8", &[op::MSTORE8]),
            ("mstore", &[op::MSTORE]),
            ("mload", &[op::MLOAD, op::POP]),
            ("mcopy-dst", &[op::MCOPY]),
            ("calldatacopy", &[op::CALLDATACOPY]),
            ("codecopy", &[op::CODECOPY]),
            ("keccak", &[op::KECCAK256, op::POP]),
            ("returndatacopy0", &[op::RETURNDATACOPY]),
        ];
        for (tname, tops) in touches {
            for &k in &P4 {
                for unit in [1u64, 31, 32, 1985] {
                    let off = k * unit;
                    let mut a = Asm::new();
                    a.push(0xab).push(5).op(op::MSTORE8);
                    match tname {
                        "mstore8" | "mstore" => {
                            a.push(0xcd).push(off);
                        }
                        "mload" => {
                            a.push(off);
                        }
                        "mcopy-dst" => {
                            a.push(7).push(0).push(off);
                        }
                        "calldatacopy" | "codecopy" => {
                            a.push(40).push(2).push(off);
                        }
                        "keccak" => {
                            a.push(k).push(off);
                        }
                        _ => {
                            a.push(0).push(0).push(off);
                        }
                    }
                    a.ops(tops);
                    a.op(op::MSIZE).op(op::DUP1).push(0).op(op::KECCAK256); // [msize, hash]
                    a.push(0).op(op::MSTORE).push(32).op(op::MSTORE).push(64).push(0).op(op::RETURN);
                    add("memory-growth", format!("{tname} offset={off}"), a.finish(), vec![(1u8..=36).collect()], &mut cases);
                }
            }
        }
        // (7) copies over dirty memory: bytes beyond the end of call data / code must read as zero
        let far = max_word();
        for (cname, copcode) in [("calldatacopy", op::CALLDATACOPY), ("codecopy", op::CODECOPY), ("mcopy", op::MCOPY)] {
            for &d in &P4 {
                for &n in &P4 {
                    let mut srcs: Vec<Word> = P4.iter().map(|x| w(*x)).collect();
                    srcs.push(w(35));
                    srcs.push(far.clone());
                    // words whose low 64 bits are a small in-range offset (limb-truncation class)
                    srcs.push(two_pow(64));
                    srcs.push(two_pow(64) + w(3));
                    srcs.push(two_pow(128) + w(1));
                    srcs.push(two_pow(255) + w(7));
                    for src in srcs {
                        if copcode == op::MCOPY && src > w(u32::MAX as u64) {
                            continue;
                        }
                        let mut a = Asm::new();
                        for i in 0..4u64 {
                            a.push_word(&max_word()).push(32 * i).op(op::MSTORE);
                        }
                        a.push(n).push_word(&src).push(d).op(copcode);
                        a.op(op::MSIZE).push(0).op(op::RETURN);
                        add("dirty-copy", format!("{cname} dest={d} src=0x{src:x} size={n}"), a.finish(), vec![(1u8..=36).collect()], &mut cases);
                    }
                }
            }
        }

        // (8) persistence: storage survives the message, transient storage does not
        for &k in &P4 {
            for &v in &P4 {
                let mut a = Asm::new();
                a.push(k).op(op::TLOAD).push(0).op(op::MSTORE);
                a.push(k).op(op::SLOAD).push(32).op(op::MSTORE);
                a.push(v).op(op::CALLDATASIZE).op(op::ADD).op(op::DUP1).op(op::DUP1); // v + calldatasize, three copies
                a.push(k).op(op::TSTORE).push(k).op(op::SSTORE).op(op::POP);
                a.push(k).op(op::TLOAD).push(64).op(op::MSTORE);
                a.push(k).op(op::SLOAD).push(96).op(op::MSTORE);
                a.push(128).push(0).op(op::RETURN);
                add("persistence", format!("key={k} value={v}+calldatasize"), a.finish(), vec![vec![], (1u8..=36).collect(), vec![7]], &mut cases);
            }
        }

        // (6) deep stack: h items, one instruction that adds an item, then report the top of the
        // stack (stack limit 1024: Yellow Paper 9.1)
        let growers: [(&str, &[u8]); 10] = [
            ("dup1", &[op::DUP1]),
            ("dup16", &[0x8f]),
            ("push0", &[op::PUSH0]),
            ("push1", &[op::PUSH1, 0x2a]),
            ("push32", &[op::PUSH32, 1, 2, 3, 4, 5, 6, 7, 8, 9, 10, 11, 12, 13, 14, 15, 16, 17, 18, 19, 20, 21, 22, 23, 24, 25, 26, 27, 28, 29, 30, 31, 32]),
            ("pc", &[op::PC]),
            ("msize", &[op::MSIZE]),
            ("calldatasize", &[op::CALLDATASIZE]),
            ("codesize", &[op::CODESIZE]),
            ("returndatasize", &[op::RETURNDATASIZE]),
        ];
        for (gname, gops) in growers {
            for h in [1022usize, 1023, 1024] {
                let mut a = Asm::new();
                for i in 0..h {
                    if i % 2 == 0 {
                        a.op(op::PUSH0);
                    } else {
                        a.op(op::CALLDATASIZE);
                    }
                }
                a.ops(gops);
                // drop the two items beneath the top first: reporting needs one free slot even
                // if the instruction (wrongly) left 1025 items
                a.op(op::SWAP1).op(op::POP).op(op::SWAP1).op(op::POP);
                ret_word_at_0(&mut a);
                add("deep-stack", format!("{gname} at height {h}"), a.finish(), vec![(1u8..=36).collect()], &mut cases);
            }
        }
        Layer3 { cases, families }
    }
}

impl Gen for Layer3 {
    fn name(&self) -> String {
        "c17/layer3-structured-programs".into()
    }
    fn len(&self) -> usize {
        self.cases.len()
    }
    fn get(&self, i: usize) -> Case {
        self.cases[i].clone()
    }
    fn describe(&self) -> Value {
        json!({"families": self.families, "parameter_values": P4})
    }
}

// ------------------------------------------------------------------------------ run / replay

fn layer_json(s: &LayerStats, distinct: usize) -> Value {
    json!({
        "layer": s.name, "cases_enumerated": s.cases, "cases_run_on_the_actor": s.cases_run,
        "messages_compared": s.evaluations, "instruction_evaluations_compared": s.instr_evaluations,
        "excluded": s.excluded, "distinct_nontrivial_programs": distinct,
        "outcomes": s.outcome_hist, "complete": !s.capped, "wall_s": s.wall_s, "describe": s.describe,
    })
}

pub fn run(tier: &str) -> ! {
    let thorough = tier == "thorough";
    let t0 = Instant::now();
    if let Err(e) = evmkit::self_test() {
        eprintln!("C17: machinery self-test failed: {e}");
        std::process::exit(2);
    }
    let threads = evmkit::threads();
    let cap_s: f64 = if thorough { 1300.0 } else { 26.0 };
    let deadline = Some(t0 + std::time::Duration::from_secs_f64(cap_s));
    let mut run = mcx::evidence::Run::new("C17", tier, "exploration");
    run.assumptions = vec![
        "mcvm mirrors the FVM message semantics (value transfer, rollback, read-only propagation)".into(),
        "refevm (checks/src/refevm.rs) is the specification: Yellow Paper + EIP-145/211/1153/3855/5656/7939, written independently of actors/evm".into(),
        "gas does not exist in the native VM; programs whose reference run exceeds 10^4 steps or touches memory between 4 MiB and 2^32 are excluded and counted".into(),
        "hook H1 (step budget 200000, memory cap 64 MiB) is armed as a safety net only; reaching it where refevm defines an outcome is reported as a disagreement".into(),
        "failure kinds are compared by the exit-code constants exported by fil_actor_evm, with INVALID and undefined opcodes folded into one kind and RETURNDATACOPY out-of-bounds folded into the memory-access kind".into(),
    ];
    let l1 = Layer1::new(tier);
    let l2 = Layer2::new("c17/layer2-all-short-programs", L2_ALPHABET, 0, if thorough { 4 } else { 3 });
    let fl = if thorough { 5 } else { 4 };
    let l2f = Layer2::new("c17/layer2-flow-subset", L2_FLOW_ALPHABET, fl, fl);
    let l3 = Layer3::new();
    let gens: Vec<&dyn Gen> = vec![&l1, &l3, &l2, &l2f];
    let mut layers = vec![];
    let mut evaluations = 0u64;
    let mut keys: Vec<[u8; 16]> = vec![];
    let mut exclusions: BTreeMap<String, u64> = BTreeMap::new();
    let mut samples = vec![];
    let mut complete = true;
    for g in gens {
        let mut s = run_layer(g, threads, deadline);
        eprintln!(
            "[C17] {}: cases={} run={} messages={} instr-evals={} excluded={:?} violations={} complete={} wall={:.1}s",
            s.name, s.cases, s.cases_run, s.evaluations, s.instr_evaluations, s.excluded, s.violations.len(), !s.capped, s.wall_s
        );
        evaluations += s.instr_evaluations.max(s.evaluations);
        for (k, v) in &s.excluded {
            *exclusions.entry(k.clone()).or_default() += v;
        }
        for (_, c, msg) in &s.violations {
            if msg.starts_with("MACHINERY") {
                eprintln!("C17: {msg} — program {}", hex::encode(&c.code));
                std::process::exit(2);
            }
            run.extra_violations.push(ViolationReport {
                scenario: s.name.clone(),
                base: "genesis+account".into(),
                path: vec![PathStep { action: case_json(c), faults: vec![] }],
                message: format!("{} — program {} ({})", msg, hex::encode(&c.code), c.desc),
            });
        }
        let mut ks = std::mem::take(&mut s.nontrivial_keys);
        ks.sort();
        ks.dedup();
        samples.extend(s.samples.iter().take(2).cloned());
        complete &= !s.capped;
        layers.push(layer_json(&s, ks.len()));
        keys.extend(ks);
    }
    keys.sort();
    keys.dedup();
    let cx = &mut run.coverage_extra;
    cx.insert("evaluations".into(), json!(evaluations));
    cx.insert("distinct_nontrivial".into(), json!(keys.len()));
    cx.insert("rule".into(), json!(
        "layer 1: every (instruction, operand tuple) over the boundary alphabet, 48 evaluations per deployed contract, each result word compared; \
         layer 2: every symbol sequence up to the length bound x 2 prologues (empty stack / three items) x 2 epilogues (none / store top of stack and return 96 bytes of memory), two consecutive messages (empty and 36-byte call data); \
         layer 3: every parameter tuple of five program families. evaluations = instruction evaluations (layer 1) + messages (layers 2, 3) whose outcome, data and storage slots 0..3 were compared with refevm. \
         A program is non-trivial when the reference execution of at least one of its messages completed >= 2 instructions; distinct = distinct code bytes (blake2b-128 of the deployed code, de-duplicated across all layers)."));
    cx.insert("samples".into(), Value::Array(samples));
    cx.insert("layers".into(), Value::Array(layers));
    cx.insert("exclusions".into(), json!(exclusions));
    cx.insert("exhaustive".into(), json!(complete && run.extra_violations.is_empty()));
    cx.insert("threads".into(), json!(threads));
    cx.insert("wall_cap_s".into(), json!(cap_s));
    // the verdict line printed by `finish` takes `exhaustive` from the reports
    run.reports.push(mcx::Report { scenario: "c17/enumeration".into(), exhaustive: complete, ..Default::default() });
    run.finish()
}

/// Replay a violation file written by this check; `v` is the parsed replay JSON.
pub fn replay(v: &Value) -> ! {
    let Some(c) = v["path"].get(0).and_then(|s| case_from_json(&s["action"])) else {
        eprintln!("C17 replay: malformed replay file");
        std::process::exit(2)
    };
    let store = mcvm::Store::new();
    let world = World::new(&store);
    let b = Bench::new(&world);
    let r = b.run(&c);
    if let Some(e) = r.excluded {
        println!("NOT-REPRODUCED: the reference model excludes this program now ({e})");
        std::process::exit(0);
    }
    match r.violation {
        Some(m) => {
            println!("REPRODUCED property=C17 {m} — program {}", hex::encode(&c.code));
            std::process::exit(1)
        }
        None => {
            println!("NOT-REPRODUCED: the recorded program agrees with the reference model on this tree");
            std::process::exit(0)
        }
    }
}
