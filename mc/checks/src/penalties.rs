//! C15 — penalty ledger: what a miner is charged for faults, disputes, consensus faults and early
//! terminations, recomputed per event and compared with what was burnt / rewarded / recorded as
//! fee debt. Fee magnitudes use the reward/power estimates the implementation itself passed down
//! (DESIGN §3 C15 limits); the FIP-0098 termination fee formula is recomputed independently.
use crate::miner::*;
use fil_actor_miner::{DeferredCronEventParams, Method as MM, WindowedPoSt};
use fil_actor_power::State as PowerState;
use fil_actor_reward::State as RewardState;
use fil_actors_runtime::reward::FilterEstimate;
use fvm_shared::ActorID;
use fvm_shared::bigint::BigInt;
use fvm_shared::econ::TokenAmount;
use mcvm::{Inv, Vm};
use num_traits::Zero;
use std::collections::BTreeMap;

pub const BURNT: ActorID = 99;
pub const EPOCHS_IN_DAY: i64 = 2880;

#[derive(Clone, Debug)]
pub struct Est {
    pub reward: FilterEstimate,
    pub qa: FilterEstimate,
}

/// The estimates a message-time penalty uses (what the reward / power actors report now).
pub fn est_now(vm: &Vm) -> Est {
    let r: RewardState = vm.state_of(2).unwrap();
    let p: PowerState = vm.state_of(4).unwrap();
    Est { reward: r.this_epoch_reward_smoothed, qa: p.this_epoch_qa_power_smoothed }
}

/// The estimates the power actor passed to miner `m`'s cron callback(s) in this tick.
pub fn est_from_tick(tick: &Inv, m: ActorID) -> Option<Est> {
    for i in tick.flat() {
        if i.to_id() == Some(m) && i.method == MM::OnDeferredCronEvent as u64 {
            let p: DeferredCronEventParams = i.params.as_ref()?.deserialize().ok()?;
            return Some(Est { reward: p.reward_smoothed, qa: p.quality_adj_power_smoothed });
        }
    }
    None
}

/// FF: projected reward of `qa` power over the continued-fault projection period.
pub fn ff(e: &Est, qa: &BigInt) -> TokenAmount {
    fil_actor_miner::pledge_penalty_for_continued_fault(&e.reward, &e.qa, qa)
}

/// FIP-0098 termination fee, recomputed independently.
pub fn term_fee(ip: &TokenAmount, age: i64, fault_fee: &TokenAmount) -> TokenAmount {
    let simple = (ip * 85u32).div_floor(1000u32);
    let by_age = (&simple * age).div_floor(140 * EPOCHS_IN_DAY);
    let base = std::cmp::min(simple, by_age);
    let floor_abs = (ip * 2u32).div_floor(100u32);
    let floor_ff = (fault_fee * 105u32).div_floor(100u32);
    std::cmp::max(base, std::cmp::max(floor_abs, floor_ff))
}

/// The property's bounds on a termination fee: at least 2% of the pledge, at most the cap.
pub fn term_fee_in_bounds(fee: &TokenAmount, ip: &TokenAmount, fault_fee: &TokenAmount) -> bool {
    let lo = (ip * 2u32).div_floor(100u32);
    let hi = std::cmp::max((ip * 85u32).div_floor(1000u32), (fault_fee * 105u32).div_floor(100u32));
    *fee >= lo && *fee <= hi
}

/// (burnt by m, paid by m to `reporter`) over everything that took effect in `inv`.
pub fn flows(inv: &Inv, m: ActorID, reporter: Option<ActorID>) -> (TokenAmount, TokenAmount) {
    let mut burn = TokenAmount::zero();
    let mut rew = TokenAmount::zero();
    for i in inv.effective() {
        if i.from == m && i.method == 0 {
            if i.to_id() == Some(BURNT) {
                burn += &i.value;
            } else if reporter.is_some() && i.to_id() == reporter {
                rew += &i.value;
            }
        }
    }
    (burn, rew)
}

/// sector -> termination epoch for everything awaiting early-termination processing
pub fn early_queue(v: &MinerView) -> BTreeMap<u64, i64> {
    let mut m = BTreeMap::new();
    for d in &v.dls {
        for p in &d.parts {
            for (e, ss) in &p.early_terminated {
                for s in ss {
                    m.insert(*s, *e);
                }
            }
        }
    }
    m
}

/// Sum of termination fees for the sectors processed between two views. `added` are sectors
/// that entered the queue during the event (sector -> termination epoch).
pub fn term_fees_processed(pre: &MinerView, post: &MinerView, added: &BTreeMap<u64, i64>, e: &Est) -> Result<(TokenAmount, usize), String> {
    let mut all = early_queue(pre);
    for (s, ep) in added {
        all.insert(*s, *ep);
    }
    let after = early_queue(post);
    let mut total = TokenAmount::zero();
    let mut n = 0;
    for (s, ep) in all {
        if after.contains_key(&s) {
            continue;
        }
        let info = pre.sectors.get(&s).ok_or_else(|| format!("terminated sector {s} has no info"))?;
        let qa = pre.sector_power(info).1;
        let fault_fee = ff(e, &qa);
        let fee = term_fee(&info.initial_pledge, ep - info.activation, &fault_fee);
        if !term_fee_in_bounds(&fee, &info.initial_pledge, &fault_fee) {
            return Err(format!("termination fee {fee} of sector {s} outside [2% of pledge, cap]"));
        }
        total += fee;
        n += 1;
    }
    Ok((total, n))
}

/// Penalty base of a dispute of PoSt `post_index` in deadline `dl` (from the snapshot it vouched for).
pub fn dispute_charge(vm: &Vm, m: ActorID, dl: u64, post_index: u64, e: &Est) -> Option<TokenAmount> {
    let st: fil_actor_miner::State = vm.state_of(m)?;
    let dls = st.load_deadlines(&vm.store).ok()?;
    let d = dls.load_deadline(&vm.store, dl).ok()?;
    let posts = d.optimistic_proofs_snapshot_amt(&vm.store).ok()?;
    let post: WindowedPoSt = posts.get(post_index).ok()??.clone();
    let snap = d.partitions_snapshot_amt(&vm.store).ok()?;
    let mut qa = BigInt::zero();
    for pi in post.partitions.iter() {
        let p = snap.get(pi).ok()??;
        qa += p.active_power().qa;
    }
    let base = fil_actor_miner::pledge_penalty_for_invalid_windowpost(&e.reward, &e.qa, &qa);
    Some(base + TokenAmount::from_whole(4))
}

/// Penalty of a consensus fault report.
pub fn consensus_fault_charge(e: &Est) -> (TokenAmount, TokenAmount) {
    let epoch_reward = TokenAmount::from_atto(e.reward.estimate());
    let penalty = (&epoch_reward * 5u32).div_floor(5u32);
    // reporter share: reward / (expected leaders x default share)
    let slasher = fil_actor_miner::reward_for_consensus_slash_report(&epoch_reward);
    (penalty, slasher)
}

/// "every charged amount is either burnt at once or recorded as fee debt": the identity
/// burnt + paid to reporter + change of fee debt == charged.
pub fn check_identity(what: &str, pre: &MinerView, post: &MinerView, inv: &Inv, reporter: Option<ActorID>, charged: &TokenAmount) -> Result<(), String> {
    let (burn, rew) = flows(inv, pre.id, reporter);
    let d_debt = &post.st.fee_debt - &pre.st.fee_debt;
    if charged.is_negative() {
        return Err(format!("{what}: negative penalty {charged}"));
    }
    if post.st.fee_debt.is_negative() {
        return Err(format!("{what}: negative fee debt"));
    }
    let lhs = &burn + &rew + &d_debt;
    if &lhs != charged {
        return Err(format!("{what}: charged {charged} but burnt {burn} + paid to reporter {rew} + change of fee debt {d_debt} = {lhs}"));
    }
    // nothing flows back to the miner out of the burnt-funds account
    for i in inv.flat() {
        if i.from == BURNT {
            return Err(format!("{what}: funds left the burnt-funds account: {}", i.brief()));
        }
    }
    Ok(())
}
