//! C14 — miner funds unlock only on schedule; withdrawals never touch collateral. DESIGN §3 C14.
//! Layer 1 (component): the real `State::{add_locked_funds, unlock_vested_funds,
//! unlock_vested_and_unvested_funds}` over the real `VestingFunds` against a BTreeMap model.
//! Layer 2 (actor): rewards, withdrawals by every party, beneficiary quota/expiry, penalties and
//! time over the first vesting days under MAINNET policy (sparse ticking).
use crate::chain::*;
use crate::miner::{award, report_fault, withdraw};
use crate::util::*;
use fil_actor_miner::{
    ChangeBeneficiaryParams, Method as MM, MinerInfo, REWARD_VESTING_SPEC, State as MinerState,
    WithdrawBalanceReturn,
};
use fil_actors_runtime::runtime::Policy;
use fvm_ipld_encoding::CborStore;
use fvm_shared::ActorID;
use fvm_shared::econ::TokenAmount;
use fvm_shared::sector::RegisteredPoStProof;
use mcvm::{Store, Vm};
use mcx::{Bounds, Key, Scenario, Step};
use multihash_codetable::Code;
use num_traits::Zero;
use fvm_shared::bigint as num_bigint_shim;
use serde::{Deserialize, Serialize};
use serde_json::json;
use std::collections::BTreeMap;

pub const DAY: i64 = 2880;
pub const PERIOD: i64 = 180 * DAY;
pub const QUANT: i64 = 1440;

// ------------------------------------------------------------------ layer 1: component

#[derive(Clone, Debug, Serialize, Deserialize)]
pub enum VAct {
    Add(i64),
    UnlockVested,
    /// 0: 1 atto, 1: first entry, 2: first entry + 1, 3: everything, 4: everything + 1
    Penalty(u8),
    Advance(i64),
}

#[derive(Clone)]
pub struct VState {
    pub st: MinerState,
    pub now: i64,
    /// vesting epoch -> amount still locked
    pub model: BTreeMap<i64, i128>,
    pub adds_left: u8,
    pub offset: i64,
}

pub struct Vesting {
    pub adds: u8,
    pub amounts: Vec<i64>,
}

fn qup(e: i64, offset: i64) -> i64 {
    let off = offset.rem_euclid(QUANT);
    let r = (e - off).rem_euclid(QUANT);
    if r == 0 { e } else { e + (QUANT - r) }
}

/// The specification of a vesting schedule: linear over 180 days in daily steps, each step
/// quantised up to the next 12-hour boundary (aligned with the proving period start).
pub fn schedule(amount: i128, now: i64, offset: i64) -> Vec<(i64, i128)> {
    let mut out = vec![];
    let mut vested = 0i128;
    let mut k = 1i64;
    while vested < amount {
        let e = qup(now + k * DAY, offset);
        let elapsed = e - now;
        let target = if elapsed < PERIOD { amount * elapsed as i128 / PERIOD as i128 } else { amount };
        out.push((e, target - vested));
        vested = target;
        k += 1;
    }
    out
}

impl Vesting {
    fn observe(store: &Store, st: &MinerState) -> BTreeMap<i64, i128> {
        st.vesting_funds.load(store).unwrap().into_iter().map(|f| (f.epoch, i128::try_from(f.amount.atto()).unwrap())).collect()
    }
    fn compare(store: &Store, s: &VState) -> Result<(), String> {
        let mut got = Self::observe(store, &s.st);
        got.retain(|_, v| *v > 0);
        let want: BTreeMap<i64, i128> = s.model.iter().filter(|(_, v)| **v > 0).map(|(k, v)| (*k, *v)).collect();
        if got != want {
            return Err(format!("vesting table {:?} != schedule model {:?}", got.iter().take(6).collect::<Vec<_>>(), want.iter().take(6).collect::<Vec<_>>()));
        }
        let sum: i128 = want.values().sum();
        if s.st.locked_funds != atto(sum) {
            return Err(format!("locked funds total {} != sum of the vesting schedule {sum}", s.st.locked_funds));
        }
        Ok(())
    }
}

impl Scenario for Vesting {
    type S = VState;
    type A = VAct;
    type W = Store;

    fn name(&self) -> String {
        "vesting-component".into()
    }
    fn worker(&self, store: &Store) -> Store {
        store.clone()
    }
    fn bases(&self, store: &Store) -> Vec<(String, VState)> {
        let policy = Policy::default();
        let info = store.put_cbor(&"info", Code::Blake2b256).unwrap();
        [0i64, 1, 1439, 2879]
            .iter()
            .map(|&off| {
                let st = MinerState::new(&policy, store, info, off, 0).unwrap();
                (format!("period-offset-{off}"), VState { st, now: 10_000, model: BTreeMap::new(), adds_left: self.adds, offset: off })
            })
            .collect()
    }
    fn key(&self, s: &VState) -> Key {
        let m = serde_json::to_vec(&s.model).unwrap();
        mcx::hash_key(&[&m, &s.now.to_le_bytes(), &[s.adds_left], &s.offset.to_le_bytes(), s.st.locked_funds.atto().to_string().as_bytes()])
    }
    fn kind(&self, a: &VAct) -> String {
        match a {
            VAct::Add(_) => "add-locked-funds".into(),
            VAct::UnlockVested => "unlock-vested".into(),
            VAct::Penalty(k) => format!("unlock-for-penalty sel{k}"),
            VAct::Advance(_) => "advance".into(),
        }
    }
    fn actions(&self, _w: &Store, s: &VState) -> Vec<VAct> {
        let mut v = vec![];
        if s.adds_left > 0 {
            for a in &self.amounts {
                v.push(VAct::Add(*a));
            }
        }
        v.push(VAct::UnlockVested);
        for k in 0..5 {
            v.push(VAct::Penalty(k));
        }
        let mut steps = vec![1, 720, 1440, 2880, 181 * DAY];
        // exactly onto the first outstanding vesting epoch (not vested yet: vesting needs epoch < now)
        // and one past it
        if let Some(first) = s.model.iter().find(|(e, x)| **e >= s.now && **x > 0).map(|(e, _)| *e) {
            for d in [first - s.now, first - s.now + 1] {
                if d > 0 && !steps.contains(&d) {
                    steps.push(d);
                }
            }
        }
        for d in steps {
            v.push(VAct::Advance(d));
        }
        v
    }
    fn step(&self, store: &Store, s: &VState, a: &VAct, _f: &[usize]) -> Step<VState> {
        let mut n = s.clone();
        let mut viol = None;
        let outcome = "ok";
        match a {
            VAct::Add(amount) => {
                n.adds_left -= 1;
                let r = n.st.add_locked_funds(store, n.now, &atto(*amount as i128), &REWARD_VESTING_SPEC);
                // model: merge the new schedule, then everything already vested unlocks
                for (e, x) in schedule(*amount as i128, n.now, n.offset) {
                    *n.model.entry(e).or_insert(0) += x;
                }
                let vested: i128 = n.model.iter().filter(|(e, _)| **e < n.now).map(|(_, v)| *v).sum();
                n.model.retain(|e, _| *e >= n.now);
                match r {
                    Ok(unlocked) => {
                        if unlocked != atto(vested) {
                            viol = Some(format!("adding {amount} at {} unlocked {unlocked}, but exactly the vested {vested} may unlock", n.now));
                        }
                    }
                    Err(e) => viol = Some(format!("add_locked_funds failed: {e}")),
                }
                // nothing of the new lock is available before its first vesting epoch
                if let Some((first, _)) = schedule(*amount as i128, n.now, n.offset).first()
                    && *first <= n.now
                {
                    viol = Some("a vesting entry at or before the current epoch".into());
                }
            }
            VAct::UnlockVested => {
                let r = n.st.unlock_vested_funds(store, n.now);
                let vested: i128 = n.model.iter().filter(|(e, _)| **e < n.now).map(|(_, v)| *v).sum();
                n.model.retain(|e, _| *e >= n.now);
                match r {
                    Ok(u) => {
                        if u != atto(vested) {
                            viol = Some(format!("unlock_vested at {} returned {u}; exactly {vested} has vested", n.now));
                        }
                    }
                    Err(e) => viol = Some(format!("unlock_vested_funds failed: {e}")),
                }
            }
            VAct::Penalty(k) => {
                let total: i128 = n.model.values().sum();
                let head: i128 = n.model.iter().find(|(e, v)| **e >= n.now && **v > 0).map(|(_, v)| *v).unwrap_or(0);
                let target = match k {
                    0 => 1,
                    1 => head,
                    2 => head + 1,
                    3 => total,
                    _ => total + 1,
                };
                let r = n.st.unlock_vested_and_unvested_funds(store, n.now, &atto(target));
                // model: vested entries first (they do not count against the target), then the
                // soonest unvested entries up to the target
                let mut vested = 0i128;
                let mut unvested = 0i128;
                if target > 0 && total > 0 {
                    let fast = n.model.iter().next().map(|(e, v)| *e >= n.now && *v >= target).unwrap_or(false);
                    if fast {
                        let (e, v) = n.model.iter().next().map(|(e, v)| (*e, *v)).unwrap();
                        n.model.insert(e, v - target);
                        unvested = target;
                    } else {
                        let mut left = target;
                        let keys: Vec<i64> = n.model.keys().cloned().collect();
                        for e in keys {
                            let v = n.model[&e];
                            if e < n.now {
                                vested += v;
                                n.model.remove(&e);
                                continue;
                            }
                            if left == 0 {
                                break;
                            }
                            let take = v.min(left);
                            unvested += take;
                            left -= take;
                            if take == v {
                                n.model.remove(&e);
                            } else {
                                n.model.insert(e, v - take);
                            }
                        }
                    }
                }
                match r {
                    Ok((u, t)) => {
                        if u != atto(unvested) || t != atto(unvested + vested) {
                            viol = Some(format!("penalty draw of {target} at {}: unlocked unvested {u} total {t}; model unvested {unvested} vested {vested}", n.now));
                        }
                        if unvested > target {
                            viol = Some("more unvested funds unlocked than the penalty target".into());
                        }
                    }
                    Err(e) => viol = Some(format!("unlock_vested_and_unvested_funds failed: {e}")),
                }
            }
            VAct::Advance(d) => {
                n.now += d;
            }
        }
        if viol.is_none() {
            // the fast path may leave a zero head entry; the model drops zero entries in compare
            if let Err(e) = Self::compare(store, &n) {
                viol = Some(e);
            }
        }
        let mut st = Step::new(n, outcome);
        st.agreed = 1;
        st.violation = viol;
        st
    }
    fn describe(&self) -> serde_json::Value {
        json!({"component": "fil_actor_miner::State vesting methods over VestingFunds", "amounts": self.amounts, "adds": self.adds,
               "period_offsets": [0, 1, 1439, 2879], "time_steps": [1, 720, 1440, 2880, 181 * DAY],
               "oracle": "BTreeMap schedule model: linear over 180 days in daily steps quantised to 12 h; exactly the vested amount unlocks; penalty draws take vested first then soonest unvested up to the target; locked_funds = sum of table"})
    }
}

// ------------------------------------------------------------------ layer 2: actor level

#[derive(Clone, Copy, Debug, Serialize, Deserialize, PartialEq, Eq)]
pub enum P {
    O,
    W,
    B,
    Z,
}

#[derive(Clone, Debug, Serialize, Deserialize)]
pub enum WAct {
    Award,
    /// sel: 0 = 1 atto, 1 = everything available, 2 = available + 1, 3 = huge, 4 = zero
    Withdraw { by: P, sel: u8 },
    /// the owner sends the miner 100 FIL (plain transfer; only offered while fee debt is outstanding)
    TopUp,
    SetBeneficiary { quota_small: bool, expires_soon: bool },
    ReportFault,
    /// advance to the next vesting boundary: 0 = one epoch before, 1 = exactly, 2 = one after
    ToVest(u8),
}

#[derive(Clone, Debug, Serialize)]
pub struct WM {
    pub owner: u64,
    pub beneficiary: u64,
    pub quota: String,
    pub used: String,
    pub exp: i64,
    pub msgs_left: u8,
    pub jumps_left: u8,
    /// the one top-up of a history has been spent
    pub topped: bool,
    /// model of the vesting table
    pub vest: BTreeMap<i64, String>,
}

pub struct Withdrawals {
    pub msgs: u8,
    pub jumps: u8,
}

pub struct WW {
    pub vm: Vm,
    pub o: ActorID,
    pub w: ActorID,
    pub b: ActorID,
    pub z: ActorID,
    pub m: ActorID,
    pub base: (mcvm::Snapshot, WM),
}

impl Withdrawals {
    fn info(vm: &Vm, m: ActorID) -> (MinerState, MinerInfo) {
        let st: MinerState = vm.state_of(m).unwrap();
        let info: MinerInfo = vm.store.get_cbor(&st.info).unwrap().unwrap();
        (st, info)
    }
    fn table(vm: &Vm, st: &MinerState) -> BTreeMap<i64, TokenAmount> {
        st.vesting_funds.load(&vm.store).unwrap().into_iter().map(|f| (f.epoch, f.amount)).collect()
    }
    fn id_of(w: &WW, p: P) -> ActorID {
        match p {
            P::O => w.o,
            P::W => w.w,
            P::B => w.b,
            P::Z => w.z,
        }
    }
}

impl Scenario for Withdrawals {
    type S = VS<WM>;
    type A = WAct;
    type W = WW;

    fn name(&self) -> String {
        "withdrawals".into()
    }

    fn worker(&self, store: &Store) -> WW {
        let vm = Vm::genesis(store.clone(), Policy::default());
        vm.bump_nonce.set(true);
        let o = vm.new_account(31, &fil(10_000)).0;
        let w = vm.new_account(32, &fil(10_000)).0;
        let b = vm.new_account(33, &fil(10_000)).0;
        let z = vm.new_account(34, &fil(10_000)).0;
        let bo = vm.new_account(35, &fil(10_000)).0;
        for _ in 0..3 {
            vm.tick();
        }
        // ballast (KF-1): a second miner with a large reported locked reward
        let bm = create_miner(&vm, bo, bo, RegisteredPoStProof::StackedDRGWindow32GiBV1P1, &fil(1000)).unwrap_or_else(|r| panic!("SETUP-FAILED: {}", r.tree()));
        for _ in 0..40 {
            let r = award(&vm, bm, &TokenAmount::zero(), &TokenAmount::zero());
            assert!(r.ok());
        }
        let m = create_miner(&vm, o, w, RegisteredPoStProof::StackedDRGWindow32GiBV1P1, &fil(100)).unwrap_or_else(|r| panic!("SETUP-FAILED: {}", r.tree()));
        vm.bump_nonce.set(false);
        let (st, info) = Self::info(&vm, m);
        let wm = WM {
            owner: o,
            beneficiary: info.beneficiary.id().unwrap(),
            quota: "0".into(),
            used: "0".into(),
            exp: 0,
            msgs_left: self.msgs,
            jumps_left: self.jumps,
            topped: false,
            vest: Self::table(&vm, &st).into_iter().map(|(e, a)| (e, a.atto().to_string())).collect(),
        };
        let snap = vm.snapshot();
        WW { vm, o, w, b, z, m, base: (snap, wm) }
    }

    fn bases(&self, w: &WW) -> Vec<(String, VS<WM>)> {
        vec![("fresh-miner-with-creation-deposit".into(), VS { snap: w.base.0.clone(), m: w.base.1.clone() })]
    }

    fn key(&self, s: &VS<WM>) -> Key {
        vs_key(s)
    }

    fn kind(&self, a: &WAct) -> String {
        match a {
            WAct::Award => "award-block-reward".into(),
            WAct::Withdraw { by, sel } => format!("withdraw by {by:?} sel{sel}"),
            WAct::TopUp => "top-up while in fee debt".into(),
            WAct::SetBeneficiary { .. } => "set-beneficiary".into(),
            WAct::ReportFault => "report-consensus-fault".into(),
            WAct::ToVest(k) => format!("to-next-vesting-epoch{}", ["-1", "", "+1"][*k as usize]),
        }
    }

    fn actions(&self, w: &WW, s: &VS<WM>) -> Vec<WAct> {
        let mut v = vec![];
        if s.m.msgs_left > 0 {
            v.push(WAct::Award);
            for by in [P::O, P::W, P::B, P::Z] {
                for sel in 0..4 {
                    v.push(WAct::Withdraw { by, sel });
                }
            }
            w.vm.restore(&s.snap);
            if Self::info(&w.vm, w.m).0.fee_debt.is_positive() {
                if !s.m.topped {
                    v.push(WAct::TopUp);
                }
                v.push(WAct::Withdraw { by: P::O, sel: 4 });
                v.push(WAct::Withdraw { by: P::B, sel: 4 });
            }
            for (q, e) in [(true, false), (true, true), (false, false), (false, true)] {
                v.push(WAct::SetBeneficiary { quota_small: q, expires_soon: e });
            }
            v.push(WAct::ReportFault);
        }
        if s.m.jumps_left > 0 {
            for k in 0..3 {
                v.push(WAct::ToVest(k));
            }
        }
        v
    }

    fn step(&self, w: &WW, s: &VS<WM>, a: &WAct, _f: &[usize]) -> Step<VS<WM>> {
        let vm = &w.vm;
        vm.restore(&s.snap);
        let now = vm.epoch();
        let mut m = s.m.clone();
        let mut viol: Option<String> = None;
        let mut outcome = "ok";
        let (st0, info0) = Self::info(vm, w.m);
        let table0 = Self::table(vm, &st0);
        let bal0 = vm.balance(w.m);
        // property: nothing becomes available before its vesting epoch except to pay penalties.
        // Generic check used after every action: entries may only (a) disappear when vested
        // (epoch < now'), (b) shrink/disappear soonest-first when a penalty was charged, (c) grow by
        // a new schedule when a reward was locked.
        // an outstanding fee debt is a penalty still being paid: any message may draw on vesting funds for it
        let mut penalty_allowed = st0.fee_debt.is_positive();
        let mut new_lock: Option<(TokenAmount, i64)> = None;
        match a {
            WAct::Award => {
                m.msgs_left -= 1;
                let r = award(vm, w.m, &TokenAmount::zero(), &TokenAmount::zero());
                if !r.ok() || r.flat().iter().any(|i| !i.ok()) {
                    viol = Some(format!("block reward not applied: {}", r.tree()));
                }
                // 75% of what the reward actor sent must be locked
                for i in r.effective() {
                    if i.to_id() == Some(w.m) && i.method == MM::ApplyRewards as u64 {
                        let locked = (&i.value * 3u32).div_floor(4u32);
                        new_lock = Some((locked, now));
                    }
                }
            }
            WAct::Withdraw { by, sel } => {
                m.msgs_left -= 1;
                let who = Self::id_of(w, *by);
                // what has vested by now unlocks first
                let vested: TokenAmount = table0.iter().filter(|(e, _)| **e < now).map(|(_, a)| a.clone()).sum();
                let locked_after = &st0.locked_funds - &vested;
                let avail = &bal0 - &locked_after - &st0.pre_commit_deposits - &st0.initial_pledge - &st0.fee_debt;
                let req = match sel {
                    0 => atto(1),
                    1 => avail.clone(),
                    2 => &avail + atto(1),
                    4 => TokenAmount::zero(),
                    _ => fil(1_000_000),
                };
                let ben = info0.beneficiary.id().unwrap();
                let ben_bal0 = vm.balance(ben);
                let r = withdraw(vm, who, w.m, &req);
                let allowed = who == info0.owner.id().unwrap() || who == ben;
                // quota left per the model's own tally of what this beneficiary has been paid
                let mq = TokenAmount::from_atto(m.quota.parse::<num_bigint_shim::BigInt>().unwrap());
                let mu = TokenAmount::from_atto(m.used.parse::<num_bigint_shim::BigInt>().unwrap());
                let model_left = if m.exp > now { std::cmp::max(&mq - &mu, TokenAmount::zero()) } else { TokenAmount::zero() };
                let quota_left = if ben != info0.owner.id().unwrap() { Some(model_left) } else { None };
                let expect_ok = allowed && !avail.is_negative() && quota_left.as_ref().map(|q| q.is_positive()).unwrap_or(true) && st0.early_terminations.is_empty();
                if r.any_panicked() {
                    viol = Some(format!("panic: {}", r.tree()));
                } else if r.ok() != expect_ok && !(allowed && avail.is_negative()) {
                    viol = Some(format!("withdrawal of {req} by {by:?}: model accept={expect_ok} (available {avail}, quota {quota_left:?}): {}", r.tree()));
                } else if r.ok() {
                    let mut want = std::cmp::min(req.clone(), avail.clone());
                    if let Some(q) = &quota_left {
                        want = std::cmp::min(want, q.clone());
                    }
                    let got: WithdrawBalanceReturn = r.ret.as_ref().unwrap().deserialize().unwrap();
                    if got.amount_withdrawn != want {
                        viol = Some(format!("withdrawal returned {} but min(requested {req}, available {avail}, quota left by the model's tally {quota_left:?}) = {want}", got.amount_withdrawn));
                    }
                    if quota_left.is_some() {
                        let nu = &mu + &got.amount_withdrawn;
                        m.used = nu.atto().to_string();
                        let (_, i1) = Self::info(vm, w.m);
                        if i1.beneficiary_term.used_quota != nu {
                            viol = Some(format!("used quota recorded as {} after this withdrawal, the tally of what the beneficiary was paid is {nu}", i1.beneficiary_term.used_quota));
                        }
                    }
                    let delta = vm.balance(ben) - &ben_bal0;
                    if delta != want && who != ben {
                        viol = Some(format!("beneficiary {ben} received {delta} instead of {want}"));
                    }
                    for i in r.effective() {
                        if i.from == w.m && i.method == 0 && !i.value.is_zero() && i.to_id() != Some(ben) && i.to_id() != Some(99) {
                            viol = Some(format!("withdrawal paid {}: only the beneficiary may be paid", i.brief()));
                        }
                    }
                    let (st1, _) = Self::info(vm, w.m);
                    let keep = &st1.locked_funds + &st1.pre_commit_deposits + &st1.initial_pledge;
                    if vm.balance(w.m) < keep {
                        viol = Some(format!("balance {} below vesting + deposits + pledge {keep} after a withdrawal", vm.balance(w.m)));
                    }
                    if st1.fee_debt.is_positive() {
                        viol = Some("fee debt left unpaid by a successful withdrawal".into());
                    }
                    // "any fee debt is repaid in full as part of the same call": repaid = burnt
                    let burnt: TokenAmount = r.effective().iter().filter(|i| i.from == w.m && i.method == 0 && i.to_id() == Some(99)).map(|i| i.value.clone()).sum();
                    if burnt != st0.fee_debt {
                        viol = Some(format!("successful withdrawal with fee debt {} outstanding burnt {burnt}: the debt must be repaid (burnt) in full by the same call", st0.fee_debt));
                    }
                    outcome = "accepted";
                } else {
                    outcome = "rejected";
                }
            }
            WAct::SetBeneficiary { quota_small, expires_soon } => {
                m.msgs_left -= 1;
                let quota = if *quota_small { atto(5) } else { fil(1000) };
                let exp = if *expires_soon { now + 2 } else { now + 400 * DAY };
                let p = ChangeBeneficiaryParams { new_beneficiary: id(w.b), new_quota: quota, new_expiration: exp };
                let r1 = ext(vm, w.o, &id(w.m), &TokenAmount::zero(), MM::ChangeBeneficiary as u64, Some(&p));
                let r2 = ext(vm, w.b, &id(w.m), &TokenAmount::zero(), MM::ChangeBeneficiary as u64, Some(&p));
                outcome = if r1.ok() && r2.ok() { "accepted" } else { "rejected" };
                // the current beneficiary must approve while its term is active: adopt whether the
                // change took effect, but the tally of what was paid is only reset by a *different*
                // beneficiary
                let (_, i1) = Self::info(vm, w.m);
                let nb = i1.beneficiary.id().unwrap();
                if nb != m.beneficiary {
                    m.used = "0".into();
                }
                if nb != m.beneficiary || i1.beneficiary_term.quota.atto().to_string() != m.quota || i1.beneficiary_term.expiration != m.exp {
                    m.beneficiary = nb;
                    m.quota = i1.beneficiary_term.quota.atto().to_string();
                    m.exp = i1.beneficiary_term.expiration;
                }
            }
            WAct::TopUp => {
                // anybody can send a miner funds: not counted against the message budget, once per history
                m.topped = true;
                let r = ext(vm, w.o, &id(w.m), &fil(100), 0, NOP);
                if !r.ok() {
                    viol = Some(format!("plain transfer to the miner failed: {}", r.tree()));
                }
            }
            WAct::ReportFault => {
                m.msgs_left -= 1;
                let r = report_fault(vm, w.z, w.m, now - 1);
                penalty_allowed = penalty_allowed || r.ok();
                outcome = if r.ok() { "accepted" } else { "rejected" };
            }
            WAct::ToVest(k) => {
                m.jumps_left -= 1;
                let next = table0.keys().find(|e| **e >= now).cloned().unwrap_or(now + DAY);
                let target = next + *k as i64; // entry at `next` vests once the epoch is > next
                let invs = tick_to(vm, target.max(now + 1));
                for i in &invs {
                    if i.flat().iter().any(|x| !x.ok()) {
                        viol = Some(format!("cron tick failed: {}", i.tree()));
                    }
                }
            }
        }
        // vesting-table evolution
        if viol.is_none() {
            let (st1, _) = Self::info(vm, w.m);
            let now1 = vm.epoch();
            let mut table1 = Self::table(vm, &st1);
            let mut expect = table0.clone();
            if let Some((locked, at)) = &new_lock {
                for (e, x) in schedule(i128::try_from(locked.atto()).unwrap(), *at, st0.proving_period_start) {
                    *expect.entry(e).or_default() += atto(x);
                }
            }
            // strip zero entries on both sides
            table1.retain(|_, v| v.is_positive());
            expect.retain(|_, v| v.is_positive());
            // unvested part (epoch >= now1) must be untouched unless a penalty was charged
            let unv1: BTreeMap<i64, TokenAmount> = table1.iter().filter(|(e, _)| **e >= now1).map(|(e, a)| (*e, a.clone())).collect();
            let unv_expect: BTreeMap<i64, TokenAmount> = expect.iter().filter(|(e, _)| **e >= now1).map(|(e, a)| (*e, a.clone())).collect();
            if !penalty_allowed && unv1 != unv_expect {
                let d: Vec<_> = unv_expect.iter().filter(|(e, a)| unv1.get(e) != Some(a)).take(3).collect();
                viol = Some(format!("funds that have not reached their vesting epoch changed without a penalty (at epoch {now1}): expected entries {:?}, got {:?}", d, d.iter().map(|(e, _)| unv1.get(e)).collect::<Vec<_>>()));
            }
            if penalty_allowed {
                // soonest first: a later entry may shrink only if all earlier ones are gone
                let mut seen_partial = false;
                for (e, want) in &unv_expect {
                    let got = unv1.get(e).cloned().unwrap_or_default();
                    if got > *want {
                        viol = Some(format!("vesting entry at {e} grew during a penalty"));
                    }
                    if seen_partial && got < *want {
                        viol = Some(format!("penalty drew from the entry at {e} before exhausting earlier entries"));
                    }
                    if !got.is_zero() {
                        seen_partial = true;
                    }
                }
            }
            let sum: TokenAmount = Self::table(vm, &st1).values().cloned().sum();
            if sum != st1.locked_funds {
                viol = Some(format!("locked funds {} != sum of the vesting schedule {sum}", st1.locked_funds));
            }
            m.vest = Self::table(vm, &st1).into_iter().map(|(e, a)| (e, a.atto().to_string())).collect();
            let (_, info1) = Self::info(vm, w.m);
            let _ = info1;
        }
        let mut stp = Step::new(VS { snap: vm.snapshot(), m }, outcome);
        stp.agreed = 1;
        stp.violation = viol;
        stp
    }

    fn describe(&self) -> serde_json::Value {
        json!({"policy": "MAINNET", "time": "sparse ticking to the next vesting boundary (-1, exactly, +1)",
               "callers": ["owner", "worker", "beneficiary", "stranger"], "amounts": ["1 atto", "available", "available+1", "huge"],
               "oracle": "withdrawn = min(requested, balance - vesting - deposits - pledge - debt, quota left), paid to the beneficiary only, only for owner/beneficiary; unvested entries never change except by a penalty (soonest first) or a new 75% reward lock following the schedule model"})
    }
}

pub fn run(tier: &str) -> ! {
    let th = tier_is_thorough(tier);
    let mut run = mcx::evidence::Run::new("C14", tier, "model_checking");
    run.assumptions = vec![
        "layer 1 drives fil_actor_miner::State's vesting methods directly (component level) with amounts {1,179,180,181,10^6}".into(),
        "layer 3 (`c14-et-backlog`): the miner-life walk under SMALL with addressed_partitions_max = 1, from a base whose fault time-out spans two partitions, so that early terminations stay unprocessed across message boundaries; every withdrawal offered there must be refused".into(),
        "layer 2 uses MAINNET policy with sparse ticking over the first vesting days of a real miner created through Power.CreateMiner".into(),
    ];
    let comp = Vesting { adds: if th { 3 } else { 2 }, amounts: vec![1, 179, 180, 181, 1_000_000] };
    run.add(mcx::explore(&comp, &Bounds { max_depth: if th { 8 } else { 5 }, wall_cap_s: if th { 900.0 } else { 25.0 }, replay_sample: 16, ..Default::default() }));
    let act = Withdrawals { msgs: if th { 4 } else { 3 }, jumps: if th { 3 } else { 2 } };
    run.add(mcx::explore(&act, &Bounds { max_depth: if th { 7 } else { 5 }, wall_cap_s: if th { 900.0 } else { 25.0 }, replay_sample: 16, ..Default::default() }));
    // withdrawals while early terminations await processing (reachable only with a backlog)
    let (sb, bb) = crate::c15::scenario_backlog(tier, "C14", crate::minerlife::Oracles { c15: true, ..Default::default() });
    run.add(mcx::explore(&sb, &bb));
    run.finish()
}

pub fn scenario_component(tier: &str) -> Vesting {
    Vesting { adds: if tier_is_thorough(tier) { 3 } else { 2 }, amounts: vec![1, 179, 180, 181, 1_000_000] }
}
pub fn scenario_actor(tier: &str) -> Withdrawals {
    let th = tier_is_thorough(tier);
    Withdrawals { msgs: if th { 4 } else { 3 }, jumps: if th { 3 } else { 2 } }
}
