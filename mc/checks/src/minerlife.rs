//! The `miner-life` walk under the SMALL policy (DESIGN §3 C02-C05, C15): default behaviour is
//! "prove every partition when its window opens, let time pass"; every placement of <= k
//! deviations over the horizon is explored. Oracles are switched per property.
use crate::chain::*;
use crate::miner::*;
use crate::minercheck::*;
use crate::penalties::*;
use crate::util::*;
use fil_actor_power::State as PowerState;
use fvm_shared::ActorID;
use fvm_shared::bigint::BigInt;
use fvm_shared::econ::TokenAmount;
use mcvm::{Inv, Store, Vm};
use mcx::{Key, Known, Scenario, Step};
use num_traits::Zero;
use serde::{Deserialize, Serialize};
use serde_json::json;
use std::collections::{BTreeMap, BTreeSet};

#[derive(Clone, Debug, Serialize, Deserialize, PartialEq, Eq)]
pub enum Act {
    /// default: submit the full PoSt when a window opens (unless suppressed), then one epoch passes
    Advance,
    /// deviation: do not submit the default PoSt for the window that opens now
    SkipPost,
    /// deviation: submit the PoSt of the open window now (late PoSt after SkipPost, or a repeat)
    PostNow { skipped: Vec<u64>, bad: bool },
    DeclareFaults(Vec<u64>),
    DeclareRecovered(Vec<u64>),
    Terminate(Vec<u64>),
    /// dispute the first optimistic PoSt of deadline `dl` (previous window)
    Dispute(u64),
    Compact(u64),
    /// onboard a new sector number into the given deadline offset (relative to current + 2)
    Onboard { number: u64, dl_off: u64 },
    /// declare faults with a wrong partition index (a batch entry that must not corrupt anything)
    DeclareFaultsWrongPartition(Vec<u64>),
    /// the same declaration listed twice in one message (batch entries naming a sector twice)
    DeclareFaultsDup(Vec<u64>),
    DeclareRecoveredDup(Vec<u64>),
    TerminateDup(Vec<u64>),
    /// ExtendSectorExpiration2: 0 = sector 1 by one period; 1 = sectors 1 and 3 (two declarations,
    /// different partitions when they live apart) to the same new expiration; 2 = sectors 1 and 2
    /// (two declarations for the same partition when they live together) to different expirations
    Extend(u8),
    /// pre-commit a committed-capacity sector (locks a pre-commit deposit)
    PreCommit(u64),
    /// prove-commit a pre-committed sector (deposit released, pledge locked); bad = invalid proof
    ProveCommit(u64, bool),
    /// the same pre-committed sector named twice in one prove-commit batch
    ProveCommitTwice(u64),
    /// a stranger reports a consensus fault committed by the miner at the previous epoch
    ReportFault,
    RepayDebt,
    /// owner withdraws everything available
    Withdraw,
    /// block reward carrying a gas penalty
    AwardPenalty,
    /// the owner sends the miner a small amount (plain transfer)
    TopUp,
}

#[derive(Clone, Debug, Serialize, PartialEq, Eq)]
pub struct SecM {
    pub proven: bool,
    pub faulty: bool,
    pub recovering: bool,
    pub gone: bool,
    pub faulty_since: Option<i64>,
}

#[derive(Clone, Debug, Serialize)]
pub struct LifeM {
    pub base: usize,
    pub devs_left: u8,
    pub end: i64,
    /// open epoch of the window whose default PoSt is suppressed
    pub suppressed: Option<i64>,
    pub sectors: BTreeMap<u64, SecM>,
    /// sector numbers ever successfully committed (C04: allocated at most once)
    pub ever: BTreeSet<u64>,
    pub frozen: bool,
    /// a nested send of an earlier tick was failed by injection: the sector model is no longer
    /// maintained; only the oracles that need no model are evaluated
    #[serde(default)]
    pub recovery: bool,
    /// at least one un-faulted tick has run since the injected failure
    #[serde(default)]
    pub recovery_settled: bool,
    /// the injected failure made the power actor's whole tick entry fail (its queued miner
    /// callbacks ran one epoch late)
    #[serde(default)]
    pub power_tick_lost: bool,
    /// deadline -> epoch at which the window of an accepted bad-proof PoSt closes (not yet disputed)
    pub bad_posts: BTreeMap<u64, i64>,
}

#[derive(Clone, Copy, Debug, Default)]
pub struct Oracles {
    pub c02: bool,
    pub c03: bool,
    pub c04: bool,
    pub c05: bool,
    pub c15: bool,
}

pub struct LifeCfg {
    pub name: &'static str,
    pub periods: i64,
    pub devs: u8,
    pub bases: Vec<&'static str>,
    pub oracles: Oracles,
    pub sector_sets: Vec<Vec<u64>>,
    pub known_open: BTreeSet<String>,
    pub property: &'static str,
    /// Some(margin): the subject miner owns nothing but its vesting creation deposit + margin
    pub poor: Option<TokenAmount>,
    pub money_devs: bool,
    pub precommits: bool,
    /// horizon in epochs (overrides `periods` when set)
    pub horizon: Option<i64>,
    /// 64 GiB sectors (FIL-scale pledges and penalties) instead of 2 KiB ones
    pub big: bool,
    /// one partition per message and per early-termination processing call (addressed_partitions_max = 1):
    /// a fault time-out over two partitions leaves a backlog of unprocessed early terminations
    pub backlog: bool,
    /// fault class F2: every nested send of every end-of-epoch tick is failed (one at a time);
    /// afterwards the walk continues in recovery mode (default behaviour only, generic oracles)
    pub tick_faults: bool,
    /// a second active miner whose deadlines end at the same epochs as the subject's (it proves
    /// every window by default); judged by the model-free oracles only
    pub bystander: bool,
    /// ExtendSectorExpiration2 shapes in the menu
    pub extensions: bool,
}

pub struct W {
    pub vm: Vm,
    pub cast: MinerCast,
    pub bases: Vec<(String, mcvm::Snapshot, LifeM)>,
    /// creation deposits D_m of every miner (KF-1 adjustment)
    pub deposits: BTreeMap<ActorID, TokenAmount>,
}

pub struct Life {
    pub cfg: LifeCfg,
}

pub const ERR_BALANCE_INVARIANTS_BROKEN: u32 = 1000;

fn all_ok(inv: &Inv) -> Result<(), String> {
    for i in inv.flat() {
        if i.panicked {
            return Err(format!("panic inside {}", i.brief()));
        }
        if i.code.value() == ERR_BALANCE_INVARIANTS_BROKEN {
            return Err(format!("balance invariants broken reported by {}", i.brief()));
        }
    }
    Ok(())
}

impl Life {
    fn live_sets(v: &MinerView) -> BTreeMap<u64, (bool, bool, bool, bool)> {
        // sector -> (unproven, faulty, recovering, terminated)
        let mut m = BTreeMap::new();
        for d in &v.dls {
            for p in &d.parts {
                for s in &p.sectors {
                    m.insert(*s, (p.unproven.contains(s), p.faults.contains(s), p.recoveries.contains(s), p.terminated.contains(s)));
                }
            }
        }
        m
    }

    /// C02 (a)+(b): the sector model agrees with the partition state and the credited power is
    /// exactly the sum over proven, healthy, unexpired sectors.
    fn check_power(&self, v: &MinerView, m: &LifeM) -> Result<(), String> {
        let sets = Self::live_sets(v);
        let mut raw = BigInt::zero();
        let mut qa = BigInt::zero();
        for (s, sm) in &m.sectors {
            match sets.get(s) {
                None => {
                    if !sm.gone {
                        return Err(format!("sector {s} vanished from all partitions but the sector model says it is alive"));
                    }
                }
                Some(&(unproven, faulty, recovering, terminated)) => {
                    if terminated != sm.gone {
                        return Err(format!("sector {s}: terminated={terminated} but sector model gone={}", sm.gone));
                    }
                    if sm.gone {
                        continue;
                    }
                    if faulty != sm.faulty || recovering != sm.recovering {
                        return Err(format!("sector {s}: faulty/recovering {faulty}/{recovering}, sector model {}/{}", sm.faulty, sm.recovering));
                    }
                    if !faulty && unproven == sm.proven {
                        return Err(format!("sector {s}: unproven={unproven} but sector model proven={}", sm.proven));
                    }
                    if sm.proven && !sm.faulty {
                        let (r, q) = v.sector_power(&v.sectors[s]);
                        raw += r;
                        qa += q;
                    }
                }
            }
        }
        for s in sets.keys() {
            if !m.sectors.contains_key(s) {
                return Err(format!("sector {s} is in a partition but unknown to the sector model"));
            }
        }
        match &v.claim {
            None => Err("the miner has lost its power claim".into()),
            Some((cr, cq)) => {
                if (cr, cq) != (&raw, &qa) {
                    return Err(format!("credited power ({cr},{cq}) != sum over proven, healthy, unexpired sectors ({raw},{qa}); sector model {:?}", m.sectors));
                }
                Ok(())
            }
        }
    }

    /// C02 (c): network totals are the sums of the per-miner claims under the minimum rule.
    fn check_network(&self, vm: &Vm) -> Result<(), String> {
        let ps: PowerState = power_state(vm);
        let claims = ps.load_claims(&vm.store).unwrap();
        let min = BigInt::from(2 * SECTOR_SIZE);
        let (mut tb, mut tqb, mut tr, mut tq, mut above, mut count) = (BigInt::zero(), BigInt::zero(), BigInt::zero(), BigInt::zero(), 0i64, 0i64);
        claims
            .for_each(|_, c| {
                count += 1;
                tb += &c.raw_byte_power;
                tqb += &c.quality_adj_power;
                if c.raw_byte_power >= min {
                    above += 1;
                    tr += &c.raw_byte_power;
                    tq += &c.quality_adj_power;
                }
                Ok(())
            })
            .unwrap();
        if (ps.total_bytes_committed.clone(), ps.total_qa_bytes_committed.clone()) != (tb.clone(), tqb.clone()) {
            return Err(format!("network committed bytes ({}, {}) != sum of claims ({tb}, {tqb})", ps.total_bytes_committed, ps.total_qa_bytes_committed));
        }
        if (ps.total_raw_byte_power.clone(), ps.total_quality_adj_power.clone()) != (tr.clone(), tq.clone()) {
            return Err(format!("network power ({}, {}) != sum of claims at or above the consensus minimum ({tr}, {tq})", ps.total_raw_byte_power, ps.total_quality_adj_power));
        }
        if ps.miner_above_min_power_count != above || ps.miner_count != count {
            return Err(format!("miner counts {}/{} != recomputed {above}/{count}", ps.miner_above_min_power_count, ps.miner_count));
        }
        let (cr, cq) = ps.current_total_power();
        let want = if above < 4 { (tb, tqb) } else { (tr, tq) };
        if (cr, cq) != want {
            return Err("current total power does not follow the consensus-minimum-miners switch".into());
        }
        Ok(())
    }

    /// C03 (network part) with the KF-1 adjustment; returns a known-finding marker if the
    /// discrepancy is exactly the unreported creation deposits.
    fn check_pledge_total(&self, w: &W, views: &[MinerView]) -> Result<Option<Known>, String> {
        let ps: PowerState = power_state(&w.vm);
        let mut sum = TokenAmount::zero();
        let mut dep = TokenAmount::zero();
        for v in views {
            sum += &v.st.initial_pledge + &v.st.locked_funds;
            dep += w.deposits.get(&v.id).cloned().unwrap_or_default();
        }
        if ps.total_pledge_collateral.is_negative() {
            return Err(format!("network pledge total is negative: {}", ps.total_pledge_collateral));
        }
        if ps.total_pledge_collateral == sum {
            return Ok(None);
        }
        if ps.total_pledge_collateral == &sum - &dep {
            if self.cfg.known_open.contains("KF-1") {
                return Ok(Some(Known { id: "KF-1".into(), text: "creation deposit locked by the miner constructor is never reported to the power actor (network pledge total = sum(IP+LF) - sum(creation deposits))".into() }));
            }
            return Err(format!("network pledge total {} != sum(IP+LF) {} (differs by the unreported creation deposits {})", ps.total_pledge_collateral, sum, dep));
        }
        Err(format!("network pledge total {} != sum over miners of initial pledge + vesting funds {} (creation deposits {})", ps.total_pledge_collateral, sum, dep))
    }

    /// C05 per-state part: exactly one pending proving-deadline callback per miner that needs one,
    /// and the recorded deadline contains the next epoch.
    fn check_cron_schedule(&self, w: &W, views: &[MinerView]) -> Result<Option<Known>, String> {
        let vm = &w.vm;
        let q = power_cron_queue(vm);
        let now = vm.epoch();
        let mut known = None;
        for v in views {
            let needs = v.st.continue_deadline_cron();
            let mut proving = vec![];
            for (e, evs) in &q {
                for (m, payload) in evs {
                    if *m == v.id {
                        let p: fil_actor_miner::CronEventPayload = fvm_ipld_encoding::from_slice(payload).map_err(|e| format!("undecodable cron payload: {e}"))?;
                        if p.event_type == fil_actor_miner::CRON_EVENT_PROVING_DEADLINE {
                            proving.push(*e);
                        }
                    }
                }
            }
            if needs && proving.len() != 1 {
                // KF-2 signature: never committed anything, only the creation deposit is locked
                let kf2 = !v.st.deadline_cron_active
                    && v.st.pre_commit_deposits.is_zero()
                    && v.st.initial_pledge.is_zero()
                    && v.sectors.is_empty()
                    && proving.is_empty();
                if kf2 && self.cfg.known_open.contains("KF-2") {
                    known = Some(Known { id: "KF-2".into(), text: "a miner that never pre-committed or committed a sector has locked funds (creation deposit / rewards) and no proving-deadline cron".into() });
                    continue;
                }
                return Err(format!("miner {} has funds at stake but {} pending proving-deadline callbacks (at {:?})", v.id, proving.len(), proving));
            }
            if !needs && !proving.is_empty() && v.st.deadline_cron_active {
                // one trailing callback is how the cron winds down; more than one is a leak
                if proving.len() > 1 {
                    return Err(format!("miner {} has {} pending proving-deadline callbacks", v.id, proving.len()));
                }
            }
            if proving.len() == 1 {
                let di = v.st.deadline_info(&vm.policy, now);
                if !(di.index == v.st.current_deadline && di.period_start == v.st.proving_period_start && di.open <= now && now < di.close) {
                    return Err(format!("miner {} at epoch {now}: recorded deadline ({}, {}) is not the one containing the next epoch (computed ({}, {}) window [{}, {}))", v.id, v.st.proving_period_start, v.st.current_deadline, di.period_start, di.index, di.open, di.close));
                }
                if proving[0] != di.last() {
                    return Err(format!("miner {}: proving-deadline callback pending at {} but the current deadline ends at {}", v.id, proving[0], di.last()));
                }
            }
        }
        Ok(known)
    }

    /// C15 / C05 "early terminations are always paid for / eventually processed": a sector waiting
    /// in a partition's early-termination queue has not been charged its fee yet, so the miner
    /// must know about it (its deadline is in the miner-level index) and a callback that will
    /// process the queue must be pending.
    fn check_early_termination_progress(&self, w: &W, views: &[MinerView]) -> Result<(), String> {
        let q = power_cron_queue(&w.vm);
        for v in views {
            let pending: BTreeSet<u64> = v.dls.iter().enumerate().filter(|(_, d)| d.parts.iter().any(|p| !p.early_terminated.is_empty())).map(|(i, _)| i as u64).collect();
            if pending.is_empty() || v.claim.is_none() {
                continue;
            }
            let index: BTreeSet<u64> = v.st.early_terminations.iter().collect();
            if !pending.is_subset(&index) {
                return Err(format!("miner {}: sectors await early-termination processing (fee not charged yet) in deadlines {pending:?} but the miner-level index lists only {index:?}: they would never be processed", v.id));
            }
            let mut scheduled = false;
            for evs in q.values() {
                for (mm, payload) in evs {
                    if *mm == v.id {
                        let p: fil_actor_miner::CronEventPayload = fvm_ipld_encoding::from_slice(payload).map_err(|e| format!("undecodable cron payload: {e}"))?;
                        if p.event_type == fil_actor_miner::CRON_EVENT_PROCESS_EARLY_TERMINATIONS {
                            scheduled = true;
                        }
                    }
                }
            }
            if !scheduled {
                return Err(format!("miner {}: sectors await early-termination processing in deadlines {pending:?} but no processing callback is pending", v.id));
            }
        }
        Ok(())
    }

    fn standing(&self, w: &W, m: &LifeM, what: &str) -> (Option<String>, Vec<Known>) {
        let vm = &w.vm;
        let mut known = vec![];
        if m.frozen {
            return (None, known);
        }
        let Some(v) = view(vm, w.cast.m) else { return (Some("miner actor disappeared".into()), known) };
        let vb = view(vm, w.cast.bm).unwrap();
        let extras: Vec<MinerView> = w.cast.extra.iter().map(|x| view(vm, *x).unwrap()).collect();
        let all: Vec<MinerView> = [v.clone(), vb.clone()].into_iter().chain(extras.iter().cloned()).collect();
        let o = self.cfg.oracles;
        let r = (|| -> Result<(), String> {
            if m.recovery {
                // after an injected failure inside a tick: everything that needs no sector model
                self.check_network(vm)?;
                check_bookkeeping(&v, &vm.policy)?;
                check_bookkeeping(&vb, &vm.policy)?;
                if o.c03 {
                    check_ledgers(&v)?;
                    check_ledgers(&vb)?;
                    if let Some(k) = self.check_pledge_total(w, &all)? {
                        known.push(k);
                    }
                }
                // a miner whose callback was failed has lost its claim and its cron by design
                for x in &extras {
                    check_bookkeeping(x, &vm.policy)?;
                }
                let with_claim: Vec<MinerView> = all.iter().filter(|x| x.claim.is_some()).cloned().collect();
                if m.recovery_settled {
                    match self.check_cron_schedule(w, &with_claim) {
                        Ok(Some(k)) => known.push(k),
                        Ok(None) => {}
                        Err(e) if m.power_tick_lost && self.cfg.known_open.contains("KF-7") => {
                            let _ = e;
                            known.push(Known { id: "KF-7".into(), text: "a proving-deadline callback that runs one epoch late (the power actor's tick entry failed on the last epoch of the deadline) derives the deadline to close from the current epoch instead of the recorded one: the ended deadline is never closed and the miner's recorded deadline stays off schedule".into() });
                        }
                        Err(e) => return Err(e),
                    }
                }
                return Ok(());
            }
            if o.c02 {
                self.check_power(&v, m)?;
                self.check_network(vm)?;
            }
            if o.c15 || o.c05 {
                self.check_early_termination_progress(w, &all)?;
            }
            if o.c04 {
                check_bookkeeping(&v, &vm.policy)?;
                check_bookkeeping(&vb, &vm.policy)?;
                for x in &extras {
                    check_bookkeeping(x, &vm.policy)?;
                }
                for s in v.sectors.keys() {
                    if !m.ever.contains(s) {
                        return Err(format!("sector {s} exists on chain but was never committed in this history"));
                    }
                }
            }
            if o.c03 {
                check_ledgers(&v)?;
                check_ledgers(&vb)?;
                if let Some(k) = self.check_pledge_total(w, &all)? {
                    known.push(k);
                }
            }
            if o.c05 {
                if let Some(k) = self.check_cron_schedule(w, &all)? {
                    known.push(k);
                }
            }
            Ok(())
        })();
        (r.err().map(|e| format!("{what}: {e}")), known)
    }

    /// C15 identity for one executed message / tick.
    fn pen(&self, what: &str, pre: &MinerView, vm: &Vm, inv: &Inv, reporter: Option<ActorID>, charged: &TokenAmount) -> Option<String> {
        if !self.cfg.oracles.c15 {
            return None;
        }
        let post = view(vm, pre.id)?;
        check_identity(what, pre, &post, inv, reporter, charged).err()
    }

    /// What the end-of-epoch tick must charge the miner (C15): continued-fault fee for power that
    /// was already faulty, the (capped) daily fee of the deadline that ended, and the termination
    /// fee of every early termination processed.
    fn tick_charge(&self, m: &LifeM, pre: &MinerView, post: &MinerView, tick: &Inv, deadline_end: Option<(u64, i64)>, policy: &fil_actors_runtime::runtime::Policy) -> Result<TokenAmount, String> {
        let Some(est) = est_from_tick(tick, pre.id) else { return Ok(TokenAmount::zero()) };
        let mut total = TokenAmount::zero();
        let mut added = BTreeMap::new();
        if let Some((dl, last)) = deadline_end {
            // continued fault fee: sectors of this deadline that were faulty before the deadline ended
            let mut qa = BigInt::zero();
            let d = &pre.dls[dl as usize];
            for p in &d.parts {
                for s in p.sectors.difference(&p.terminated) {
                    if m.sectors.get(s).map(|x| x.faulty).unwrap_or(false) {
                        qa += pre.sector_power(&pre.sectors[s]).1;
                    }
                }
            }
            if !qa.is_zero() {
                total += ff(&est, &qa);
            }
            // daily fee of the deadline, on what is still live after this deadline end
            let da = &post.dls[dl as usize];
            let mut fee = TokenAmount::zero();
            let mut live_qa = BigInt::zero();
            for p in &da.parts {
                for s in p.sectors.difference(&p.terminated) {
                    fee += &post.sectors[s].daily_fee;
                    live_qa += post.sector_power(&post.sectors[s]).1;
                }
            }
            if fee.is_positive() {
                let day_reward = fil_actor_miner::expected_reward_for_power(&est.reward, &est.qa, &live_qa, EPOCHS_IN_DAY);
                let cap = day_reward.div_floor(policy.daily_fee_block_reward_cap_denom);
                total += std::cmp::min(cap, fee);
            }
            // sectors that timed out as faulty at this deadline end enter the termination queue now
            let quant = pre.st.quant_spec_for_deadline(policy, dl);
            let after_sets = Self::live_sets(post);
            for p in &d.parts {
                for s in p.sectors.difference(&p.terminated) {
                    let gone_now = after_sets.get(s).map(|x| x.3).unwrap_or(true);
                    if gone_now && quant.quantize_up(pre.sectors[s].expiration) > last {
                        added.insert(*s, last);
                    }
                }
            }
        }
        let (fees, _) = term_fees_processed(pre, post, &added, &est)?;
        total += fees;
        Ok(total)
    }

    /// group sector numbers by their (deadline, partition)
    fn decls(v: &MinerView, set: &[u64]) -> Vec<(u64, u64, Vec<u64>)> {
        let mut g: BTreeMap<(u64, u64), Vec<u64>> = BTreeMap::new();
        for s in set {
            if let Some((d, p, _)) = v.part_of(*s) {
                g.entry((d, p)).or_default().push(*s);
            }
        }
        g.into_iter().map(|((d, p), s)| (d, p, s)).collect()
    }

    /// Apply the meaning of an accepted PoSt to the sector model.
    fn model_post(m: &mut LifeM, before: &MinerView, dl: u64, parts: &[(u64, Vec<u64>)], now: i64) {
        for (pi, skipped) in parts {
            let Some(p) = before.dls[dl as usize].parts.get(*pi as usize) else { continue };
            for s in p.sectors.difference(&p.terminated) {
                let sm = m.sectors.get_mut(s).unwrap();
                if skipped.contains(s) {
                    if !sm.faulty {
                        sm.faulty_since = Some(now);
                    }
                    sm.faulty = true;
                    sm.recovering = false;
                } else if sm.faulty && sm.recovering {
                    sm.faulty = false;
                    sm.recovering = false;
                    sm.faulty_since = None;
                    sm.proven = true;
                } else if !sm.faulty {
                    sm.proven = true;
                }
            }
        }
    }

    /// The cron ran the end of deadline `dl` (last epoch `last`): unposted partitions lose
    /// everything; expirations are adopted after validation against the protocol's rules.
    fn model_deadline_end(&self, m: &mut LifeM, before: &MinerView, after: &MinerView, dl: u64, last: i64, policy: &fil_actors_runtime::runtime::Policy) -> Result<(), String> {
        let d = &before.dls[dl as usize];
        for (pi, p) in d.parts.iter().enumerate() {
            if d.posted.contains(&(pi as u64)) {
                continue;
            }
            for s in p.sectors.difference(&p.terminated) {
                let sm = m.sectors.get_mut(s).unwrap();
                if !sm.faulty {
                    sm.faulty_since = Some(last);
                }
                sm.faulty = true;
                sm.recovering = false;
            }
        }
        // expirations: adopt, but only what the rules allow / require
        let quant = before.st.quant_spec_for_deadline(policy, dl);
        let after_sets = Self::live_sets(after);
        for p in d.parts.iter() {
            for s in p.sectors.difference(&p.terminated) {
                let info = &before.sectors[s];
                let on_time = quant.quantize_up(info.expiration);
                let gone_now = after_sets.get(s).map(|x| x.3).unwrap_or(true);
                let sm = m.sectors.get_mut(s).unwrap();
                if gone_now {
                    let timed_out = sm.faulty && sm.faulty_since.map(|f| last >= f + policy.fault_max_age - policy.wpost_proving_period).unwrap_or(false);
                    if !(on_time <= last || timed_out) {
                        return Err(format!("sector {s} (expiration {} -> {on_time}, faulty since {:?}) was removed at deadline end {last} although neither expired nor faulty for the maximum age", info.expiration, sm.faulty_since));
                    }
                    sm.gone = true;
                    sm.faulty = false;
                    sm.recovering = false;
                } else if on_time <= last {
                    return Err(format!("sector {s} with expiration {} (-> {on_time}) is still live after its deadline ended at {last}", info.expiration));
                }
            }
        }
        Ok(())
    }

    fn default_post_parts(v: &MinerView) -> Vec<(u64, Vec<u64>)> {
        let d = &v.dls[v.dl_info.index as usize];
        d.parts
            .iter()
            .enumerate()
            .filter(|(pi, p)| !d.posted.contains(&(*pi as u64)) && p.sectors.difference(&p.terminated).any(|s| !p.faults.contains(s) || p.recoveries.contains(s)))
            .map(|(pi, _)| (pi as u64, vec![]))
            .collect()
    }

    /// Bystander miners prove every window that opens now (default behaviour).
    fn bystander_posts(vm: &Vm, cast: &MinerCast) -> Result<(), String> {
        for x in &cast.extra {
            let v = view(vm, *x).unwrap();
            if v.dl_info.open == vm.epoch() {
                let parts = Self::default_post_parts(&v);
                if !parts.is_empty() {
                    let r = submit_post(vm, cast.c, *x, v.dl_info.index, &parts, false);
                    all_ok(&r)?;
                }
            }
        }
        Ok(())
    }

    fn post_chunk(&self) -> usize {
        if self.cfg.backlog { 1 } else { 3 }
    }

    fn mk_base(&self, vm: &Vm, cast: &MinerCast, name: &str, idx: usize) -> LifeM {
        let v = view(vm, cast.m).unwrap();
        let d0 = (v.dl_info.index + 2) % 4;
        let now = vm.epoch();
        let mut ever = BTreeSet::new();
        let mut commit = |nums: &[u64], dl: u64, exp: i64| {
            let r = ni_commit(vm, cast.w, cast.m, nums, dl, exp);
            assert!(r.ok(), "SETUP-FAILED NI commit: {}", r.tree());
            for n in nums {
                ever.insert(*n);
            }
        };
        match name {
            // {1,2} and {3} in two partitions of one deadline
            "one-deadline" | "one-deadline-aged" | "one-deadline-aged-debt" | "one-deadline-aged-f12" | "one-deadline-aged-pc" | "one-deadline-aged-wound-debt" => {
                commit(&[1, 2, 3], d0, now + 80);
            }
            // one long-lived and two short-lived sectors in one deadline: a fault of the long-lived one
            // two periods before the others expire times out in the very cron that expires them
            "mixed-expiry-aged" => {
                commit(&[1], d0, now + 300);
                commit(&[2, 3], d0, now + 96);
            }
            // proven sectors whose latest PoSt carried an invalid proof; its deadline has just closed
            // (the dispute window is open)
            "bad-post-closed" | "bad-post-closed-debt" => {
                commit(&[1, 2, 3], d0, now + 300);
            }
            // same, but a third sector lives in another deadline (the miner keeps other power)
            "bad-post-closed-2dl" => {
                commit(&[1, 2], d0, now + 300);
                commit(&[3], (d0 + 1) % 4, now + 300);
            }
            // long-lived sectors that have been faulty for a period (fault time-out inside the horizon)
            "long-faulty" | "long-faulty-debt" => {
                commit(&[1, 2, 3], d0, now + 300);
            }
            // {1,2} in d0, {3} in the next deadline, different expirations
            "two-deadlines" | "two-deadlines-aged" => {
                commit(&[1, 2], d0, now + 80);
                commit(&[3], (d0 + 1) % 4, now + 110);
            }
            other => panic!("unknown base {other}"),
        }
        let mut m = LifeM {
            base: idx,
            devs_left: self.cfg.devs,
            end: 0,
            suppressed: None,
            sectors: ever.iter().map(|s| (*s, SecM { proven: false, faulty: false, recovering: false, gone: false, faulty_since: None })).collect(),
            ever,
            frozen: false,
            recovery: false,
            recovery_settled: false,
            power_tick_lost: false,
            bad_posts: BTreeMap::new(),
        };
        if name.starts_with("bad-post-closed") {
            // one proven period, then a bad-proof PoSt in the next window of d0, until it closes
            let mut bad_done = false;
            for step in 0..60 {
                let v = view(vm, cast.m).unwrap();
                if v.dl_info.open == vm.epoch() {
                    let parts = Self::default_post_parts(&v);
                    if !parts.is_empty() {
                        let bad = step >= 24 && v.dl_info.index == d0;
                        let r = submit_post(vm, cast.w, cast.m, v.dl_info.index, &parts, bad);
                        assert!(r.ok(), "SETUP-FAILED PoSt: {}", r.tree());
                        Self::model_post(&mut m, &v, v.dl_info.index, &parts, vm.epoch());
                        if bad {
                            m.bad_posts.insert(v.dl_info.index, v.dl_info.close);
                        }
                        bad_done = bad;
                    }
                }
                let pre = view(vm, cast.m).unwrap();
                let di = pre.dl_info;
                Self::bystander_posts(vm, cast).expect("SETUP-FAILED bystander PoSt");
                let r = vm.tick();
                assert!(r.flat().iter().all(|i| i.ok()), "SETUP-FAILED tick: {}", r.tree());
                if vm.epoch() - 1 == di.last() && pre.st.deadline_cron_active && di.period_started() {
                    let post = view(vm, cast.m).unwrap();
                    self.model_deadline_end(&mut m, &pre, &post, di.index, di.last(), &vm.policy).expect("SETUP-FAILED deadline end in base recipe");
                    if bad_done && di.index == d0 {
                        break;
                    }
                }
            }
            assert!(bad_done, "SETUP-FAILED: no bad PoSt was submitted");
        }
        if name.contains("-aged") || name.contains("-faulty") {
            // two proving periods: the first proven by default; under "-faulty" the second unproven
            for step in 0..48 {
                if name.ends_with("-pc") && step == 45 {
                    // an outstanding pre-commitment (deposit locked), provable when the base is reached
                    let exp = min_precommit_expiration(&vm.policy, vm.epoch()) + 10;
                    let r = precommit(vm, cast.w, cast.m, 5, exp);
                    assert!(r.ok(), "SETUP-FAILED pre-commit: {}", r.tree());
                    m.ever.insert(5);
                }
                let v = view(vm, cast.m).unwrap();
                let prove = step < 24 || !name.contains("-faulty");
                if prove && v.dl_info.open == vm.epoch() {
                    let parts = Self::default_post_parts(&v);
                    if !parts.is_empty() {
                        for chunk in parts.chunks(self.post_chunk()) {
                            let r = submit_post(vm, cast.w, cast.m, v.dl_info.index, chunk, false);
                            assert!(r.ok(), "SETUP-FAILED PoSt: {}", r.tree());
                            Self::model_post(&mut m, &v, v.dl_info.index, chunk, vm.epoch());
                        }
                    }
                }
                let pre = view(vm, cast.m).unwrap();
                let di = pre.dl_info;
                Self::bystander_posts(vm, cast).expect("SETUP-FAILED bystander PoSt");
                let r = vm.tick();
                assert!(r.flat().iter().all(|i| i.ok()), "SETUP-FAILED tick: {}", r.tree());
                if vm.epoch() - 1 == di.last() && pre.st.deadline_cron_active && di.period_started() {
                    let post = view(vm, cast.m).unwrap();
                    self.model_deadline_end(&mut m, &pre, &post, di.index, di.last(), &vm.policy).expect("SETUP-FAILED deadline end in base recipe");
                }
            }
        }
        if name.ends_with("-f12") {
            // sectors 1 and 2 declared faulty (they keep their on-time expiration: little life left)
            let v = view(vm, cast.m).unwrap();
            let decls = Self::decls(&v, &[1, 2]);
            let r = declare_faults(vm, cast.w, cast.m, &decls);
            assert!(r.ok(), "SETUP-FAILED fault declaration: {}", r.tree());
            for s in [1u64, 2] {
                let sm = m.sectors.get_mut(&s).unwrap();
                sm.faulty = true;
                sm.faulty_since = Some(vm.epoch());
            }
        }
        if name.ends_with("-debt") {
            // a consensus-fault penalty larger than everything the (poor) miner owns: fee debt
            let r = report_fault(vm, cast.z, cast.m, vm.epoch() - 1);
            assert!(r.ok(), "SETUP-FAILED consensus fault report: {}", r.tree());
            let v = view(vm, cast.m).unwrap();
            assert!(self.cfg.poor.is_none() || v.st.fee_debt.is_positive(), "SETUP-FAILED: the poor miner should be in fee debt");
        }
        if name.contains("-wound") {
            // default behaviour until every sector has expired and the deadline cron has wound down
            // (only a miner without vesting funds gets there: the poor regime)
            for _ in 0..120 {
                let v = view(vm, cast.m).unwrap();
                if !v.st.deadline_cron_active {
                    break;
                }
                if v.dl_info.open == vm.epoch() {
                    let parts = Self::default_post_parts(&v);
                    if !parts.is_empty() {
                        let r = submit_post(vm, cast.w, cast.m, v.dl_info.index, &parts, false);
                        if r.ok() {
                            Self::model_post(&mut m, &v, v.dl_info.index, &parts, vm.epoch());
                        }
                    }
                }
                let pre = view(vm, cast.m).unwrap();
                let di = pre.dl_info;
                Self::bystander_posts(vm, cast).expect("SETUP-FAILED bystander PoSt");
                let r = vm.tick();
                assert!(r.flat().iter().all(|i| i.ok()), "SETUP-FAILED tick: {}", r.tree());
                if vm.epoch() - 1 == di.last() && pre.st.deadline_cron_active && di.period_started() {
                    let post = view(vm, cast.m).unwrap();
                    self.model_deadline_end(&mut m, &pre, &post, di.index, di.last(), &vm.policy).expect("SETUP-FAILED deadline end in base recipe");
                }
            }
            assert!(!view(vm, cast.m).unwrap().st.deadline_cron_active, "SETUP-FAILED: the deadline cron did not wind down");
            // the debt is repaid (with change to spare) so that a new commitment is one deviation away
            let r = repay_debt(vm, cast.o, cast.m, &fil(100));
            assert!(r.ok(), "SETUP-FAILED debt repayment: {}", r.tree());
            // let a few idle epochs pass: the record must not depend on restarting at once
            for _ in 0..7 {
                let r = vm.tick();
                assert!(r.flat().iter().all(|i| i.ok()), "SETUP-FAILED tick: {}", r.tree());
            }
        }
        m.end = vm.epoch() + self.cfg.horizon.unwrap_or(self.cfg.periods * 24);
        m
    }
}

impl Scenario for Life {
    type S = VS<LifeM>;
    type A = Act;
    type W = W;

    fn name(&self) -> String {
        format!("miner-life/{}", self.cfg.name)
    }

    fn worker(&self, store: &Store) -> W {
        let vm = Vm::genesis(store.clone(), if self.cfg.big { big_policy() } else if self.cfg.backlog { backlog_policy() } else { small_policy() });
        let cast = setup_with(&vm, true, self.cfg.poor.clone());
        let mut cast = cast;
        let mut deposits = BTreeMap::new();
        deposits.insert(cast.m, cast.dep_m.clone());
        deposits.insert(cast.bm, cast.dep_bm.clone());
        if self.cfg.bystander {
            // a miner whose deadline boundaries coincide with the subject's (the offset is a hash
            // of address and epoch: retry at later epochs until they agree modulo the window)
            vm.bump_nonce.set(true);
            let win = vm.policy.wpost_challenge_window;
            let want = view(&vm, cast.m).unwrap().dl_info.close.rem_euclid(win);
            let mut found = None;
            for _ in 0..64 {
                let snap = vm.snapshot();
                let x = create_miner(&vm, cast.c, cast.c, post_proof(&vm), &fil(1000)).unwrap_or_else(|r| panic!("SETUP-FAILED bystander miner: {}", r.tree()));
                if view(&vm, x).unwrap().dl_info.close.rem_euclid(win) == want {
                    found = Some(x);
                    break;
                }
                vm.restore(&snap);
                vm.tick();
            }
            let x = found.expect("SETUP-FAILED: no bystander miner with aligned deadlines");
            let vx = view(&vm, x).unwrap();
            let r = ni_commit(&vm, cast.c, x, &[1, 2], (vx.dl_info.index + 2) % 4, vm.epoch() + 300);
            assert!(r.ok(), "SETUP-FAILED bystander NI commit: {}", r.tree());
            deposits.insert(x, vm.state_of::<fil_actor_miner::State>(x).unwrap().locked_funds);
            cast.extra.push(x);
            vm.bump_nonce.set(false);
        }
        let g = vm.snapshot();
        let mut bases = vec![];
        for (i, b) in self.cfg.bases.iter().enumerate() {
            vm.restore(&g);
            let m = self.mk_base(&vm, &cast, b, i);
            bases.push((b.to_string(), vm.snapshot(), m));
        }
        W { vm, cast, bases, deposits }
    }

    fn check_base(&self, w: &W, s: &VS<LifeM>) -> Option<String> {
        w.vm.restore(&s.snap);
        self.standing(w, &s.m, "base state").0
    }

    fn bases(&self, w: &W) -> Vec<(String, VS<LifeM>)> {
        w.bases.iter().map(|(n, s, m)| (n.clone(), VS { snap: s.clone(), m: m.clone() })).collect()
    }

    fn key(&self, s: &VS<LifeM>) -> Key {
        vs_key(s)
    }

    fn kind(&self, a: &Act) -> String {
        match a {
            Act::Advance => "advance".into(),
            Act::SkipPost => "skip-post".into(),
            Act::PostNow { skipped, bad } => format!("post-now skipped={} bad={bad}", skipped.len()),
            Act::DeclareFaults(_) => "declare-faults".into(),
            Act::DeclareRecovered(_) => "declare-recovered".into(),
            Act::Terminate(_) => "terminate".into(),
            Act::Dispute(_) => "dispute".into(),
            Act::Compact(_) => "compact".into(),
            Act::Onboard { .. } => "onboard".into(),
            Act::DeclareFaultsWrongPartition(_) => "declare-faults(wrong partition)".into(),
            Act::DeclareFaultsDup(_) => "declare-faults(declaration listed twice)".into(),
            Act::DeclareRecoveredDup(_) => "declare-recovered(declaration listed twice)".into(),
            Act::TerminateDup(_) => "terminate(declaration listed twice)".into(),
            Act::Extend(k) => format!("extend-expiration shape{k}"),
            Act::PreCommit(_) => "pre-commit".into(),
            Act::ProveCommit(_, bad) => format!("prove-commit bad={bad}"),
            Act::ProveCommitTwice(_) => "prove-commit (sector named twice)".into(),
            Act::ReportFault => "report-consensus-fault".into(),
            Act::RepayDebt => "repay-debt".into(),
            Act::Withdraw => "withdraw".into(),
            Act::AwardPenalty => "award-with-penalty".into(),
            Act::TopUp => "top-up".into(),
        }
    }

    fn actions(&self, w: &W, s: &VS<LifeM>) -> Vec<Act> {
        let m = &s.m;
        let now = s.snap.epoch;
        if now >= m.end {
            return vec![];
        }
        let mut v = vec![Act::Advance];
        if m.devs_left == 0 || m.frozen || m.recovery {
            return v;
        }
        w.vm.restore(&s.snap);
        let mv = view(&w.vm, w.cast.m).unwrap();
        let di = mv.dl_info;
        let open_now = di.open == now;
        let has_parts = !mv.dls[di.index as usize].parts.is_empty();
        if open_now && has_parts && m.suppressed != Some(now) {
            v.push(Act::SkipPost);
            for set in &self.cfg.sector_sets {
                v.push(Act::PostNow { skipped: set.clone(), bad: false });
            }
            v.push(Act::PostNow { skipped: vec![], bad: true });
        } else if has_parts && !open_now {
            v.push(Act::PostNow { skipped: vec![], bad: false });
        }
        for set in &self.cfg.sector_sets {
            v.push(Act::DeclareFaults(set.clone()));
            v.push(Act::DeclareRecovered(set.clone()));
            v.push(Act::Terminate(set.clone()));
        }
        v.push(Act::DeclareFaultsWrongPartition(vec![1]));
        if let Some(set) = self.cfg.sector_sets.first() {
            v.push(Act::DeclareFaultsDup(set.clone()));
            v.push(Act::DeclareRecoveredDup(set.clone()));
            v.push(Act::TerminateDup(set.clone()));
        }
        for d in 0..4 {
            v.push(Act::Dispute(d));
            v.push(Act::Compact(d));
        }
        if self.cfg.extensions {
            for k in 0..3 {
                v.push(Act::Extend(k));
            }
        }
        v.push(Act::Onboard { number: 4, dl_off: 0 });
        v.push(Act::Onboard { number: 4, dl_off: 1 });
        v.push(Act::Onboard { number: 1, dl_off: 0 }); // re-use of a number: must be rejected
        if self.cfg.precommits {
            v.push(Act::PreCommit(5));
            v.push(Act::PreCommit(1)); // number in use
            let mv = &mv;
            for n in mv.precommits.keys() {
                v.push(Act::ProveCommit(*n, false));
                v.push(Act::ProveCommit(*n, true));
                v.push(Act::ProveCommitTwice(*n));
            }
        }
        if self.cfg.money_devs {
            v.push(Act::ReportFault);
            v.push(Act::RepayDebt);
            v.push(Act::Withdraw);
            v.push(Act::TopUp);
            // only a miner with power can win a block (consensus precondition; DESIGN §3 C05 L)
            if mv.claim.as_ref().map(|c| c.0 > BigInt::zero()).unwrap_or(false) {
                v.push(Act::AwardPenalty);
            }
        }
        v
    }

    fn step(&self, w: &W, s: &VS<LifeM>, a: &Act, faults: &[usize]) -> Step<VS<LifeM>> {
        let vm = &w.vm;
        let c = &w.cast;
        vm.restore(&s.snap);
        let now = vm.epoch();
        let mut m = s.m.clone();
        let mut viol: Option<String> = None;
        let mut known: Vec<Known> = vec![];
        let mut outcome = "ok";
        let before = view(vm, c.m).unwrap();
        let di = before.dl_info;
        macro_rules! bad {
            ($e:expr) => {
                if viol.is_none() {
                    viol = Some($e);
                }
            };
        }
        let mut checkpoint = |m: &LifeM, what: &str, viol: &mut Option<String>, known: &mut Vec<Known>| {
            let (v, k) = self.standing(w, m, what);
            known.extend(k);
            if viol.is_none() {
                *viol = v;
            }
        };
        let mut accepted_dev = false;
        let mut sites: Vec<usize> = vec![];
        match a {
            Act::Advance => {
                if di.open == now && m.suppressed != Some(now) {
                    let parts = Self::default_post_parts(&before);
                    for chunk in parts.chunks(self.post_chunk()) {
                        let pre_msg = view(vm, c.m).unwrap();
                        let r = submit_post(vm, c.w, c.m, di.index, chunk, false);
                        if let Err(e) = all_ok(&r) {
                            bad!(e);
                        }
                        if let Some(e) = self.pen("default PoSt", &pre_msg, vm, &r, None, &TokenAmount::zero()) {
                            bad!(e);
                        }
                        if r.ok() {
                            let b2 = before.clone();
                            Self::model_post(&mut m, &b2, di.index, chunk, now);
                        }
                    }
                    checkpoint(&m, "after the default PoSt", &mut viol, &mut known);
                }
                if let Err(e) = Self::bystander_posts(vm, c) {
                    bad!(e);
                }
                let pre = view(vm, c.m).unwrap();
                if self.cfg.tick_faults {
                    vm.set_fault_plan(faults);
                }
                let r = vm.tick();
                if self.cfg.tick_faults && std::env::var("MC_DEBUG_TICK").ok().and_then(|e| e.parse::<i64>().ok()) == Some(now) {
                    eprintln!("TICK at {now} (faults {faults:?}):\n{}", r.tree());
                }
                if self.cfg.tick_faults && faults.is_empty() && !m.recovery {
                    sites = r.flat().iter().filter_map(|i| i.send_index).collect();
                }
                if self.cfg.tick_faults && !faults.is_empty() {
                    // F2: one nested send of this tick was failed. The tick itself must succeed,
                    // nothing may panic or report broken balance invariants, and nothing may
                    // fail except the failed send and the calls that contain it.
                    if let Err(e) = all_ok(&r) {
                        bad!(e);
                    }
                    if !r.ok() {
                        bad!(format!("cron tick at epoch {now} failed as a whole after one nested send was failed: {}", r.tree()));
                    }
                    fn unexplained<'a>(i: &'a Inv, out: &mut Vec<&'a Inv>) -> bool {
                        let mut contains = i.injected;
                        for sub in &i.subs {
                            contains |= unexplained(sub, out);
                        }
                        if !i.ok() && !contains {
                            out.push(i);
                        }
                        contains
                    }
                    let mut un = vec![];
                    let hit = unexplained(&r, &mut un);
                    if let Some(i) = un.first() {
                        bad!(format!("cron tick at epoch {now}: {} failed although the injected failure was elsewhere\n{}", i.brief(), r.tree()));
                    }
                    // the power actor tolerates a failing miner callback (it drops that miner's
                    // claim and goes on): its own tick entry must then succeed
                    fn beneath_callback(i: &Inv, inside: bool) -> bool {
                        let inside = inside || (i.from == 4 && i.method == fil_actor_miner::Method::OnDeferredCronEvent as u64);
                        if i.injected && inside {
                            return true;
                        }
                        i.subs.iter().any(|sub| beneath_callback(sub, inside))
                    }
                    if beneath_callback(&r, false) {
                        for i in r.flat() {
                            if !i.ok() && i.to_id() == Some(4) && i.method == fil_actor_power::Method::OnEpochTickEnd as u64 {
                                bad!(format!("cron tick at epoch {now}: the power actor's tick entry failed because one miner callback (or a send beneath it) failed\n{}", r.tree()));
                            }
                        }
                    }
                    outcome = if hit { "one nested send failed" } else { "planned send not reached" };
                    m.recovery = true;
                    m.power_tick_lost = r.flat().iter().any(|i| !i.ok() && i.to_id() == Some(4) && i.method == fil_actor_power::Method::OnEpochTickEnd as u64);
                    m.recovery_settled = false;
                    m.devs_left = 0;
                    m.end = std::cmp::min(m.end, now + 27);
                } else if m.recovery {
                    for i in r.flat() {
                        if !i.ok() {
                            bad!(format!("cron tick at epoch {now} (after an earlier injected failure): {} failed\n{}", i.brief(), r.tree()));
                        }
                    }
                    if let Err(e) = all_ok(&r) {
                        bad!(e);
                    }
                    m.recovery_settled = true;
                } else {
                if std::env::var("MC_DEBUG_TICK").ok().and_then(|e| e.parse::<i64>().ok()) == Some(now) {
                    eprintln!("TICK at {now}:\n{}", r.tree());
                }
                // C05: the tick and everything beneath it succeeds
                if self.cfg.oracles.c05 {
                    for i in r.flat() {
                        if !i.ok() && !i.injected {
                            bad!(format!("cron tick at epoch {now}: {} failed\n{}", i.brief(), r.tree()));
                        }
                    }
                }
                if let Err(e) = all_ok(&r) {
                    bad!(e);
                }
                let post = view(vm, c.m).unwrap();
                let is_end = now == di.last() && pre.st.deadline_cron_active && di.period_started();
                if self.cfg.oracles.c15 {
                    match self.tick_charge(&m, &pre, &post, &r, if is_end { Some((di.index, di.last())) } else { None }, &vm.policy) {
                        Ok(ch) => {
                            if let Err(e) = check_identity(&format!("cron tick at epoch {now}"), &pre, &post, &r, None, &ch) {
                                bad!(e);
                            }
                        }
                        Err(e) => bad!(e),
                    }
                }
                if is_end {
                    if let Err(e) = self.model_deadline_end(&mut m, &pre, &post, di.index, di.last(), &vm.policy) {
                        bad!(e);
                    }
                }
                if m.suppressed.is_some() && now >= di.last() {
                    m.suppressed = None;
                }
                }
            }
            Act::SkipPost => {
                m.suppressed = Some(now);
                accepted_dev = true;
                outcome = "suppressed";
            }
            Act::PostNow { skipped, bad: badproof } => {
                let d = &before.dls[di.index as usize];
                let parts: Vec<(u64, Vec<u64>)> = d
                    .parts
                    .iter()
                    .enumerate()
                    .map(|(pi, p)| (pi as u64, skipped.iter().cloned().filter(|s| p.sectors.contains(s)).collect()))
                    .collect();
                let r = submit_post(vm, c.w, c.m, di.index, &parts, *badproof);
                if let Err(e) = all_ok(&r) {
                    bad!(e);
                }
                if let Some(e) = self.pen("PoSt", &before, vm, &r, None, &TokenAmount::zero()) {
                    bad!(e);
                }
                if r.ok() {
                    Self::model_post(&mut m, &before, di.index, &parts, now);
                    if *badproof {
                        m.bad_posts.insert(di.index, di.close);
                    } else {
                        m.bad_posts.remove(&di.index);
                    }
                    if di.open == now {
                        m.suppressed = Some(now); // this PoSt replaces the default one
                    }
                    accepted_dev = true;
                    outcome = "accepted";
                } else {
                    outcome = "rejected";
                }
            }
            Act::DeclareFaults(set) | Act::DeclareFaultsWrongPartition(set) | Act::DeclareFaultsDup(set) => {
                let mut decls = Self::decls(&before, set);
                if matches!(a, Act::DeclareFaultsDup(_)) {
                    decls.extend(decls.clone());
                }
                if matches!(a, Act::DeclareFaultsWrongPartition(_)) {
                    for d in decls.iter_mut() {
                        d.1 += 1;
                    }
                }
                let r = declare_faults(vm, c.w, c.m, &decls);
                if let Err(e) = all_ok(&r) {
                    bad!(e);
                }
                if let Some(e) = self.pen("fault declaration", &before, vm, &r, None, &TokenAmount::zero()) {
                    bad!(e);
                }
                if r.ok() && !decls.is_empty() {
                    if matches!(a, Act::DeclareFaultsWrongPartition(_)) {
                        bad!(format!("fault declaration addressing a partition that does not hold the sectors was accepted: {decls:?}"));
                    }
                    for s in set {
                        if let Some(sm) = m.sectors.get_mut(s) {
                            if sm.gone {
                                continue;
                            }
                            if sm.recovering {
                                sm.recovering = false;
                            } else if !sm.faulty {
                                sm.faulty = true;
                                sm.faulty_since = Some(now);
                            }
                        }
                    }
                    accepted_dev = true;
                    outcome = "accepted";
                } else {
                    outcome = "rejected";
                }
            }
            Act::DeclareRecovered(set) | Act::DeclareRecoveredDup(set) => {
                let mut decls = Self::decls(&before, set);
                if matches!(a, Act::DeclareRecoveredDup(_)) {
                    decls.extend(decls.clone());
                }
                let r = declare_recovered(vm, c.w, c.m, &decls);
                if let Err(e) = all_ok(&r) {
                    bad!(e);
                }
                if let Some(e) = self.pen("recovery declaration", &before, vm, &r, None, &TokenAmount::zero()) {
                    bad!(e);
                }
                if r.ok() && before.st.fee_debt.is_positive() && view(vm, c.m).map(|v| v.st.fee_debt.is_positive()).unwrap_or(false) {
                    bad!("recovery declaration accepted while fee debt stays unpaid".to_string());
                }
                if r.ok() && !decls.is_empty() {
                    for s in set {
                        if let Some(sm) = m.sectors.get_mut(s)
                            && !sm.gone
                            && sm.faulty
                        {
                            sm.recovering = true;
                        }
                    }
                    accepted_dev = true;
                    outcome = "accepted";
                } else {
                    outcome = "rejected";
                }
            }
            Act::Terminate(set) | Act::TerminateDup(set) => {
                let mut decls = Self::decls(&before, set);
                if matches!(a, Act::TerminateDup(_)) {
                    decls.extend(decls.clone());
                }
                let est = est_now(vm);
                let r = terminate(vm, c.w, c.m, &decls);
                if let Err(e) = all_ok(&r) {
                    bad!(e);
                }
                if self.cfg.oracles.c15 {
                    let post = view(vm, c.m).unwrap();
                    let mut added = BTreeMap::new();
                    if r.ok() {
                        for (_, _, ss) in &decls {
                            for s in ss {
                                added.insert(*s, now);
                            }
                        }
                    }
                    match term_fees_processed(&before, &post, &added, &est) {
                        Ok((fees, _)) => {
                            if let Err(e) = check_identity("termination", &before, &post, &r, None, &fees) {
                                bad!(e);
                            }
                        }
                        Err(e) => bad!(e),
                    }
                }
                if r.ok() && !decls.is_empty() {
                    for s in set {
                        if let Some(sm) = m.sectors.get_mut(s) {
                            sm.gone = true;
                            sm.faulty = false;
                            sm.recovering = false;
                        }
                    }
                    accepted_dev = true;
                    outcome = "accepted";
                } else {
                    outcome = "rejected";
                }
            }
            Act::Extend(k) => {
                let period = vm.policy.wpost_proving_period;
                let exp = |s: u64| before.sectors.get(&s).map(|i| i.expiration);
                let groups: Vec<(Vec<u64>, Option<i64>)> = match k {
                    0 => vec![(vec![1], exp(1).map(|e| e + period))],
                    1 => {
                        let e = exp(1).and_then(|a| exp(3).map(|b| a.max(b) + period));
                        vec![(vec![1], e), (vec![3], e)]
                    }
                    _ => vec![(vec![1], exp(1).map(|e| e + period)), (vec![2], exp(2).map(|e| e + 2 * period))],
                };
                let mut decls = vec![];
                for (ss, e) in &groups {
                    if let (Some(e), Some((d, p, _))) = (e, before.part_of(ss[0])) {
                        decls.push((d, p, ss.clone(), *e));
                    }
                }
                let r = extend2(vm, c.w, c.m, &decls);
                if let Err(e) = all_ok(&r) {
                    bad!(e);
                }
                if let Some(e) = self.pen("expiration extension", &before, vm, &r, None, &TokenAmount::zero()) {
                    bad!(e);
                }
                if r.ok() && decls.len() == groups.len() {
                    // the sector model has no expirations of its own (they are read from the sector
                    // infos); every derived index is recomputed by the standing oracles
                    let after = view(vm, c.m).unwrap();
                    for (_, _, ss, e) in &decls {
                        for s in ss {
                            if after.sectors.get(s).map(|i| i.expiration) != Some(*e) {
                                bad!(format!("accepted extension of sector {s} to {e} but its recorded expiration is {:?}", after.sectors.get(s).map(|i| i.expiration)));
                            }
                        }
                    }
                    accepted_dev = true;
                    outcome = "accepted";
                } else {
                    outcome = "rejected";
                }
            }
            Act::Dispute(d) => {
                let charge = if self.cfg.oracles.c15 { dispute_charge(vm, c.m, *d, 0, &est_now(vm)) } else { None };
                vm.set_fault_plan(faults);
                let r = dispute(vm, c.z, c.m, *d, 0);
                if let Err(e) = all_ok(&r) {
                    bad!(e);
                }
                if faults.is_empty() {
                    sites = r.flat().iter().filter(|i| i.from == c.m && i.to_id() == Some(c.z) && i.method == 0 && !i.value.is_zero()).filter_map(|i| i.send_index).collect();
                }
                let ch = if r.ok() { charge.unwrap_or_default() } else { TokenAmount::zero() };
                if let Some(e) = self.pen("PoSt dispute", &before, vm, &r, Some(c.z), &ch) {
                    bad!(e);
                }
                // a PoSt with an invalid proof must be disputable during its dispute window
                if let Some(close) = m.bad_posts.get(d).cloned() {
                    let in_window = now >= close && now < close + vm.policy.wpost_dispute_window && di.index != *d;
                    let recorded = before.dls[*d as usize].optimistic_posts_snapshot > 0;
                    if in_window && recorded && faults.is_empty() && !r.ok() && (self.cfg.oracles.c15 || self.cfg.oracles.c02) {
                        bad!(format!("dispute of the invalid PoSt of deadline {d} (window closed at {close}) was rejected at epoch {now}: {}", r.tree()));
                    }
                    if r.ok() || now >= close + vm.policy.wpost_dispute_window {
                        m.bad_posts.remove(d);
                    }
                }
                if r.ok() {
                    // a successful dispute faults every sector the disputed proof vouched for
                    let after = view(vm, c.m).unwrap();
                    let sets = Self::live_sets(&after);
                    for p in &before.dls[*d as usize].parts {
                        for s in p.sectors.difference(&p.terminated) {
                            let sm = m.sectors.get_mut(s).unwrap();
                            let now_faulty = sets.get(s).map(|x| x.1).unwrap_or(false);
                            if now_faulty && !sm.faulty {
                                sm.faulty = true;
                                sm.faulty_since = Some(now);
                            }
                            if now_faulty {
                                sm.recovering = sets.get(s).map(|x| x.2).unwrap_or(false);
                            }
                        }
                    }
                    accepted_dev = true;
                    outcome = "accepted";
                } else {
                    outcome = "rejected";
                }
            }
            Act::Compact(d) => {
                let n = before.dls[*d as usize].parts.len() as u64;
                let parts: Vec<u64> = (0..n).collect();
                let r = compact(vm, c.w, c.m, *d, &parts);
                if let Err(e) = all_ok(&r) {
                    bad!(e);
                }
                if let Some(e) = self.pen("compaction", &before, vm, &r, None, &TokenAmount::zero()) {
                    bad!(e);
                }
                if r.ok() && n > 0 {
                    accepted_dev = true;
                    outcome = "accepted";
                } else {
                    outcome = "rejected";
                }
            }
            Act::Onboard { number, dl_off } => {
                let dl = (di.index + 2 + dl_off) % 4;
                let r = ni_commit(vm, c.w, c.m, &[*number], dl, now + 100);
                if let Err(e) = all_ok(&r) {
                    bad!(e);
                }
                if let Some(e) = self.pen("on-boarding", &before, vm, &r, None, &TokenAmount::zero()) {
                    bad!(e);
                }
                if r.ok() && before.st.fee_debt.is_positive() && view(vm, c.m).map(|v| v.st.fee_debt.is_positive()).unwrap_or(false) {
                    bad!("on-boarding accepted while fee debt stays unpaid".to_string());
                }
                if r.ok() {
                    if m.ever.contains(number) {
                        bad!(format!("sector number {number} was committed a second time"));
                    }
                    m.ever.insert(*number);
                    m.sectors.insert(*number, SecM { proven: false, faulty: false, recovering: false, gone: false, faulty_since: None });
                    accepted_dev = true;
                    outcome = "accepted";
                } else {
                    outcome = "rejected";
                }
            }
            Act::PreCommit(number) => {
                let exp = min_precommit_expiration(&vm.policy, now) + 10;
                let r = precommit(vm, c.w, c.m, *number, exp);
                if let Err(e) = all_ok(&r) {
                    bad!(e);
                }
                if let Some(e) = self.pen("pre-commit", &before, vm, &r, None, &TokenAmount::zero()) {
                    bad!(e);
                }
                if r.ok() {
                    if m.ever.contains(number) {
                        bad!(format!("sector number {number} was pre-committed although already used"));
                    }
                    m.ever.insert(*number);
                    let post = view(vm, c.m).unwrap();
                    if post.st.fee_debt.is_positive() {
                        bad!("pre-commit accepted while fee debt stays unpaid".to_string());
                    }
                    accepted_dev = true;
                    outcome = "accepted";
                } else {
                    outcome = "rejected";
                }
            }
            Act::ProveCommit(number, _) | Act::ProveCommitTwice(number) => {
                let twice = matches!(a, Act::ProveCommitTwice(_));
                let badproof = &matches!(a, Act::ProveCommit(_, true));
                let nums: Vec<u64> = if twice { vec![*number, *number] } else { vec![*number] };
                let r = prove_commit3(vm, c.w, c.m, &nums, *badproof);
                if let Err(e) = all_ok(&r) {
                    bad!(e);
                }
                if let Some(e) = self.pen("prove-commit", &before, vm, &r, None, &TokenAmount::zero()) {
                    bad!(e);
                }
                let post = view(vm, c.m).unwrap();
                if post.sectors.contains_key(number) && !before.sectors.contains_key(number) {
                    if *badproof {
                        bad!(format!("sector {number} was activated with an invalid proof"));
                    }
                    m.sectors.insert(*number, SecM { proven: false, faulty: false, recovering: false, gone: false, faulty_since: None });
                    accepted_dev = true;
                    outcome = "activated";
                } else {
                    outcome = if r.ok() { "not activated" } else { "rejected" };
                }
            }
            Act::ReportFault => {
                let (penalty, _slasher) = consensus_fault_charge(&est_now(vm));
                vm.set_fault_plan(faults);
                let r = report_fault(vm, c.z, c.m, now - 1);
                if let Err(e) = all_ok(&r) {
                    bad!(e);
                }
                if faults.is_empty() {
                    sites = r.flat().iter().filter(|i| i.from == c.m && i.to_id() == Some(c.z) && i.method == 0 && !i.value.is_zero()).filter_map(|i| i.send_index).collect();
                }
                let ch = if r.ok() { penalty } else { TokenAmount::zero() };
                if std::env::var("MC_DEBUG_RCF").is_ok() {
                    eprintln!("RCF faults={faults:?} sites={sites:?} charged={ch}\n{}", r.tree());
                }
                if let Some(e) = self.pen("consensus fault report", &before, vm, &r, Some(c.z), &ch) {
                    bad!(e);
                }
                if r.ok() {
                    accepted_dev = true;
                    outcome = "accepted";
                } else {
                    outcome = "rejected";
                }
            }
            Act::RepayDebt => {
                let r = repay_debt(vm, c.o, c.m, &fil(100));
                if let Err(e) = all_ok(&r) {
                    bad!(e);
                }
                if let Some(e) = self.pen("debt repayment", &before, vm, &r, None, &TokenAmount::zero()) {
                    bad!(e);
                }
                if r.ok() {
                    accepted_dev = true;
                    outcome = if before.st.fee_debt.is_positive() { "repaid" } else { "no debt" };
                } else {
                    outcome = "rejected";
                }
            }
            Act::Withdraw => {
                let r = withdraw(vm, c.o, c.m, &fil(1_000_000));
                if let Err(e) = all_ok(&r) {
                    bad!(e);
                }
                if let Some(e) = self.pen("withdrawal", &before, vm, &r, None, &TokenAmount::zero()) {
                    bad!(e);
                }
                if r.ok() {
                    let post = view(vm, c.m).unwrap();
                    if post.st.fee_debt.is_positive() {
                        bad!("withdrawal accepted while fee debt stays unpaid".to_string());
                    }
                    if !before.st.early_terminations.is_empty() {
                        bad!("withdrawal accepted while early terminations are unprocessed".to_string());
                    }
                    let keep = &post.st.locked_funds + &post.st.pre_commit_deposits + &post.st.initial_pledge;
                    if post.balance < keep {
                        bad!(format!("withdrawal left the balance {} below vesting + deposits + pledge {}", post.balance, keep));
                    }
                    accepted_dev = true;
                    outcome = "accepted";
                } else {
                    outcome = "rejected";
                }
            }
            Act::TopUp => {
                let r = ext(vm, c.o, &id(c.m), &TokenAmount::from_nano(1_000_000), 0, NOP);
                if let Some(e) = self.pen("top-up", &before, vm, &r, None, &TokenAmount::zero()) {
                    bad!(e);
                }
                accepted_dev = r.ok();
                outcome = if r.ok() { "accepted" } else { "rejected" };
            }
            Act::AwardPenalty => {
                let gas_penalty = TokenAmount::from_nano(5);
                let r = award(vm, c.m, &gas_penalty, &TokenAmount::zero());
                if let Err(e) = all_ok(&r) {
                    bad!(e);
                }
                // the reward actor charges a multiple of the gas penalty; read what it sent
                let mut charged = TokenAmount::zero();
                for i in r.effective() {
                    if i.to_id() == Some(c.m) && i.method == fil_actor_miner::Method::ApplyRewards as u64
                        && let Some(p) = i.params.as_ref().and_then(|p| p.deserialize::<fil_actor_miner::ApplyRewardParams>().ok())
                    {
                        if p.penalty < gas_penalty {
                            bad!(format!("block penalty {} smaller than the gas penalty {}", p.penalty, gas_penalty));
                        }
                        charged = p.penalty;
                    }
                }
                if let Some(e) = self.pen("block reward with penalty", &before, vm, &r, None, &charged) {
                    bad!(e);
                }
                accepted_dev = true;
                outcome = if charged.is_positive() { "applied" } else { "not applied" };
            }
        }
        if accepted_dev {
            m.devs_left -= 1;
        }
        // sectors removed from partitions by compaction disappear from the view: the model keeps
        // them as gone
        checkpoint(&m, &format!("after {a:?} at epoch {now}"), &mut viol, &mut known);
        if known.iter().any(|k| k.id == "KF-7") {
            // the state is known to be off schedule from here on: not explored further
            m.end = now;
        }
        let mut st = Step::new(VS { snap: vm.snapshot(), m }, outcome);
        st.agreed = 1;
        st.sites = sites;
        st.violation = viol;
        known.sort();
        known.dedup();
        st.known = known;
        st
    }

    fn describe(&self) -> serde_json::Value {
        json!({"policy": "SMALL (4 deadlines x 6 epochs, 2 KiB sectors, 2 sectors per partition, fault max age 48, min sector life 72)",
               "config": self.cfg.name, "horizon_periods": self.cfg.periods, "deviation_budget": self.cfg.devs,
               "bases": self.cfg.bases, "sector_sets": self.cfg.sector_sets,
               "default": "submit the full PoSt when a window opens; otherwise let one epoch pass (real cron every epoch)",
               "fault_class_F2_every_nested_send_of_a_tick": self.cfg.tick_faults,
               "deviations": ["skip PoSt", "PoSt with skipped sets", "bad-proof PoSt", "late/repeated PoSt", "declare faults", "declare recovered", "terminate", "dispute", "compact partitions", "onboard (new / reused number)", "fault declaration with wrong partition"],
               "oracles": format!("{:?}", self.cfg.oracles)})
    }
}

pub fn sets_small() -> Vec<Vec<u64>> {
    vec![vec![1], vec![1, 2], vec![3], vec![1, 3]]
}
pub fn sets_all() -> Vec<Vec<u64>> {
    vec![vec![1], vec![2], vec![3], vec![1, 2], vec![1, 3], vec![2, 3], vec![1, 2, 3]]
}

