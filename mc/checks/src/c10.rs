//! C10 — Verified claims back quality-adjusted power and obey their terms. DESIGN §3 C10.
//!
//! Two instances of one scenario, both with a real miner, the real verified registry and the real
//! DataCap token (verifier and client funded through the root multisig, allocations created by a
//! DataCap transfer to the registry):
//!
//! * `c10/update` — SMALL policy unchanged. Committed-capacity sectors (`ProveCommitSectorsNI`) are
//!   proven and then receive verified pieces through `ProveReplicaUpdates3`; the on-boarding itself
//!   is also part of the alphabet (base `onboard`).
//! * `c10/commit` — `PreCommitSectorBatch2` + `ProveCommitSectors3` with piece manifests carrying
//!   `verified_allocation_key`. Pre-commit demands `expiration >= now + max_prove_commit_duration +
//!   min_sector_expiration`, and `max_prove_commit_duration` is a hard-coded constant (>= 1 day), so
//!   this instance needs three documented changes to SMALL (see `commit_policy`).
//!
//! The oracle is the property and nothing else; it is recomputed from decoded state after every
//! message and after every single epoch tick:
//!
//! (S1) every live sector (in a partition, not terminated, `now < expiration`) satisfies
//!      `verified_deal_weight == (Σ size of its backing claims) · (expiration − power_base_epoch)`,
//!      backing claims = registry claims with (provider, sector) that no accepted extension declared
//!      as dropped;
//! (S2) each backing claim has `term_start ≥ activation` and
//!      `term_start + term_min ≤ expiration ≤ term_start + term_max`;
//! (S3) the miner's power claim equals Σ over proven, healthy, unterminated sectors of
//!      `(size, size·(10·v + (size − v))/size)` with `v` the verified space;
//! (T1) a claim's `term_max` never decreases; (T2) a claim disappears only at an epoch
//!      `≥ term_start + term_max`; (T3) an allocation disappears only at an epoch `≥ expiration`
//!      or by becoming the claim with the same id;
//! (T4) a transition that raises a sector's expiration past `term_start + term_max` of one of its
//!      backing claims must have dropped that claim, and only within the final
//!      `end_of_life_claim_drop_period` of the sector's life.
//!
//! Claim terms are moved both ways the registry offers: `ExtendClaimTerms` by the client (bounded by
//! the policy maximum; `term_max` exactly the policy maximum, unchanged, one less) and the
//! DataCap-funded extension through the receiver hook (bounded by now + policy maximum − term_start,
//! so that a claim's `term_max` can come to exceed the policy maximum; largest allowed value, one
//! more, current + 1, one less). (T1) must hold across every order of the two.
//!
//! Accept/reject of every individual message is adopted from the implementation (an actor panic,
//! e.g. the division by zero reachable through `ExtendSectorExpiration2` with `new_expiration ==
//! current epoch == sector expiration`, is a rejection like any other: the property is silent).
//!
//! Finding on the unchanged tree (id `KF-4` here; reported as VIOLATION unless known_findings.json
//! lists it as open for C10): `validate_extension_declarations` does not reject a claim id that is
//! named several times. With claims a = 256 B and b = 512 B in one sector, `maintain_claims =
//! [a, a, a]` declares 768 B = the sector's verified space, b is never looked at, and the sector is
//! extended past b's maximum term (at any age, keeping all of its QA power). The signature used
//! for the classification is narrow: accepted declaration with a repeated id AND one of the
//! sector/claim relations S1, S2, T4 broken; the trace is not judged further. (Repaired in /repo
//! 1e0afeb; the actions stay in the alphabet as a regression guard.)
//!
//! Second finding, same mechanism one level up (id `KF-6` here, same treatment): one
//! `ExtendSectorExpiration2` message may name the same sector in two declarations. The first lists
//! the claims as maintained with a new expiration every claim allows (the term check uses *that*
//! declaration's expiration); the second names the bare sector with a later expiration, finds the
//! sector's claim space already recorded and extends it again without any term check.
use crate::miner::*;
use crate::util::*;
use cid::Cid;
use fil_actor_datacap::Method as DcMethod;
use fil_actor_miner::{
    CompactCommD, ExpirationExtension2, ExtendSectorExpiration2Params, Method as MinerMethod,
    PieceActivationManifest, PreCommitSectorBatchParams2, ProveCommitSectors3Params,
    ProveReplicaUpdates3Params, SectorActivationManifest, SectorClaim, SectorOnChainInfo,
    SectorPreCommitInfo, SectorUpdateManifest, VerifiedAllocationKey,
};
use fil_actor_multisig::{Method as MsigMethod, ProposeParams, ProposeReturn};
use fil_actor_verifreg::{
    Allocation, AllocationRequest, AllocationRequests, AllocationsResponse, Claim,
    ClaimExtensionRequest, ClaimTerm, ExtendClaimTermsParams, Method as VrMethod,
    RemoveExpiredAllocationsParams, RemoveExpiredClaimsParams, State as VrState, VerifierParams,
};
use fil_actors_runtime::runtime::{Policy, Primitives};
use fil_actors_runtime::test_utils::{make_piece_cid, make_sealed_cid};
use fil_actors_runtime::{DEFAULT_HAMT_CONFIG, Map2, VERIFIED_REGISTRY_ACTOR_ADDR};
use frc46_token::token::state::decode_actor_id;
use frc46_token::token::types::{TransferParams, TransferReturn};
use fvm_ipld_encoding::RawBytes;
use fvm_shared::ActorID;
use fvm_shared::bigint::BigInt;
use fvm_shared::econ::TokenAmount;
use fvm_shared::piece::{PaddedPieceSize, PieceInfo};
use fvm_shared::sector::{RegisteredSealProof, RegisteredUpdateProof};
use mcvm::{Inv, Store, VERIFREG_ROOT_ID, VERIFREG_ROOT_SIGNER_ID, Vm};
use mcx::{Bounds, Key, Known, Scenario, Step};
use num_traits::Zero;
use serde::{Deserialize, Serialize};
use serde_json::json;
use std::collections::{BTreeMap, BTreeSet};

const REG: ActorID = 6;
const DCAP: ActorID = 7;
/// seal proof usable for pre-commit in the `commit` instance (max prove-commit duration 1 day + delay)
const SEAL_PROOF_V1: RegisteredSealProof = RegisteredSealProof::StackedDRG2KiBV1;
/// life of the committed-capacity sectors of the `update` instance, from the NI commit
const CC_LIFE: i64 = 140;
const TERM_MIN: i64 = 72;
/// id under which the duplicate-claim-id defect is listed in known_findings.json (if it is)
const KF_DUP: &str = "KF-4";
/// id under which the one-sector-in-two-declarations defect is listed in known_findings.json (if it is)
const KF_TWO: &str = "KF-6";
const KF_TWO_TEXT: &str = "ExtendSectorExpiration2 accepts one message whose declarations name the same sector twice: the maintained claims are checked against the first declaration's new expiration only, a later declaration naming the sector without claims re-uses the recorded claim space and extends it past a maintained claim's maximum term without dropping it";
const KF_DUP_TEXT: &str = "ExtendSectorExpiration2 accepts a declaration naming the same claim id more than once: the declared space adds up while another claim of the sector is not declared at all, so the sector is extended past that claim's maximum term without dropping it";

#[derive(Clone, Copy, Debug, PartialEq, Eq)]
pub enum Mode {
    Update,
    Commit,
}

/// SMALL with the three changes without which `PreCommitSectorBatch2` cannot succeed at all:
/// pre-commit requires `expiration − (now + max_prove_commit_duration) ≥ min_sector_expiration`
/// and `expiration ≤ now + max_sector_expiration_extension`; `max_prove_commit_duration` is a
/// hard-coded constant per proof type (1 day + delay for V1 proofs, 30 days for V1P1), and a
/// claim needs `term_max ≥ expiration − activation`.
pub fn commit_policy() -> Policy {
    let mut p = small_policy();
    p.valid_pre_commit_proof_type.insert(SEAL_PROOF_V1);
    p.max_sector_expiration_extension = 3200;
    p.maximum_verified_allocation_term = 3200;
    p
}

#[derive(Clone, Debug, Serialize, Deserialize, PartialEq, Eq)]
pub enum Act {
    /// default PoSt when a window opens, then one epoch passes (real cron)
    Tick,
    /// the same, repeated until the given epoch
    JumpTo(i64),
    /// `ExtendSectorExpiration2` for one sector; claims of the sector named in neither list are
    /// *omitted*; a claim may be named more than once
    Extend { sector: u64, maintain: Vec<u64>, drop: Vec<u64>, new_exp: i64 },
    /// one `ExtendSectorExpiration2` message with two declarations (same deadline and partition)
    /// that both name the sector: (maintain, drop, new expiration) each, in message order
    ExtendTwice { sector: u64, first: (Vec<u64>, Vec<u64>, i64), second: (Vec<u64>, Vec<u64>, i64) },
    /// `VerifiedRegistry.ExtendClaimTerms` by the client (`pick` says how `term_max` was chosen)
    ExtendTerm {
        claim: u64,
        term_max: i64,
        #[serde(default)]
        pick: Pick,
    },
    /// claim extension paid with DataCap: the client transfers the claim's size in DataCap to the
    /// registry with operator data carrying a `ClaimExtensionRequest` (the hook burns the tokens)
    ExtendTermByDatacap {
        claim: u64,
        term_max: i64,
        #[serde(default)]
        pick: Pick,
    },
    /// `RemoveExpiredClaims` by a stranger; empty = all eligible
    RemoveClaims(Vec<u64>),
    /// `RemoveExpiredAllocations` by a stranger; empty = all eligible
    RemoveAllocs(Vec<u64>),
    Terminate(u64),
    /// `ProveReplicaUpdates3` of a committed-capacity sector with the given open allocations
    Snap { sector: u64, allocs: Vec<u64> },
}

/// How the `term_max` of a claim-term action was chosen from the state (for the statistics only).
#[derive(Clone, Copy, Debug, Default, Serialize, Deserialize, PartialEq, Eq)]
pub enum Pick {
    #[default]
    Plus30,
    /// current term_max + 1
    Plus1,
    /// the current term_max again
    Same,
    /// current term_max − 1
    Minus1,
    /// exactly `policy.maximum_verified_allocation_term`
    PolicyMax,
    /// the largest value a DataCap-funded extension may ask for now: now + policy maximum − term_start
    LargestNow,
    /// that + 1
    LargestNowPlus1,
}

impl Pick {
    fn label(&self) -> &'static str {
        match self {
            Pick::Plus30 => "current + 30",
            Pick::Plus1 => "current + 1",
            Pick::Same => "unchanged",
            Pick::Minus1 => "current - 1",
            Pick::PolicyMax => "exactly the policy maximum",
            Pick::LargestNow => "largest allowed now",
            Pick::LargestNowPlus1 => "largest allowed now + 1",
        }
    }
}

#[derive(Clone, Debug, Serialize)]
pub struct M {
    pub base: usize,
    pub end: i64,
    pub ext_left: u8,
    pub term_left: u8,
    /// DataCap-funded claim extensions still allowed
    pub dc_left: u8,
    pub misc_left: u8,
    pub ticks_left: u8,
    pub onboard_left: u8,
    /// claims declared as dropped by an accepted extension
    pub dropped: BTreeSet<u64>,
    /// a listed known finding was observed on this trace: nothing behind it is judged
    pub frozen: bool,
}

pub struct Cfg {
    pub mode: Mode,
    pub bases: Vec<&'static str>,
    pub ext: u8,
    pub term: u8,
    pub dc: u8,
    /// offer the small raises ExtendClaimTerms(current + 30) and DataCap-funded (current + 1) besides
    /// "exactly the policy maximum" / "largest allowed now" (thorough tier)
    pub plus30: bool,
    pub misc: u8,
    pub ticks: u8,
    pub onboard: u8,
    /// how many of the next time boundaries are offered as jump targets
    pub jumps: usize,
    pub known_open: BTreeSet<String>,
}

pub struct Scn {
    pub cfg: Cfg,
}

pub struct Cast {
    pub mc: MinerCast,
    pub verifier: ActorID,
    pub client: ActorID,
}

pub struct W {
    pub vm: Vm,
    pub cast: Cast,
    pub bases: Vec<(String, mcvm::Snapshot, M)>,
    /// observation of the state most recently expanded by this worker (pure function of the snapshot)
    pub cache: std::cell::RefCell<Option<(mcvm::Snapshot, Obs)>>,
}

impl W {
    /// restore `snap` and observe it
    fn at(&self, snap: &mcvm::Snapshot) -> Obs {
        self.vm.restore(snap);
        if let Some((s, o)) = &*self.cache.borrow()
            && s == snap
        {
            return o.clone();
        }
        let o = observe(&self.vm, self.cast.mc.m);
        self.cache.replace(Some((snap.clone(), o.clone())));
        o
    }
}

// ------------------------------------------------------------------ observation

#[derive(Clone, Debug)]
pub struct SecSt {
    pub info: SectorOnChainInfo,
    pub dl: u64,
    pub part: u64,
    pub unproven: bool,
    pub faulty: bool,
    pub terminated: bool,
}

#[derive(Clone, Debug)]
pub struct Obs {
    pub now: i64,
    pub miner_head: Cid,
    pub reg_head: Cid,
    /// sectors present in some partition
    pub secs: BTreeMap<u64, SecSt>,
    pub power: Option<(BigInt, BigInt)>,
    /// (provider, claim id) -> claim
    pub claims: BTreeMap<(u64, u64), Claim>,
    /// (client, allocation id) -> allocation
    pub allocs: BTreeMap<(u64, u64), Allocation>,
}

fn tok(bytes: u64) -> TokenAmount {
    TokenAmount::from_atto(BigInt::from(bytes) * BigInt::from(1_000_000_000_000_000_000u64))
}

fn piece_cid(tag: u8) -> Cid {
    make_piece_cid(&[b'c', b'1', b'0', tag])
}

fn registry(vm: &Vm) -> (BTreeMap<(u64, u64), Claim>, BTreeMap<(u64, u64), Allocation>) {
    let vr: VrState = vm.state_of(REG).expect("verifreg state");
    let mut allocs = BTreeMap::new();
    vr.load_allocs(&vm.store)
        .unwrap()
        .for_each(|k, root| {
            let outer = decode_actor_id(k).unwrap();
            Map2::<&Store, u64, Allocation>::load(&vm.store, root, DEFAULT_HAMT_CONFIG, "allocs")
                .unwrap()
                .for_each(|id, a| {
                    allocs.insert((outer, id), a.clone());
                    Ok(())
                })
                .unwrap();
            Ok(())
        })
        .unwrap();
    let mut claims = BTreeMap::new();
    vr.load_claims(&vm.store)
        .unwrap()
        .for_each(|k, root| {
            let outer = decode_actor_id(k).unwrap();
            Map2::<&Store, u64, Claim>::load(&vm.store, root, DEFAULT_HAMT_CONFIG, "claims")
                .unwrap()
                .for_each(|id, c| {
                    claims.insert((outer, id), c.clone());
                    Ok(())
                })
                .unwrap();
            Ok(())
        })
        .unwrap();
    (claims, allocs)
}

/// Decode what the oracle needs of the miner: sector infos and, per partition, the status sets.
fn sector_table(vm: &Vm, m: ActorID) -> BTreeMap<u64, SecSt> {
    let st: fil_actor_miner::State = vm.state_of(m).expect("miner actor exists");
    let store = &vm.store;
    let mut infos: BTreeMap<u64, SectorOnChainInfo> = BTreeMap::new();
    fil_actor_miner::Sectors::load(store, &st.sectors)
        .unwrap()
        .amt
        .for_each(|i, s| {
            infos.insert(i, s.clone());
            Ok(())
        })
        .unwrap();
    let mut out = BTreeMap::new();
    let deadlines = st.load_deadlines(store).unwrap();
    for di in 0..vm.policy.wpost_period_deadlines {
        let dl = deadlines.load_deadline(store, di).unwrap();
        dl.partitions_amt(store)
            .unwrap()
            .for_each(|pi, p| {
                for s in p.sectors.iter() {
                    if let Some(info) = infos.get(&s) {
                        out.insert(
                            s,
                            SecSt { info: info.clone(), dl: di, part: pi, unproven: p.unproven.get(s), faulty: p.faults.get(s), terminated: p.terminated.get(s) },
                        );
                    }
                }
                Ok(())
            })
            .unwrap();
    }
    out
}

fn power_of(vm: &Vm, m: ActorID) -> Option<(BigInt, BigInt)> {
    power_state(vm).get_claim(&vm.store, &id(m)).unwrap().map(|c| (c.raw_byte_power, c.quality_adj_power))
}

fn observe(vm: &Vm, m: ActorID) -> Obs {
    let (claims, allocs) = registry(vm);
    Obs {
        now: vm.epoch(),
        miner_head: vm.actor(m).expect("miner actor exists").state,
        reg_head: vm.actor(REG).unwrap().state,
        secs: sector_table(vm, m),
        power: power_of(vm, m),
        claims,
        allocs,
    }
}

/// Cheap re-observation after a tick: when neither the miner's nor the registry's state changed
/// the decoded parts are carried over (they are functions of those two state trees).
fn reobserve(vm: &Vm, m: ActorID, prev: &Obs) -> (Obs, bool) {
    let mh = vm.actor(m).unwrap().state;
    let rh = vm.actor(REG).unwrap().state;
    if mh == prev.miner_head && rh == prev.reg_head {
        let power = power_of(vm, m);
        let same = power == prev.power;
        let mut o = prev.clone();
        o.now = vm.epoch();
        o.power = power;
        (o, same)
    } else {
        (observe(vm, m), false)
    }
}

/// verified space of a sector as credited by the miner: weight / (expiration − power_base_epoch);
/// None if the weight is not a whole multiple of the duration
fn credited_space(s: &SectorOnChainInfo) -> Option<BigInt> {
    let d = s.expiration - s.power_base_epoch;
    if d <= 0 {
        return None;
    }
    let d = BigInt::from(d);
    if (&s.verified_deal_weight % &d).is_zero() { Some(&s.verified_deal_weight / &d) } else { None }
}

impl Obs {
    fn live(&self, s: &SecSt) -> bool {
        !s.terminated && self.now < s.info.expiration
    }
    fn claims_of(&self, provider: ActorID, sector: u64) -> Vec<(u64, &Claim)> {
        self.claims.iter().filter(|((p, _), c)| *p == provider && c.sector == sector).map(|((_, i), c)| (*i, c)).collect()
    }
}

/// The state relations (S1)–(S3).
/// A violated relation: (name of the relation, message).
type Bad = (&'static str, String);

fn standing(o: &Obs, miner: ActorID, dropped: &BTreeSet<u64>) -> Result<(), Bad> {
    let size = BigInt::from(SECTOR_SIZE);
    let mut raw = BigInt::zero();
    let mut qa = BigInt::zero();
    let mut power_defined = true;
    for (n, s) in &o.secs {
        let space = credited_space(&s.info);
        if o.live(s) {
            let backing: Vec<(u64, &Claim)> = o.claims_of(miner, *n).into_iter().filter(|(i, _)| !dropped.contains(i)).collect();
            let sum: u64 = backing.iter().map(|(_, c)| c.size.0).sum();
            let duration = s.info.expiration - s.info.power_base_epoch;
            if s.info.verified_deal_weight != BigInt::from(sum) * duration {
                return Err(("S1", format!(
                    "sector {n} (expiration {}, power base {}) is credited verified weight {} = space {} x {duration} epochs, but the registry claims backing it {:?} add up to {sum} bytes",
                    s.info.expiration,
                    s.info.power_base_epoch,
                    s.info.verified_deal_weight,
                    space.as_ref().map(|x| x.to_string()).unwrap_or_else(|| "(not a whole number)".into()),
                    backing.iter().map(|(i, c)| (*i, c.size.0)).collect::<Vec<_>>()
                )));
            }
            for (i, c) in &backing {
                if c.term_start < s.info.activation {
                    return Err(("S2", format!("claim {i} of sector {n} started at {} before the sector was activated at {}", c.term_start, s.info.activation)));
                }
                if s.info.expiration < c.term_start + c.term_min {
                    return Err(("S2", format!("sector {n} expires at {} before the minimum term of claim {i} ends at {}", s.info.expiration, c.term_start + c.term_min)));
                }
                if s.info.expiration > c.term_start + c.term_max {
                    return Err(("S2", format!(
                        "sector {n} expires at {} after the maximum term of its claim {i} ends at {} (term_start {} + term_max {}), and the claim was not dropped",
                        s.info.expiration,
                        c.term_start + c.term_max,
                        c.term_start,
                        c.term_max
                    )));
                }
            }
        }
        if !s.terminated && !s.unproven && !s.faulty {
            match space {
                Some(v) => {
                    raw += &size;
                    // quality multipliers: 10 for verified space, 1 for everything else
                    qa += &size * (BigInt::from(10) * &v + (&size - &v)) / &size;
                }
                None => power_defined = false,
            }
        }
    }
    if power_defined {
        match &o.power {
            None => return Err(("S3", "the miner has no power claim".into())),
            Some((cr, cq)) => {
                if (cr, cq) != (&raw, &qa) {
                    return Err(("S3", format!(
                        "power claim ({cr}, {cq}) differs from the sum over proven, healthy sectors of (size, size*(10*verified + (size - verified))/size) = ({raw}, {qa}); sectors {:?}",
                        o.secs.iter().map(|(n, s)| (*n, credited_space(&s.info).map(|x| x.to_string()), s.unproven, s.faulty, s.terminated)).collect::<Vec<_>>()
                    )));
                }
            }
        }
    }
    Ok(())
}

/// The transition relations (T1)–(T4); `exec` is the epoch at which the step executed.
fn transition(pre: &Obs, post: &Obs, exec: i64, miner: ActorID, dropped_pre: &BTreeSet<u64>, dropped_post: &BTreeSet<u64>, drop_period: i64) -> Result<(), Bad> {
    for (k, c) in &pre.claims {
        match post.claims.get(k) {
            Some(c2) => {
                if c2.term_max < c.term_max {
                    return Err(("T1", format!("term_max of claim {} decreased from {} to {}", k.1, c.term_max, c2.term_max)));
                }
            }
            None => {
                if exec < c.term_start + c.term_max {
                    return Err(("T2", format!("claim {} (term_start {} + term_max {} = {}) disappeared at epoch {exec}, before it expired", k.1, c.term_start, c.term_max, c.term_start + c.term_max)));
                }
            }
        }
    }
    for (k, a) in &pre.allocs {
        if !post.allocs.contains_key(k) && exec < a.expiration {
            let claimed = !pre.claims.contains_key(&(a.provider, k.1))
                && post.claims.get(&(a.provider, k.1)).map(|c| c.client == a.client && c.size == a.size && c.data == a.data).unwrap_or(false);
            if !claimed {
                return Err(("T3", format!("allocation {} (expiration {}) disappeared at epoch {exec} without having expired or been claimed", k.1, a.expiration)));
            }
        }
    }
    for (n, s) in &pre.secs {
        let Some(s2) = post.secs.get(n) else { continue };
        if s.terminated || s2.info.expiration <= s.info.expiration {
            continue;
        }
        for (i, c) in pre.claims_of(miner, *n) {
            if dropped_pre.contains(&i) {
                continue;
            }
            let term_max = post.claims.get(&(miner, i)).map(|c2| c2.term_max).unwrap_or(c.term_max);
            let end = c.term_start + term_max;
            if s2.info.expiration > end {
                if !dropped_post.contains(&i) {
                    return Err(("T4", format!("sector {n} was extended from {} to {} past the maximum term of its claim {i} (ends {end}) without dropping the claim", s.info.expiration, s2.info.expiration)));
                }
                if s.info.expiration - exec > drop_period {
                    return Err(("T4", format!(
                        "sector {n} was extended past the maximum term of claim {i} by dropping it at epoch {exec}, {} epochs before the sector's expiration {} (allowed only within the final {drop_period})",
                        s.info.expiration - exec,
                        s.info.expiration
                    )));
                }
            }
        }
    }
    Ok(())
}

// ------------------------------------------------------------------ operations

fn propose(vm: &Vm, method: u64, params: RawBytes) -> bool {
    let r = ext(
        vm,
        VERIFREG_ROOT_SIGNER_ID,
        &id(VERIFREG_ROOT_ID),
        &TokenAmount::zero(),
        MsigMethod::Propose as u64,
        Some(&ProposeParams { to: VERIFIED_REGISTRY_ACTOR_ADDR, value: TokenAmount::zero(), method, params }),
    );
    r.ok() && r.ret.as_ref().and_then(|b| b.deserialize::<ProposeReturn>().ok()).map(|p| p.applied && p.code.is_success()).unwrap_or(false)
}

#[derive(Clone, Debug)]
struct Req {
    tag: u8,
    size: u64,
    term_min: i64,
    term_max: i64,
    expiration: i64,
}

/// DataCap transfer to the registry creating allocations; returns the new ids.
fn create_allocations(vm: &Vm, c: &Cast, reqs: &[Req]) -> Result<Vec<u64>, Inv> {
    let total: u64 = reqs.iter().map(|r| r.size).sum();
    let op = RawBytes::serialize(&AllocationRequests {
        allocations: reqs
            .iter()
            .map(|r| AllocationRequest { provider: c.mc.m, data: piece_cid(r.tag), size: PaddedPieceSize(r.size), term_min: r.term_min, term_max: r.term_max, expiration: r.expiration })
            .collect(),
        extensions: vec![],
    })
    .unwrap();
    let r = ext(vm, c.client, &id(DCAP), &TokenAmount::zero(), DcMethod::TransferExported as u64, Some(&TransferParams { to: id(REG), amount: tok(total), operator_data: op }));
    if !r.ok() {
        return Err(r);
    }
    let ids = r
        .ret
        .as_ref()
        .and_then(|b| b.deserialize::<TransferReturn>().ok())
        .and_then(|t| fvm_ipld_encoding::from_slice::<AllocationsResponse>(t.recipient_data.bytes()).ok())
        .map(|x| x.new_allocations);
    match ids {
        Some(ids) if ids.len() == reqs.len() => Ok(ids),
        _ => Err(r),
    }
}

fn manifests(c: &Cast, allocs: &[(u64, Allocation)]) -> Vec<PieceActivationManifest> {
    allocs
        .iter()
        .map(|(aid, a)| PieceActivationManifest {
            cid: a.data,
            size: a.size,
            verified_allocation_key: Some(VerifiedAllocationKey { client: c.client, id: *aid }),
            notify: vec![],
        })
        .collect()
}

fn replica_update(vm: &Vm, c: &Cast, sector: u64, dl: u64, part: u64, allocs: &[(u64, Allocation)]) -> Inv {
    let p = ProveReplicaUpdates3Params {
        sector_updates: vec![SectorUpdateManifest {
            sector,
            deadline: dl,
            partition: part,
            new_sealed_cid: make_sealed_cid(format!("snap-{sector}").as_bytes()),
            pieces: manifests(c, allocs),
        }],
        sector_proofs: vec![RawBytes::new(b"good-update-proof".to_vec())],
        aggregate_proof: RawBytes::default(),
        update_proofs_type: RegisteredUpdateProof::StackedDRG2KiBV1,
        aggregate_proof_type: None,
        require_activation_success: true,
        require_notification_success: true,
    };
    ext(vm, c.mc.w, &id(c.mc.m), &TokenAmount::zero(), MinerMethod::ProveReplicaUpdates3 as u64, Some(&p))
}

fn extend2(vm: &Vm, c: &Cast, s: &SecSt, sector: u64, maintain: &[u64], drop: &[u64], new_exp: i64) -> Inv {
    extend_msg(vm, c, s, sector, &[(maintain.to_vec(), drop.to_vec(), new_exp)])
}

/// One `ExtendSectorExpiration2` message with one declaration per entry, all naming `sector`.
fn extend_msg(vm: &Vm, c: &Cast, s: &SecSt, sector: u64, entries: &[(Vec<u64>, Vec<u64>, i64)]) -> Inv {
    let p = ExtendSectorExpiration2Params {
        extensions: entries
            .iter()
            .map(|(maintain, drop, new_exp)| {
                let plain = maintain.is_empty() && drop.is_empty();
                ExpirationExtension2 {
                    deadline: s.dl,
                    partition: s.part,
                    sectors: if plain { bf(&[sector]) } else { bf(&[]) },
                    sectors_with_claims: if plain { vec![] } else { vec![SectorClaim { sector_number: sector, maintain_claims: maintain.clone(), drop_claims: drop.clone() }] },
                    new_expiration: *new_exp,
                }
            })
            .collect(),
    };
    ext(vm, c.mc.w, &id(c.mc.m), &TokenAmount::zero(), MinerMethod::ExtendSectorExpiration2 as u64, Some(&p))
}

fn default_post(vm: &Vm, c: &Cast) -> Option<Inv> {
    let st: fil_actor_miner::State = vm.state_of(c.mc.m)?;
    if st.deadline_info(&vm.policy, vm.epoch()).open != vm.epoch() {
        return None;
    }
    let v = view(vm, c.mc.m)?;
    let d = &v.dls[v.dl_info.index as usize];
    let parts: Vec<(u64, Vec<u64>)> = d
        .parts
        .iter()
        .enumerate()
        .filter(|(pi, p)| !d.posted.contains(&(*pi as u64)) && p.sectors.difference(&p.terminated).any(|s| !p.faults.contains(s) || p.recoveries.contains(s)))
        .map(|(pi, _)| (pi as u64, vec![]))
        .collect();
    if parts.is_empty() {
        return None;
    }
    Some(submit_post(vm, c.mc.w, c.mc.m, v.dl_info.index, &parts, false))
}

/// set-up only: default behaviour for one epoch, everything must succeed
fn setup_advance(vm: &Vm, c: &Cast) {
    if let Some(r) = default_post(vm, c) {
        assert!(r.ok(), "SETUP-FAILED PoSt: {}", r.tree());
    }
    let r = vm.tick();
    assert!(r.flat().iter().all(|i| i.ok()), "SETUP-FAILED tick: {}", r.tree());
}

fn has_dup(maintain: &[u64], drop: &[u64]) -> bool {
    let mut seen = BTreeSet::new();
    maintain.iter().chain(drop.iter()).any(|x| !seen.insert(*x))
}

// ------------------------------------------------------------------ scenario

impl Scn {
    fn fresh(&self, base: usize, end: i64) -> M {
        M {
            base,
            end,
            ext_left: self.cfg.ext,
            term_left: self.cfg.term,
            dc_left: self.cfg.dc,
            misc_left: self.cfg.misc,
            ticks_left: self.cfg.ticks,
            onboard_left: self.cfg.onboard,
            dropped: BTreeSet::new(),
            frozen: false,
        }
    }

    /// Committed-capacity sectors proven by a real PoSt; returns the common expiration.
    fn cc_sectors(&self, vm: &Vm, c: &Cast, nums: &[u64]) -> i64 {
        let v = view(vm, c.mc.m).unwrap();
        let d0 = (v.dl_info.index + 2) % 4;
        let x = vm.epoch() + CC_LIFE;
        let r = ni_commit(vm, c.mc.w, c.mc.m, nums, d0, x);
        assert!(r.ok(), "SETUP-FAILED NI commit: {}", r.tree());
        for _ in 0..40 {
            let o = observe(vm, c.mc.m);
            if nums.iter().all(|n| o.secs.get(n).map(|s| !s.unproven).unwrap_or(false)) {
                return x;
            }
            setup_advance(vm, c);
        }
        panic!("SETUP-FAILED committed-capacity sectors were not proven within 40 epochs");
    }

    /// `plan`: sector -> [(tag, size, extra term beyond the sector's remaining life)]
    fn snap_base(&self, vm: &Vm, c: &Cast, plan: &[(u64, Vec<(u8, u64, i64)>)]) -> i64 {
        let nums: Vec<u64> = plan.iter().map(|p| p.0).collect();
        let x = self.cc_sectors(vm, c, &nums);
        for _ in 0..40 {
            let snap = vm.snapshot();
            let now = vm.epoch();
            let rem = x - now;
            let mut ok = true;
            for (sector, pieces) in plan {
                let reqs: Vec<Req> = pieces.iter().map(|(tag, size, extra)| Req { tag: *tag, size: *size, term_min: TERM_MIN, term_max: rem + extra, expiration: now + 10 }).collect();
                let ids = create_allocations(vm, c, &reqs).unwrap_or_else(|r| panic!("SETUP-FAILED allocation: {}", r.tree()));
                let o = observe(vm, c.mc.m);
                let s = &o.secs[sector];
                let allocs: Vec<(u64, Allocation)> = ids.iter().map(|i| (*i, o.allocs[&(c.client, *i)].clone())).collect();
                let r = replica_update(vm, c, *sector, s.dl, s.part, &allocs);
                if !r.ok() {
                    ok = false;
                    break;
                }
            }
            if ok {
                return x;
            }
            vm.restore(&snap);
            setup_advance(vm, c);
        }
        panic!("SETUP-FAILED replica update was not accepted within 40 epochs");
    }

    fn mk_base(&self, vm: &Vm, c: &Cast, name: &str, idx: usize) -> M {
        let stem = name.trim_end_matches("-window").trim_end_matches("-early");
        let x: i64 = match stem {
            // one sector, one claim
            "s1c1" => self.snap_base(vm, c, &[(1, vec![(b'a', 512, 10)])]),
            // one sector, two claims: a = 256 B with the longer term, b = 512 B with the shorter
            "s1c2" => self.snap_base(vm, c, &[(1, vec![(b'a', 256, 40), (b'b', 512, 10)])]),
            // two sectors in one partition, equal sizes, different terms
            "s2" => self.snap_base(vm, c, &[(1, vec![(b'a', 512, 10)]), (2, vec![(b'b', 512, 40)])]),
            // a proven committed-capacity sector and three open allocations
            "onboard" => {
                let x = self.cc_sectors(vm, c, &[1]);
                // wait for an epoch at which the sector's deadline is mutable
                let mut found = false;
                for _ in 0..40 {
                    let o = observe(vm, c.mc.m);
                    let s = &o.secs[&1];
                    let ok = probe(vm, || replica_update(vm, c, 1, s.dl, s.part, &[]).ok());
                    if ok {
                        found = true;
                        break;
                    }
                    setup_advance(vm, c);
                }
                assert!(found, "SETUP-FAILED no mutable epoch found for the on-boarding base");
                let now = vm.epoch();
                let rem = x - now;
                let reqs = vec![
                    Req { tag: b'a', size: 256, term_min: TERM_MIN, term_max: rem + 40, expiration: now + 4 },
                    Req { tag: b'b', size: 512, term_min: TERM_MIN, term_max: rem + 10, expiration: now + 8 },
                    // too short a maximum term for this sector until 5 more epochs have passed
                    Req { tag: b'c', size: 256, term_min: TERM_MIN, term_max: rem - 5, expiration: now + 8 },
                ];
                create_allocations(vm, c, &reqs).unwrap_or_else(|r| panic!("SETUP-FAILED allocation: {}", r.tree()));
                x
            }
            // pre-commit + prove-commit with two verified pieces
            "pc" => {
                let now = vm.epoch();
                let msd = fil_actor_miner::max_prove_commit_duration(&vm.policy, SEAL_PROOF_V1).unwrap();
                let x = now + msd + vm.policy.min_sector_expiration;
                let life_at_commit = x - (now + vm.policy.pre_commit_challenge_delay + 1);
                let reqs = vec![
                    Req { tag: b'a', size: 256, term_min: TERM_MIN, term_max: life_at_commit + 40, expiration: now + 10 },
                    Req { tag: b'b', size: 512, term_min: TERM_MIN, term_max: life_at_commit + 10, expiration: now + 10 },
                ];
                let ids = create_allocations(vm, c, &reqs).unwrap_or_else(|r| panic!("SETUP-FAILED allocation: {}", r.tree()));
                let o = observe(vm, c.mc.m);
                let allocs: Vec<(u64, Allocation)> = ids.iter().map(|i| (*i, o.allocs[&(c.client, *i)].clone())).collect();
                let pieces = manifests(c, &allocs);
                let infos: Vec<PieceInfo> = pieces.iter().map(|p| PieceInfo { cid: p.cid, size: p.size }).collect();
                let commd = vm.prims.compute_unsealed_sector_cid(SEAL_PROOF_V1, &infos).unwrap();
                let pc = PreCommitSectorBatchParams2 {
                    sectors: vec![SectorPreCommitInfo {
                        seal_proof: SEAL_PROOF_V1,
                        sector_number: 7,
                        sealed_cid: make_sealed_cid(b"pc-7"),
                        seal_rand_epoch: now - 1,
                        deal_ids: vec![],
                        expiration: x,
                        unsealed_cid: CompactCommD::of(commd),
                    }],
                };
                let r = ext(vm, c.mc.w, &id(c.mc.m), &TokenAmount::zero(), MinerMethod::PreCommitSectorBatch2 as u64, Some(&pc));
                assert!(r.ok(), "SETUP-FAILED pre-commit: {}", r.tree());
                for _ in 0..(vm.policy.pre_commit_challenge_delay + 1) {
                    setup_advance(vm, c);
                }
                let p = ProveCommitSectors3Params {
                    sector_activations: vec![SectorActivationManifest { sector_number: 7, pieces }],
                    sector_proofs: vec![RawBytes::new(b"good-seal-proof".to_vec())],
                    aggregate_proof: RawBytes::default(),
                    aggregate_proof_type: None,
                    require_activation_success: true,
                    require_notification_success: true,
                };
                let r = ext(vm, c.mc.w, &id(c.mc.m), &TokenAmount::zero(), MinerMethod::ProveCommitSectors3 as u64, Some(&p));
                assert!(r.ok(), "SETUP-FAILED prove-commit: {}", r.tree());
                // first PoSt: the sector gains power
                let mut proven = false;
                for _ in 0..40 {
                    let o = observe(vm, c.mc.m);
                    if o.secs.get(&7).map(|s| !s.unproven).unwrap_or(false) {
                        proven = true;
                        break;
                    }
                    setup_advance(vm, c);
                }
                assert!(proven, "SETUP-FAILED the prove-committed sector was not proven within 40 epochs");
                x
            }
            other => panic!("unknown base {other}"),
        };
        if name.ends_with("-window") {
            // age the sector(s) into the final claim-drop window
            while vm.epoch() < x - 20 {
                setup_advance(vm, c);
            }
        }
        let end = if stem == "pc" { vm.epoch() + 90 } else { x + 50 };
        self.fresh(idx, end)
    }

    /// epochs after `now` at which something property-relevant changes
    /// Jump targets: the next epochs at which something property-relevant changes, per category,
    /// as long as an action that could tell the difference is still within budget; once all budgets
    /// are spent, the last boundary before the horizon (natural expiry and clean-up under the oracle).
    fn jump_targets(&self, vm: &Vm, miner: ActorID, o: &Obs, m: &M) -> Vec<i64> {
        let drop = vm.policy.end_of_life_claim_drop_period;
        let ok = |e: &i64| *e > o.now && *e <= m.end;
        let mut sector = BTreeSet::new();
        let st: Option<fil_actor_miner::State> = vm.state_of(miner);
        for s in o.secs.values() {
            if s.terminated {
                continue;
            }
            let x = s.info.expiration;
            for e in [x - drop - 1, x - drop, x - 1, x, x + 1] {
                sector.insert(e);
            }
            // the epoch after the cron that removes the expired sector
            if let Some(st) = &st {
                sector.insert(st.quant_spec_for_deadline(&vm.policy, s.dl).quantize_up(x) + 1);
            }
        }
        let mut claim = BTreeSet::new();
        for c in o.claims.values() {
            let e = c.term_start + c.term_max;
            for x in [e - 1, e, e + 1] {
                claim.insert(x);
            }
        }
        let mut alloc = BTreeSet::new();
        for a in o.allocs.values() {
            for x in [a.expiration, a.expiration + 1] {
                alloc.insert(x);
            }
        }
        let mut out = BTreeSet::new();
        let last = sector.iter().chain(claim.iter()).chain(alloc.iter()).filter(|e| ok(e)).max().cloned();
        if m.ext_left > 0 || m.misc_left > 0 || m.onboard_left > 0 {
            out.extend(sector.into_iter().filter(ok).take(self.cfg.jumps));
        }
        if m.misc_left > 0 || m.term_left > 0 || m.dc_left > 0 {
            out.extend(claim.into_iter().filter(ok).take(3));
        }
        if m.misc_left > 0 || m.onboard_left > 0 {
            out.extend(alloc.into_iter().filter(ok).take(2));
        }
        if out.is_empty() {
            out.extend(last);
        }
        out.into_iter().collect()
    }
}

impl Scenario for Scn {
    type S = VS<M>;
    type A = Act;
    type W = W;

    fn name(&self) -> String {
        match self.cfg.mode {
            Mode::Update => "c10/update".into(),
            Mode::Commit => "c10/commit".into(),
        }
    }

    fn worker(&self, store: &Store) -> W {
        let policy = match self.cfg.mode {
            Mode::Update => small_policy(),
            Mode::Commit => commit_policy(),
        };
        let vm = Vm::genesis(store.clone(), policy);
        let mc = setup(&vm, true);
        vm.bump_nonce.set(true);
        let verifier = vm.new_account(16, &fil(1000)).0;
        let client = mc.c;
        let p = RawBytes::serialize(&VerifierParams { address: id(verifier), allowance: BigInt::from(1u64 << 30) }).unwrap();
        assert!(propose(&vm, VrMethod::AddVerifier as u64, p), "SETUP-FAILED AddVerifier through the root multisig");
        let r = ext(&vm, verifier, &id(REG), &TokenAmount::zero(), VrMethod::AddVerifiedClient as u64, Some(&VerifierParams { address: id(client), allowance: BigInt::from(1u64 << 20) }));
        assert!(r.ok(), "SETUP-FAILED AddVerifiedClient: {}", r.tree());
        vm.bump_nonce.set(false);
        let cast = Cast { mc, verifier, client };
        let g = vm.snapshot();
        let mut bases = vec![];
        for (i, b) in self.cfg.bases.iter().enumerate() {
            vm.restore(&g);
            let m = self.mk_base(&vm, &cast, b, i);
            bases.push((b.to_string(), vm.snapshot(), m));
        }
        W { vm, cast, bases, cache: Default::default() }
    }

    fn bases(&self, w: &W) -> Vec<(String, VS<M>)> {
        w.bases.iter().map(|(n, s, m)| (n.clone(), VS { snap: s.clone(), m: m.clone() })).collect()
    }

    fn check_base(&self, w: &W, s: &VS<M>) -> Option<String> {
        w.vm.restore(&s.snap);
        let o = observe(&w.vm, w.cast.mc.m);
        if !self.cfg.bases[s.m.base].starts_with("onboard") && o.claims.is_empty() {
            return Some("on-boarding left no claim in the registry".into());
        }
        standing(&o, w.cast.mc.m, &s.m.dropped).err().map(|(rel, x)| format!("[{rel}] {x}"))
    }

    fn key(&self, s: &VS<M>) -> Key {
        vs_key(s)
    }

    fn kind(&self, a: &Act) -> String {
        match a {
            Act::Tick => "tick".into(),
            Act::JumpTo(_) => "jump".into(),
            Act::Extend { maintain, drop, .. } => {
                if has_dup(maintain, drop) {
                    "extend (a claim named twice)".into()
                } else if maintain.is_empty() && drop.is_empty() {
                    "extend (no claim declared)".into()
                } else if drop.is_empty() {
                    "extend (maintain only)".into()
                } else if maintain.is_empty() {
                    "extend (drop only)".into()
                } else {
                    "extend (maintain + drop)".into()
                }
            }
            Act::ExtendTwice { first, second, .. } => {
                let bare = |e: &(Vec<u64>, Vec<u64>, i64)| e.0.is_empty() && e.1.is_empty();
                if bare(second) && !first.0.is_empty() {
                    "extend twice in one message (claims maintained, then the bare sector later)".into()
                } else if bare(second) {
                    "extend twice in one message (claims dropped, then the bare sector later)".into()
                } else if bare(first) {
                    "extend twice in one message (the bare sector later, then claims maintained)".into()
                } else if second.1.is_empty() {
                    "extend twice in one message (claims maintained in both)".into()
                } else {
                    "extend twice in one message (claims maintained, then dropped)".into()
                }
            }
            Act::ExtendTerm { pick, .. } => format!("extend-claim-terms ({})", pick.label()),
            Act::ExtendTermByDatacap { pick, .. } => format!("extend-claim-by-datacap ({})", pick.label()),
            Act::RemoveClaims(v) => if v.is_empty() { "remove-expired-claims (all)".into() } else { "remove-expired-claims (listed)".into() },
            Act::RemoveAllocs(_) => "remove-expired-allocations".into(),
            Act::Terminate(_) => "terminate".into(),
            Act::Snap { .. } => "replica-update".into(),
        }
    }

    fn actions(&self, w: &W, s: &VS<M>) -> Vec<Act> {
        let m = &s.m;
        let now = s.snap.epoch;
        if m.frozen || now >= m.end {
            return vec![];
        }
        let vm = &w.vm;
        let miner = w.cast.mc.m;
        let o = w.at(&s.snap);
        let mut v = vec![];
        let present: Vec<(&u64, &SecSt)> = o.secs.iter().filter(|(_, s)| !s.terminated).collect();
        // ---- sector extensions
        if m.ext_left > 0 {
            for (n, s) in &present {
                let own: Vec<(u64, Claim)> = o.claims_of(miner, **n).into_iter().map(|(i, c)| (i, c.clone())).collect();
                if own.is_empty() && credited_space(&s.info).map(|x| x.is_zero()).unwrap_or(true) {
                    continue;
                }
                let x = s.info.expiration;
                let mut targets = BTreeSet::new();
                targets.insert(x);
                let mut far = x;
                for (_, c) in &own {
                    let e = c.term_start + c.term_max;
                    targets.insert(e);
                    targets.insert(e + 1);
                    far = far.max(e);
                }
                targets.insert((far + 97).min(now + vm.policy.max_sector_expiration_extension));
                let targets: Vec<i64> = targets.into_iter().filter(|t| *t >= x).collect();
                // every split of the sector's claims into maintain / drop / omitted
                let k = own.len();
                let mut splits: Vec<(Vec<u64>, Vec<u64>)> = vec![];
                let mut code = vec![0u8; k];
                loop {
                    let maintain: Vec<u64> = (0..k).filter(|i| code[*i] == 0).map(|i| own[i].0).collect();
                    let drop: Vec<u64> = (0..k).filter(|i| code[*i] == 1).map(|i| own[i].0).collect();
                    splits.push((maintain, drop));
                    let mut i = 0;
                    while i < k {
                        code[i] += 1;
                        if code[i] < 3 {
                            break;
                        }
                        code[i] = 0;
                        i += 1;
                    }
                    if i == k {
                        break;
                    }
                }
                // a claim named several times so that the declared space adds up without the other claim
                for (i, c) in &own {
                    for (j, d) in &own {
                        if i != j && (c.size.0 + d.size.0) % c.size.0 == 0 {
                            let reps = ((c.size.0 + d.size.0) / c.size.0) as usize;
                            splits.push((vec![*i; reps], vec![]));
                            splits.push((vec![*i], vec![*i; reps - 1]));
                        }
                    }
                    if k == 1 {
                        splits.push((vec![*i, *i], vec![]));
                    }
                }
                // a claim of another sector standing in for this sector's own
                for (n2, _) in &present {
                    if n2 != n {
                        for (f, _) in o.claims_of(miner, **n2) {
                            splits.push((vec![f], vec![]));
                            splits.push((vec![], vec![f]));
                        }
                    }
                }
                for t in &targets {
                    for (maintain, drop) in &splits {
                        v.push(Act::Extend { sector: **n, maintain: maintain.clone(), drop: drop.clone(), new_exp: *t });
                    }
                }
                // the sector named in two declarations of one message: the claims are declared with a
                // new expiration every claim allows, the other declaration asks for a later one
                let backing: Vec<u64> = own.iter().map(|(i, _)| *i).filter(|i| !m.dropped.contains(i)).collect();
                if !backing.is_empty() {
                    let min_end = own.iter().filter(|(i, _)| backing.contains(i)).map(|(_, c)| c.term_start + c.term_max).min().unwrap();
                    let far_t = *targets.last().unwrap();
                    let los: Vec<i64> = [x, min_end].into_iter().filter(|t| *t >= x && *t <= min_end).collect::<BTreeSet<_>>().into_iter().collect();
                    let his: Vec<i64> = [min_end + 1, far_t].into_iter().filter(|t| *t > min_end).collect::<BTreeSet<_>>().into_iter().collect();
                    for hi in &his {
                        for lo in &los {
                            // claims maintained up to `lo`, then the bare sector up to `hi`
                            v.push(Act::ExtendTwice { sector: **n, first: (backing.clone(), vec![], *lo), second: (vec![], vec![], *hi) });
                        }
                        let lo = los[0];
                        // the same two declarations in the other order
                        v.push(Act::ExtendTwice { sector: **n, first: (vec![], vec![], *hi), second: (backing.clone(), vec![], lo) });
                        // the claims declared in both, same split / different split
                        v.push(Act::ExtendTwice { sector: **n, first: (backing.clone(), vec![], lo), second: (backing.clone(), vec![], *hi) });
                        v.push(Act::ExtendTwice { sector: **n, first: (backing.clone(), vec![], lo), second: (vec![], backing.clone(), *hi) });
                        // everything dropped first, then the bare sector
                        v.push(Act::ExtendTwice { sector: **n, first: (vec![], backing.clone(), lo), second: (vec![], vec![], *hi) });
                    }
                }
            }
        }
        // ---- claim terms
        if m.term_left > 0 || m.dc_left > 0 {
            let policy_max = vm.policy.maximum_verified_allocation_term;
            for ((p, i), c) in &o.claims {
                if *p != miner {
                    continue;
                }
                if m.term_left > 0 {
                    // by the claim's client: up to the policy maximum; never down
                    for (t, pick) in [(c.term_max + 30, Pick::Plus30), (policy_max, Pick::PolicyMax), (c.term_max, Pick::Same), (c.term_max - 1, Pick::Minus1)] {
                        if pick == Pick::Plus30 && !self.cfg.plus30 {
                            continue;
                        }
                        v.push(Act::ExtendTerm { claim: *i, term_max: t, pick });
                    }
                }
                if m.dc_left > 0 {
                    // paid with DataCap: the limit is relative to the current epoch, so that a claim's
                    // term_max can come to exceed the policy maximum once time has passed since term_start
                    let largest = now + policy_max - c.term_start;
                    for (t, pick) in [(c.term_max + 1, Pick::Plus1), (largest, Pick::LargestNow), (largest + 1, Pick::LargestNowPlus1), (c.term_max - 1, Pick::Minus1)] {
                        if pick == Pick::Plus1 && !self.cfg.plus30 {
                            continue;
                        }
                        v.push(Act::ExtendTermByDatacap { claim: *i, term_max: t, pick });
                    }
                }
            }
        }
        // ---- removals, termination
        if m.misc_left > 0 {
            if !o.claims.is_empty() {
                v.push(Act::RemoveClaims(vec![]));
                for (p, i) in o.claims.keys() {
                    if *p == miner {
                        v.push(Act::RemoveClaims(vec![*i]));
                    }
                }
            }
            if !o.allocs.is_empty() {
                v.push(Act::RemoveAllocs(vec![]));
                for (_, i) in o.allocs.keys() {
                    v.push(Act::RemoveAllocs(vec![*i]));
                }
            }
            for (n, _) in &present {
                v.push(Act::Terminate(**n));
            }
        }
        // ---- on-boarding
        if m.onboard_left > 0 && !o.allocs.is_empty() {
            let ids: Vec<u64> = o.allocs.keys().map(|k| k.1).collect();
            for (n, s) in &present {
                if s.info.verified_deal_weight.is_zero() && s.info.deal_weight.is_zero() {
                    for mask in 1u32..(1 << ids.len().min(3)) {
                        let set: Vec<u64> = ids.iter().enumerate().filter(|(i, _)| mask & (1 << i) != 0).map(|(_, x)| *x).collect();
                        v.push(Act::Snap { sector: **n, allocs: set });
                    }
                }
            }
        }
        // ---- time
        if m.ticks_left > 0 {
            v.push(Act::Tick);
        }
        for e in self.jump_targets(vm, miner, &o, m) {
            v.push(Act::JumpTo(e));
        }
        v
    }

    fn step(&self, w: &W, s: &VS<M>, a: &Act, _faults: &[usize]) -> Step<VS<M>> {
        let vm = &w.vm;
        let c = &w.cast;
        let miner = c.mc.m;
        let pre = w.at(&s.snap);
        let now = vm.epoch();
        let drop_period = vm.policy.end_of_life_claim_drop_period;
        let mut m = s.m.clone();
        let mut viol: Option<String> = None;
        let mut known: Vec<Known> = vec![];
        let mut agreed = 0u64;
        let outcome: &'static str;
        // one default epoch: PoSt when the window opens, then the real cron; judged after each
        let epoch = |prev: &mut Obs, m: &M, viol: &mut Option<String>, agreed: &mut u64| {
            if let Some(_r) = default_post(vm, c) {
                let cur = observe(vm, miner);
                let e = vm.epoch();
                let res = transition(prev, &cur, e, miner, &m.dropped, &m.dropped, drop_period).and_then(|_| standing(&cur, miner, &m.dropped));
                match res {
                    Ok(()) => *agreed += 1,
                    Err((rel, x)) => {
                        if viol.is_none() {
                            *viol = Some(format!("[{rel}] after the default PoSt at epoch {e}: {x}"));
                        }
                    }
                }
                *prev = cur;
            }
            let e = vm.epoch();
            let _r = vm.tick();
            let (cur, unchanged) = reobserve(vm, miner, prev);
            if !unchanged {
                let res = transition(prev, &cur, e, miner, &m.dropped, &m.dropped, drop_period).and_then(|_| standing(&cur, miner, &m.dropped));
                match res {
                    Ok(()) => *agreed += 1,
                    Err((rel, x)) => {
                        if viol.is_none() {
                            *viol = Some(format!("[{rel}] after the cron tick at epoch {e}: {x}"));
                        }
                    }
                }
            }
            *prev = cur;
        };
        let mut judged_in_loop = false;
        match a {
            Act::Tick => {
                let mut prev = pre.clone();
                epoch(&mut prev, &m, &mut viol, &mut agreed);
                m.ticks_left = m.ticks_left.saturating_sub(1);
                outcome = "ok";
                judged_in_loop = true;
            }
            Act::JumpTo(target) => {
                let mut prev = pre.clone();
                while vm.epoch() < *target && viol.is_none() {
                    epoch(&mut prev, &m, &mut viol, &mut agreed);
                }
                outcome = "ok";
                judged_in_loop = true;
            }
            Act::Extend { sector, maintain, drop, new_exp } => {
                match pre.secs.get(sector) {
                    None => outcome = "rejected",
                    Some(st) => {
                        let r = extend2(vm, c, st, *sector, maintain, drop, *new_exp);
                        if r.ok() {
                            // adopted meaning of an accepted declaration: the named drop claims of this
                            // sector no longer back it
                            for d in drop {
                                if pre.claims.get(&(miner, *d)).map(|cl| cl.sector == *sector).unwrap_or(false) {
                                    m.dropped.insert(*d);
                                }
                            }
                            m.ext_left = m.ext_left.saturating_sub(1);
                            outcome = "accepted";
                        } else if r.any_panicked() {
                            outcome = "rejected (the actor panicked)";
                        } else {
                            outcome = "rejected";
                        }
                    }
                }
            }
            Act::ExtendTwice { sector, first, second } => match pre.secs.get(sector) {
                None => outcome = "rejected",
                Some(st) => {
                    let r = extend_msg(vm, c, st, *sector, &[first.clone(), second.clone()]);
                    if r.ok() {
                        for d in first.1.iter().chain(second.1.iter()) {
                            if pre.claims.get(&(miner, *d)).map(|cl| cl.sector == *sector).unwrap_or(false) {
                                m.dropped.insert(*d);
                            }
                        }
                        m.ext_left = m.ext_left.saturating_sub(1);
                        outcome = "accepted";
                    } else if r.any_panicked() {
                        outcome = "rejected (the actor panicked)";
                    } else {
                        outcome = "rejected";
                    }
                }
            },
            Act::ExtendTerm { claim, term_max, .. } => {
                let _r = ext(vm, c.client, &id(REG), &TokenAmount::zero(), VrMethod::ExtendClaimTerms as u64, Some(&ExtendClaimTermsParams { terms: vec![ClaimTerm { provider: miner, claim_id: *claim, term_max: *term_max }] }));
                let changed = vm.actor(REG).unwrap().state != pre.reg_head;
                if changed {
                    m.term_left = m.term_left.saturating_sub(1);
                }
                outcome = if changed { "accepted" } else { "rejected" };
            }
            Act::ExtendTermByDatacap { claim, term_max, .. } => {
                let size = pre.claims.get(&(miner, *claim)).map(|cl| cl.size.0).unwrap_or(0);
                let op = RawBytes::serialize(&AllocationRequests { allocations: vec![], extensions: vec![ClaimExtensionRequest { provider: miner, claim: *claim, term_max: *term_max }] }).unwrap();
                let r = ext(vm, c.client, &id(DCAP), &TokenAmount::zero(), DcMethod::TransferExported as u64, Some(&TransferParams { to: id(REG), amount: tok(size), operator_data: op }));
                if r.ok() {
                    m.dc_left = m.dc_left.saturating_sub(1);
                }
                outcome = if r.ok() { "accepted" } else { "rejected" };
            }
            Act::RemoveClaims(ids) => {
                let _r = ext(vm, c.mc.z, &id(REG), &TokenAmount::zero(), VrMethod::RemoveExpiredClaims as u64, Some(&RemoveExpiredClaimsParams { provider: miner, claim_ids: ids.clone() }));
                let changed = vm.actor(REG).unwrap().state != pre.reg_head;
                if changed {
                    m.misc_left = m.misc_left.saturating_sub(1);
                }
                outcome = if changed { "removed" } else { "nothing removed" };
            }
            Act::RemoveAllocs(ids) => {
                let _r = ext(vm, c.mc.z, &id(REG), &TokenAmount::zero(), VrMethod::RemoveExpiredAllocations as u64, Some(&RemoveExpiredAllocationsParams { client: c.client, allocation_ids: ids.clone() }));
                let changed = vm.actor(REG).unwrap().state != pre.reg_head;
                if changed {
                    m.misc_left = m.misc_left.saturating_sub(1);
                }
                outcome = if changed { "removed" } else { "nothing removed" };
            }
            Act::Terminate(sector) => match pre.secs.get(sector) {
                None => outcome = "rejected",
                Some(st) => {
                    let r = terminate(vm, c.mc.w, miner, &[(st.dl, st.part, vec![*sector])]);
                    if r.ok() {
                        m.misc_left = m.misc_left.saturating_sub(1);
                    }
                    outcome = if r.ok() { "accepted" } else { "rejected" };
                }
            },
            Act::Snap { sector, allocs } => match pre.secs.get(sector) {
                None => outcome = "rejected",
                Some(st) => {
                    let list: Vec<(u64, Allocation)> = allocs.iter().filter_map(|i| pre.allocs.get(&(c.client, *i)).map(|a| (*i, a.clone()))).collect();
                    if list.len() != allocs.len() {
                        outcome = "rejected";
                    } else {
                        let r = replica_update(vm, c, *sector, st.dl, st.part, &list);
                        if r.ok() {
                            m.onboard_left = m.onboard_left.saturating_sub(1);
                        }
                        outcome = if r.ok() { "accepted" } else { "rejected" };
                    }
                }
            },
        }
        // a message that changed neither the miner nor the registry (rejected messages are rolled back
        // completely) leaves every relation as it was
        let untouched = vm.actor(miner).map(|a| a.state) == Some(pre.miner_head) && vm.actor(REG).unwrap().state == pre.reg_head && power_of(vm, miner) == pre.power;
        if !judged_in_loop && !untouched {
            let post = observe(vm, miner);
            let res = transition(&pre, &post, now, miner, &s.m.dropped, &m.dropped, drop_period).and_then(|_| standing(&post, miner, &m.dropped));
            match res {
                Ok(()) => agreed += 1,
                Err((rel, x)) => {
                    // Narrow signature of the listed finding: an *accepted* declaration that names one
                    // claim id several times, and the broken relation is one between the sector and its
                    // claims (S1, S2, T4). Anything else is a violation.
                    let dup = matches!(a, Act::Extend { maintain, drop, .. } if has_dup(maintain, drop));
                    let twice = matches!(a, Act::ExtendTwice { .. });
                    if dup && outcome == "accepted" && matches!(rel, "S1" | "S2" | "T4") && self.cfg.known_open.contains(KF_DUP) {
                        m.frozen = true;
                        known.push(Known { id: KF_DUP.into(), text: KF_DUP_TEXT.into() });
                    } else if twice && outcome == "accepted" && matches!(rel, "S1" | "S2" | "T4") && self.cfg.known_open.contains(KF_TWO) {
                        m.frozen = true;
                        known.push(Known { id: KF_TWO.into(), text: KF_TWO_TEXT.into() });
                    } else if viol.is_none() {
                        viol = Some(format!("[{rel}] after {a:?} ({outcome}) at epoch {now}: {x}"));
                    }
                }
            }
        }
        let mut st = Step::new(VS { snap: vm.snapshot(), m }, outcome);
        st.agreed = agreed;
        st.violation = viol;
        st.known = known;
        st
    }

    fn describe(&self) -> serde_json::Value {
        json!({
            "policy": match self.cfg.mode {
                Mode::Update => "SMALL (24-epoch proving period, 2 KiB sectors, verified allocation min size 256 B, term 72..1440, allocation expiration <= 48, end-of-life claim drop period 24)",
                Mode::Commit => "SMALL + {StackedDRG2KiBV1 allowed for pre-commit, max_sector_expiration_extension 3200, maximum_verified_allocation_term 3200} (pre-commit is impossible under plain SMALL: max_prove_commit_duration is a hard-coded constant of at least one day)",
            },
            "on_boarding": match self.cfg.mode {
                Mode::Update => "ProveCommitSectorsNI + real PoSt, then ProveReplicaUpdates3 with verified_allocation_key pieces (also part of the alphabet in base `onboard`)",
                Mode::Commit => "PreCommitSectorBatch2 + ProveCommitSectors3 with verified_allocation_key pieces, then real PoSt",
            },
            "bases": self.cfg.bases,
            "budgets": {"accepted extensions": self.cfg.ext, "accepted ExtendClaimTerms": self.cfg.term, "accepted DataCap-funded extensions": self.cfg.dc, "effective removals/terminations": self.cfg.misc, "single ticks": self.cfg.ticks, "replica updates": self.cfg.onboard, "sector-boundary jump targets offered per state": self.cfg.jumps},
            "alphabet": ["ExtendSectorExpiration2 with two declarations naming the same sector (claims maintained up to an allowed expiration + the bare sector to a later one, either order; the claims declared in both with the same / a different split; all dropped + the bare sector)", "ExtendSectorExpiration2: every maintain/drop/omitted split of the sector's claims, a claim named several times, a claim of another sector; new expiration in {unchanged, each claim's term end, term end + 1, far}",
                         "ExtendClaimTerms by the client (term_max in {current + 30 [thorough tier], exactly the policy maximum, current, current - 1})", "DataCap-funded claim extension: transfer of the claim size to the registry with a ClaimExtensionRequest (term_max in {current + 1 [thorough tier], now + policy maximum - term_start, that + 1, current - 1})", "RemoveExpiredClaims (all / each id) by a stranger", "RemoveExpiredAllocations", "TerminateSectors", "ProveReplicaUpdates3 with every non-empty subset of the open allocations",
                         "one epoch (default PoSt when the window opens + real cron)", "jump (the same, epoch by epoch) to the next boundaries per category: sector expiration -25/-24/-1/0/+1 and clean-up epoch; claim term end -1/0/+1; allocation expiration 0/+1; when every budget is spent: the last boundary before the horizon"],
            "oracle": "state relations S1-S3 and transition relations T1-T4 of the module comment, evaluated after every message and after every single epoch",
        })
    }
}

fn cfg(mode: Mode, thorough: bool) -> Cfg {
    let bases: Vec<&'static str> = match (mode, thorough) {
        (Mode::Update, false) => vec!["s1c1-early", "s1c1-window", "s1c2-early", "s1c2-window", "s2-window", "onboard"],
        (Mode::Update, true) => vec!["s1c1-early", "s1c1-window", "s1c2-early", "s1c2-window", "s2-early", "s2-window", "onboard"],
        (Mode::Commit, false) => vec!["pc-early", "pc-window"],
        (Mode::Commit, true) => vec!["pc-early", "pc-window"],
    };
    Cfg {
        mode,
        bases,
        ext: if thorough { 3 } else { 2 },
        term: if thorough { 2 } else { 1 },
        dc: 1,
        plus30: thorough,
        misc: 2,
        ticks: if thorough { 2 } else { 1 },
        onboard: 2,
        jumps: if thorough { 3 } else { 2 },
        known_open: mcx::evidence::known_open("C10"),
    }
}

pub fn scenario_mode(tier: &str, mode: Mode) -> (Scn, Bounds) {
    let th = tier_is_thorough(tier);
    let b = match (mode, th) {
        (Mode::Update, false) => Bounds { max_depth: 4, wall_cap_s: 25.0, ..Default::default() },
        (Mode::Update, true) => Bounds { max_depth: 6, wall_cap_s: 1000.0, ..Default::default() },
        (Mode::Commit, false) => Bounds { max_depth: 3, wall_cap_s: 10.0, ..Default::default() },
        (Mode::Commit, true) => Bounds { max_depth: 5, wall_cap_s: 240.0, ..Default::default() },
    };
    (Scn { cfg: cfg(mode, th) }, b)
}

/// The primary instance (replica-update on-boarding under plain SMALL).
pub fn scenario(tier: &str) -> (Scn, Bounds) {
    scenario_mode(tier, Mode::Update)
}

pub fn run(tier: &str) -> ! {
    let mut run = mcx::evidence::Run::new("C10", tier, "model_checking");
    run.assumptions = vec![
        "mcvm mirrors the FVM message semantics (value transfer, rollback, caller validation)".into(),
        "seal, replica-update and PoSt proofs are faked (valid unless marked BAD); the unsealed CID of a piece list is the fake primitive's digest of it".into(),
        "a sector's life is [activation, expiration): a sector still sitting in its partition at an epoch >= expiration (clean-up happens at the end of its deadline) is not 'live'".into(),
        "a claim named in drop_claims of an accepted ExtendSectorExpiration2 stops backing the sector (the registry keeps the record until it expires)".into(),
        "legacy sectors without SIMPLE_QA_POWER cannot be created through current entry points and are not covered; market-mediated verified deals are covered by C09".into(),
        "instance c10/commit runs under SMALL with three changes (V1 2 KiB seal proof allowed for pre-commit, max_sector_expiration_extension 3200, maximum_verified_allocation_term 3200) because max_prove_commit_duration is not a policy parameter".into(),
    ];
    for mode in [Mode::Update, Mode::Commit] {
        let (scn, b) = scenario_mode(tier, mode);
        run.add(mcx::explore(&scn, &b));
    }
    run.finish()
}

pub fn replay(v: &serde_json::Value) -> ! {
    let tier = v["tier"].as_str().unwrap_or("thorough");
    let mode = if v["scenario"].as_str() == Some("c10/commit") { Mode::Commit } else { Mode::Update };
    crate::replay_with(&scenario_mode(tier, mode).0, v)
}
