//! Evidence files, replay files, known-findings handling and exit codes.
use crate::{Report, ViolationReport};
use serde_json::{Value, json};
use std::collections::BTreeSet;
use std::path::PathBuf;

pub fn verif_dir() -> PathBuf {
    PathBuf::from(std::env::var("VERIF_DIR").unwrap_or_else(|_| "/verif".to_string()))
}

pub fn seed() -> i64 {
    std::env::var("VERIF_SEED").ok().and_then(|s| s.parse().ok()).unwrap_or(0)
}

/// Ids of findings listed as *open* for `property` in known_findings.json. A listed finding is
/// printed as KNOWN-FINDING and never as a violation; anything else is a violation.
pub fn known_open(property: &str) -> BTreeSet<String> {
    let p = verif_dir().join("known_findings.json");
    let mut out = BTreeSet::new();
    let Ok(txt) = std::fs::read_to_string(&p) else { return out };
    let v: Value = serde_json::from_str(&txt).expect("known_findings.json is not valid JSON");
    for f in v["findings"].as_array().cloned().unwrap_or_default() {
        if f["property"] == property && f["status"] == "open" {
            out.insert(f["id"].as_str().unwrap().to_string());
        }
    }
    out
}

pub struct Run {
    pub property: String,
    pub tier: String,
    pub level: String,
    pub reports: Vec<Report>,
    /// extra violations found outside the explorer (matrix / enumeration checks)
    pub extra_violations: Vec<ViolationReport>,
    pub extra_known: Vec<(String, String, u64)>,
    pub coverage_extra: serde_json::Map<String, Value>,
    pub assumptions: Vec<String>,
    pub t0: std::time::Instant,
}

impl Run {
    pub fn new(property: &str, tier: &str, level: &str) -> Run {
        Run {
            property: property.to_string(),
            tier: tier.to_string(),
            level: level.to_string(),
            reports: vec![],
            extra_violations: vec![],
            extra_known: vec![],
            coverage_extra: Default::default(),
            assumptions: vec![],
            t0: std::time::Instant::now(),
        }
    }

    pub fn add(&mut self, r: Report) {
        eprintln!(
            "[{}] {}: states={} transitions={} (fault {}) agreed={} depth={}/{} exhaustive={} wall={:.1}s store={}MB levels={:?} {}",
            self.property,
            r.scenario,
            r.states,
            r.transitions,
            r.fault_transitions,
            r.agreed,
            r.depth_completed,
            r.max_depth,
            r.exhaustive,
            r.wall_s,
            r.store_bytes >> 20,
            r.level_sizes,
            r.caps_hit.join("; ")
        );
        self.reports.push(r);
    }

    /// Write the evidence file and replay files, print the verdict lines, exit.
    pub fn finish(self) -> ! {
        let dir = verif_dir();
        std::fs::create_dir_all(dir.join("evidence")).ok();
        std::fs::create_dir_all(dir.join("replays")).ok();
        let mut violations: Vec<ViolationReport> = self.extra_violations.clone();
        for r in &self.reports {
            violations.extend(r.violations.iter().cloned());
        }
        let states: u64 = self.reports.iter().map(|r| r.states).sum();
        let transitions: u64 = self.reports.iter().map(|r| r.transitions).sum();
        let agreed: u64 = self.reports.iter().map(|r| r.agreed + r.replayed).sum();
        let exhaustive = self.reports.iter().all(|r| r.exhaustive) && violations.is_empty();
        let mut samples: Vec<Value> = vec![];
        for r in &self.reports {
            for s in r.samples.iter().take(2) {
                samples.push(json!({"scenario": r.scenario, "trace": s}));
            }
        }
        if let Some(Value::Array(a)) = self.coverage_extra.get("samples") {
            samples.extend(a.iter().cloned());
        }
        let mut known_lines = vec![];
        for r in &self.reports {
            for (id, (text, n)) in &r.known {
                known_lines.push((id.clone(), text.clone(), *n));
            }
        }
        known_lines.extend(self.extra_known.iter().cloned());
        known_lines.sort();
        let mut merged: Vec<(String, String, u64)> = vec![];
        for (id, t, n) in known_lines {
            if let Some(l) = merged.last_mut()
                && l.0 == id
            {
                l.2 += n;
                continue;
            }
            merged.push((id, t, n));
        }
        let mut cov = serde_json::Map::new();
        if self.level == "model_checking" {
            cov.insert("states".into(), json!(states.max(1)));
            cov.insert("transitions".into(), json!(transitions.max(1)));
            cov.insert("traces_validated_against_impl".into(), json!(agreed));
        }
        cov.insert("exhaustive".into(), json!(exhaustive));
        cov.insert(
            "scenarios".into(),
            Value::Array(
                self.reports
                    .iter()
                    .map(|r| {
                        json!({
                            "scenario": r.scenario, "bases": r.bases, "states": r.states,
                            "transitions": r.transitions, "fault_transitions": r.fault_transitions,
                            "lockstep_agreements": r.agreed, "paths_replayed_on_fresh_vm": r.replayed,
                            "depth_completed": r.depth_completed, "max_depth": r.max_depth,
                            "max_faults": r.max_faults, "exhaustive": r.exhaustive,
                            "caps_hit": r.caps_hit, "level_sizes": r.level_sizes,
                            "outcomes_per_action_kind": r.outcomes, "wall_s": r.wall_s,
                            "store_bytes": r.store_bytes, "describe": r.describe,
                        })
                    })
                    .collect(),
            ),
        );
        for (k, v) in self.coverage_extra.iter() {
            if k != "samples" {
                cov.insert(k.clone(), v.clone());
            }
        }
        if samples.is_empty() {
            samples.push(json!("no trace sampled (no successor states)"));
        }
        cov.insert("samples".into(), Value::Array(samples));
        cov.insert(
            "known_findings_printed".into(),
            json!(merged.iter().map(|(i, t, n)| json!({"id": i, "text": t, "occurrences": n})).collect::<Vec<_>>()),
        );

        let mut vio_files = vec![];
        for v in &violations {
            let body = json!({
                "property": self.property, "scenario": v.scenario, "base": v.base,
                "path": v.path, "message": v.message,
            });
            let txt = serde_json::to_string_pretty(&body).unwrap();
            let h = crate::hash_key(&[txt.as_bytes()]);
            let f = dir.join("replays").join(format!("{}-{}.json", self.property, hex::encode(&h[..6])));
            std::fs::write(&f, txt).unwrap();
            vio_files.push((f, v.message.clone()));
        }
        let ev = json!({
            "property_id": self.property,
            "tier": self.tier,
            "seed": seed(),
            "level": self.level,
            "coverage": Value::Object(cov),
            "assumptions": self.assumptions,
            "wall_s": self.t0.elapsed().as_secs_f64(),
            "violations": violations.len(),
        });
        std::fs::write(
            dir.join("evidence").join(format!("{}.json", self.property)),
            serde_json::to_string_pretty(&ev).unwrap(),
        )
        .unwrap();
        for (id, t, n) in &merged {
            println!("KNOWN-FINDING: property={} {} {} ({} occurrences)", self.property, id, t, n);
        }
        if vio_files.is_empty() {
            println!(
                "OK property={} tier={} states={} transitions={} exhaustive={}",
                self.property, self.tier, states, transitions, exhaustive
            );
            std::process::exit(0);
        }
        for (f, m) in &vio_files {
            eprintln!("violation: {m}");
            println!("VIOLATION property={} replay={}", self.property, f.display());
        }
        std::process::exit(1);
    }
}
