//! mcx — level-synchronous, deterministic, parallel breadth-first explorer over real code.
//! See /verif/DESIGN.md §2.3.
pub mod evidence;

use mcvm::Store;
use serde::Serialize;
use serde::de::DeserializeOwned;
use serde_json::{Value, json};
use std::collections::{BTreeMap, HashMap};
use std::fmt::Debug;
use std::sync::atomic::{AtomicBool, AtomicU64, Ordering};
use std::time::Instant;

pub type Key = [u8; 16];

pub fn hash_key(parts: &[&[u8]]) -> Key {
    let mut st = blake2b_simd::Params::new().hash_length(16).to_state();
    for p in parts {
        st.update(&(p.len() as u64).to_le_bytes());
        st.update(p);
    }
    st.finalize().as_bytes().try_into().unwrap()
}

/// A finding that is listed in /verif/known_findings.json (printed, never a violation).
#[derive(Clone, Debug, PartialEq, Eq, PartialOrd, Ord)]
pub struct Known {
    pub id: String,
    pub text: String,
}

pub struct Step<S> {
    /// Successor state; `None` = the action was not applicable (pruned, not counted).
    pub next: Option<S>,
    /// Send indices of the main message eligible for fault injection (only read when the
    /// step ran without faults).
    pub sites: Vec<usize>,
    /// Outcome class for the vacuity statistics, e.g. "ok" / "rejected".
    pub outcome: &'static str,
    pub violation: Option<String>,
    pub known: Vec<Known>,
    /// Number of lock-step model/implementation comparisons that agreed in this step.
    pub agreed: u64,
}

impl<S> Step<S> {
    pub fn new(next: S, outcome: &'static str) -> Self {
        Step { next: Some(next), sites: vec![], outcome, violation: None, known: vec![], agreed: 0 }
    }
    pub fn skip() -> Self {
        Step { next: None, sites: vec![], outcome: "n/a", violation: None, known: vec![], agreed: 0 }
    }
    pub fn violate(mut self, why: String) -> Self {
        if self.violation.is_none() {
            self.violation = Some(why);
        }
        self
    }
}

pub trait Scenario: Sync {
    /// Explicit state (for VM scenarios: snapshot + reference-model state + budgets).
    type S: Clone + Send + Sync;
    /// Action with all its parameters; serialisable for replay files.
    type A: Clone + Send + Sync + Debug + Serialize + DeserializeOwned;
    /// Per-worker execution context (usually a `Vm` handle on the shared store).
    type W;

    fn name(&self) -> String;
    fn worker(&self, store: &Store) -> Self::W;
    /// Base states, built by deterministic recipes of real messages.
    fn bases(&self, w: &Self::W) -> Vec<(String, Self::S)>;
    fn key(&self, s: &Self::S) -> Key;
    fn actions(&self, w: &Self::W, s: &Self::S) -> Vec<Self::A>;
    /// Short class name of an action for the per-kind statistics.
    fn kind(&self, a: &Self::A) -> String;
    fn step(&self, w: &Self::W, s: &Self::S, a: &Self::A, faults: &[usize]) -> Step<Self::S>;
    /// Oracle evaluated on every base state before the search (a base state that violates the
    /// property is a violation with an empty path).
    fn check_base(&self, _w: &Self::W, _s: &Self::S) -> Option<String> {
        None
    }
    /// Extra information attached to evidence (policy, cast, alphabets...).
    fn describe(&self) -> Value {
        json!({})
    }
}

#[derive(Clone, Debug)]
pub struct Bounds {
    pub max_depth: usize,
    pub max_faults: usize,
    pub wall_cap_s: f64,
    pub store_cap_bytes: usize,
    pub max_states: usize,
    pub threads: usize,
    pub replay_sample: usize,
}

impl Default for Bounds {
    fn default() -> Self {
        Bounds {
            max_depth: 4,
            max_faults: 0,
            wall_cap_s: 600.0,
            store_cap_bytes: 24 << 30,
            max_states: 50_000_000,
            threads: std::env::var("MC_THREADS").ok().and_then(|s| s.parse().ok()).unwrap_or_else(|| std::thread::available_parallelism().map(|n| n.get()).unwrap_or(8)),
            replay_sample: 64,
        }
    }
}

#[derive(Clone, Debug, Serialize)]
pub struct PathStep {
    pub action: Value,
    pub faults: Vec<usize>,
}

#[derive(Clone, Debug, Serialize)]
pub struct ViolationReport {
    pub scenario: String,
    pub base: String,
    pub path: Vec<PathStep>,
    pub message: String,
}

#[derive(Debug, Default, Serialize, Clone)]
pub struct Report {
    pub scenario: String,
    pub states: u64,
    pub transitions: u64,
    pub agreed: u64,
    pub replayed: u64,
    pub depth_completed: usize,
    pub max_depth: usize,
    pub max_faults: usize,
    pub fault_transitions: u64,
    pub exhaustive: bool,
    pub caps_hit: Vec<String>,
    pub level_sizes: Vec<u64>,
    /// kind -> outcome -> count
    pub outcomes: BTreeMap<String, BTreeMap<String, u64>>,
    pub known: BTreeMap<String, (String, u64)>,
    pub violations: Vec<ViolationReport>,
    pub samples: Vec<Value>,
    pub wall_s: f64,
    pub bases: Vec<String>,
    pub describe: Value,
    pub store_bytes: usize,
}

struct Node<S> {
    s: S,
    /// index into `paths` (usize::MAX for a base state)
    path: usize,
    base: usize,
}

struct PathRec<A> {
    parent: usize,
    action: A,
    faults: Vec<usize>,
}

struct Succ<S, A> {
    key: Key,
    s: S,
    parent_node: usize,
    act_idx: usize,
    action: A,
    faults: Vec<usize>,
}

fn subsets(sites: &[usize], max: usize) -> Vec<Vec<usize>> {
    let mut out = vec![];
    if max >= 1 {
        for &a in sites {
            out.push(vec![a]);
        }
    }
    if max >= 2 {
        for (i, &a) in sites.iter().enumerate() {
            for &b in &sites[i + 1..] {
                out.push(vec![a, b]);
            }
        }
    }
    out
}

/// Resident set size of this process in KiB (0 when /proc is unreadable).
pub fn rss_kb() -> u64 {
    std::fs::read_to_string("/proc/self/statm").ok().and_then(|s| s.split_whitespace().nth(1).and_then(|x| x.parse::<u64>().ok())).map(|pages| pages * 4).unwrap_or(0)
}

pub fn explore<Sc: Scenario>(scn: &Sc, b: &Bounds) -> Report {
    let t0 = Instant::now();
    let store = Store::new();
    let mut rep = Report {
        scenario: scn.name(),
        max_depth: b.max_depth,
        max_faults: b.max_faults,
        describe: scn.describe(),
        ..Default::default()
    };
    let w0 = scn.worker(&store);
    let bases = scn.bases(&w0);
    for (name, s) in &bases {
        if let Some(v) = scn.check_base(&w0, s) {
            rep.violations.push(ViolationReport { scenario: scn.name(), base: name.clone(), path: vec![], message: format!("base state {name}: {v}") });
        }
    }
    drop(w0);
    if !rep.violations.is_empty() {
        rep.bases = bases.iter().map(|b| b.0.clone()).collect();
        rep.states = bases.len() as u64;
        rep.wall_s = t0.elapsed().as_secs_f64();
        return rep;
    }
    store.commit();
    rep.bases = bases.iter().map(|b| b.0.clone()).collect();

    let mut visited: HashMap<Key, ()> = HashMap::new();
    let mut paths: Vec<PathRec<Sc::A>> = vec![];
    let mut frontier: Vec<Node<Sc::S>> = vec![];
    for (i, (_, s)) in bases.iter().enumerate() {
        let k = scn.key(s);
        if visited.insert(k, ()).is_none() {
            frontier.push(Node { s: s.clone(), path: usize::MAX, base: i });
        }
    }
    rep.states = frontier.len() as u64;
    rep.level_sizes.push(frontier.len() as u64);
    let stop = AtomicBool::new(false);
    let rss_hit = AtomicBool::new(false);
    let rss_cap_kb: u64 = std::env::var("MC_RSS_CAP_GB").ok().and_then(|x| x.parse::<u64>().ok()).unwrap_or(36) << 20;
    let transitions = AtomicU64::new(0);
    let fault_transitions = AtomicU64::new(0);
    let agreed = AtomicU64::new(0);
    let mut capped = false;
    // terminal paths for sampling / replay (path idx)
    let mut leaf_paths: Vec<(usize, usize)> = vec![]; // (path, base)

    type Out<S, A> = (
        Vec<Succ<S, A>>,
        BTreeMap<String, BTreeMap<String, u64>>,
        Vec<(usize, usize, A, Vec<usize>, String)>,
        Vec<Known>,
        mcvm::store::Blocks,
    );
    struct Job<S> {
        frontier: std::sync::Arc<Vec<Node<S>>>,
        lo: usize,
        hi: usize,
    }
    let visited = std::sync::RwLock::new(visited);
    let pool_size = b.threads.max(1);
    std::thread::scope(|sc| {
    // persistent worker pool: each thread builds its worker (genesis + base recipes) once
    let (res_tx, res_rx) = std::sync::mpsc::channel::<(usize, Result<Out<Sc::S, Sc::A>, String>)>();
    let mut job_txs: Vec<std::sync::mpsc::Sender<Job<Sc::S>>> = vec![];
    for t in 0..pool_size {
        let (tx, rx) = std::sync::mpsc::channel::<Job<Sc::S>>();
        job_txs.push(tx);
        let res_tx = res_tx.clone();
        let store = store.fork();
        let stop = &stop;
        let rss_hit = &rss_hit;
        let visited = &visited;
        let transitions = &transitions;
        let fault_transitions = &fault_transitions;
        let agreed = &agreed;
        std::thread::Builder::new()
            .stack_size(1 << 30)
            .spawn_scoped(sc, move || {
                let mut wopt: Option<Sc::W> = None;
                while let Ok(job) = rx.recv() {
                    let r = std::panic::catch_unwind(std::panic::AssertUnwindSafe(|| {
                        if wopt.is_none() {
                            wopt = Some(scn.worker(&store));
                            store.keep();
                        }
                        let w = wopt.as_ref().unwrap();
                        let visited = visited.read().unwrap();
                        let nodes = &job.frontier[job.lo..job.hi];
                        let mut succs = vec![];
                        let mut local_seen: std::collections::HashSet<Key> = Default::default();
                        let mut outcomes: BTreeMap<String, BTreeMap<String, u64>> = BTreeMap::new();
                        let mut viols = vec![];
                        let mut known = vec![];
                        for (ni, node) in nodes.iter().enumerate() {
                            if stop.load(Ordering::Relaxed) {
                                break;
                            }
                            if t0.elapsed().as_secs_f64() > b.wall_cap_s {
                                stop.store(true, Ordering::Relaxed);
                                break;
                            }
                            if ni % 32 == 0 && rss_kb() > rss_cap_kb {
                                rss_hit.store(true, Ordering::Relaxed);
                                stop.store(true, Ordering::Relaxed);
                                break;
                            }
                            let node_idx = job.lo + ni;
                            let acts = scn.actions(w, &node.s);
                            for (ai, a) in acts.iter().enumerate() {
                                let st = scn.step(w, &node.s, a, &[]);
                                let sites = st.sites.clone();
                                let mut handle_inner = |st: Step<Sc::S>, faults: Vec<usize>| -> bool {
                                    let Some(next) = st.next else { return false };
                                    transitions.fetch_add(1, Ordering::Relaxed);
                                    if !faults.is_empty() {
                                        fault_transitions.fetch_add(1, Ordering::Relaxed);
                                    }
                                    agreed.fetch_add(st.agreed, Ordering::Relaxed);
                                    *outcomes
                                        .entry(scn.kind(a))
                                        .or_default()
                                        .entry(st.outcome.to_string())
                                        .or_default() += 1;
                                    known.extend(st.known);
                                    if let Some(v) = st.violation {
                                        viols.push((node_idx, ai, a.clone(), faults.clone(), v));
                                        return false;
                                    }
                                    let key = scn.key(&next);
                                    if visited.contains_key(&key) || !local_seen.insert(key) {
                                        return false;
                                    }
                                    succs.push(Succ {
                                        key,
                                        s: next,
                                        parent_node: node_idx,
                                        act_idx: ai,
                                        action: a.clone(),
                                        faults,
                                    });
                                    true
                                };
                                let mut handle = |st: Step<Sc::S>, faults: Vec<usize>| {
                                    if handle_inner(st, faults) { store.keep() } else { store.discard() }
                                };
                                handle(st, vec![]);
                                if b.max_faults > 0 && !sites.is_empty() {
                                    for plan in subsets(&sites, b.max_faults) {
                                        let st = scn.step(w, &node.s, a, &plan);
                                        handle(st, plan);
                                    }
                                }
                            }
                        }
                        (succs, outcomes, viols, known, store.take_local())
                    }));
                    let r = r.map_err(|e| {
                        e.downcast_ref::<String>().cloned().or_else(|| e.downcast_ref::<&str>().map(|s| s.to_string())).unwrap_or_else(|| "worker panicked".into())
                    });
                    if res_tx.send((t, r)).is_err() {
                        break;
                    }
                }
            })
            .unwrap();
    }
    drop(res_tx);

    for depth in 0..b.max_depth {
        if frontier.is_empty() {
            break;
        }
        let t_level = Instant::now();
        // at least 8 nodes per worker
        let nthreads = pool_size.min(frontier.len().div_ceil(8).max(1));
        let chunk = frontier.len().div_ceil(nthreads);
        let fr = std::sync::Arc::new(std::mem::take(&mut frontier));
        let mut njobs = 0;
        for ci in 0..nthreads {
            let lo = ci * chunk;
            let hi = ((ci + 1) * chunk).min(fr.len());
            if lo >= hi {
                break;
            }
            job_txs[ci].send(Job { frontier: fr.clone(), lo, hi }).expect("worker alive");
            njobs += 1;
        }
        let mut got: Vec<(usize, Out<Sc::S, Sc::A>)> = vec![];
        for _ in 0..njobs {
            let (t, r) = res_rx.recv().expect("worker result");
            match r {
                Ok(o) => got.push((t, o)),
                Err(m) => panic!("worker {t} panicked (machinery error): {m}"),
            }
        }
        got.sort_by_key(|x| x.0);
        let results: Vec<Out<Sc::S, Sc::A>> = got.into_iter().map(|x| x.1).collect();
        let frontier_ref: &Vec<Node<Sc::S>> = &fr;
        let mut visited_w = visited.write().unwrap();
        let visited = &mut *visited_w;

        let t_expand = t_level.elapsed().as_secs_f64();
        let mut block_sets = vec![];
        let mut results2 = vec![];
        for (s, o, v, k, blocks) in results {
            block_sets.push(blocks);
            results2.push((s, o, v, k));
        }
        std::thread::scope(|sc| {
            for bs in block_sets {
                let store = &store;
                sc.spawn(move || store.absorb(bs));
            }
        });
        let t_absorb = t_level.elapsed().as_secs_f64();
        // Deterministic merge without sorting: workers own contiguous, increasing ranges of
        // parent nodes and emit successors in (parent, action, fault-plan) order, so taking the
        // first occurrence of every key while walking the workers in order picks the
        // lexicographically least (parent, action, plan) independently of the thread count.
        let mut all: Vec<Succ<Sc::S, Sc::A>> = vec![];
        let mut viols = vec![];
        for (s, o, v, k) in results2 {
            for x in s {
                if visited.insert(x.key, ()).is_none() {
                    all.push(x);
                }
            }
            for (kind, m) in o {
                let e = rep.outcomes.entry(kind).or_default();
                for (oc, n) in m {
                    *e.entry(oc).or_default() += n;
                }
            }
            viols.extend(v);
            for kn in k {
                let e = rep.known.entry(kn.id).or_insert((kn.text, 0));
                e.1 += 1;
            }
        }
        let t_ext = t_level.elapsed().as_secs_f64();
        let t_sort = t_level.elapsed().as_secs_f64();
        viols.sort_by(|a, b| (a.0, a.1, &a.3).cmp(&(b.0, b.1, &b.3)));
        let path_of = |paths: &Vec<PathRec<Sc::A>>, mut p: usize| {
            let mut v = vec![];
            while p != usize::MAX {
                let r = &paths[p];
                v.push(PathStep {
                    action: serde_json::to_value(&r.action).unwrap(),
                    faults: r.faults.clone(),
                });
                p = r.parent;
            }
            v.reverse();
            v
        };
        for (node_idx, _ai, a, faults, msg) in viols.into_iter().take(3) {
            let node = &frontier_ref[node_idx];
            let mut path = path_of(&paths, node.path);
            path.push(PathStep { action: serde_json::to_value(&a).unwrap(), faults });
            rep.violations.push(ViolationReport {
                scenario: scn.name(),
                base: bases[node.base].0.clone(),
                path,
                message: msg,
            });
        }
        let mut next: Vec<Node<Sc::S>> = vec![];
        for s in all {
            let parent = &frontier_ref[s.parent_node];
            paths.push(PathRec { parent: parent.path, action: s.action, faults: s.faults });
            next.push(Node { s: s.s, path: paths.len() - 1, base: parent.base });
        }
        rep.states += next.len() as u64;
        if std::env::var("MC_TIMING").is_ok() {
            eprintln!("  level {} expand {:.2}s absorb {:.2}s extend {:.2}s sort {:.2}s rest {:.2}s new {}", depth + 1, t_expand, t_absorb - t_expand, t_ext - t_absorb, t_sort - t_ext, t_level.elapsed().as_secs_f64() - t_sort, next.len());
        }
        rep.level_sizes.push(next.len() as u64);
        if stop.load(Ordering::Relaxed) {
            capped = true;
            if rss_hit.load(Ordering::Relaxed) {
                rep.caps_hit.push(format!("memory cap {} GiB (process RSS) hit inside depth {} (that level is incomplete and not counted as completed)", rss_cap_kb >> 20, depth + 1));
            } else {
                rep.caps_hit.push(format!("wall cap {}s hit inside depth {} (that level is incomplete and not counted as completed)", b.wall_cap_s, depth + 1));
            }
            break;
        }
        rep.depth_completed = depth + 1;
        for n in &next {
            leaf_paths.push((n.path, n.base));
        }
        drop(visited_w);
        frontier = next;
        if !rep.violations.is_empty() {
            break;
        }
        let el = t0.elapsed().as_secs_f64();
        if el > b.wall_cap_s {
            rep.caps_hit.push(format!("wall cap {}s hit after depth {}", b.wall_cap_s, depth + 1));
            capped = depth + 1 < b.max_depth && !frontier.is_empty();
            break;
        }
        if store.bytes() > b.store_cap_bytes {
            rep.caps_hit.push(format!("store cap {} bytes hit after depth {}", b.store_cap_bytes, depth + 1));
            capped = depth + 1 < b.max_depth && !frontier.is_empty();
            break;
        }
        if rep.states as usize > b.max_states {
            rep.caps_hit.push(format!("state cap {} hit after depth {}", b.max_states, depth + 1));
            capped = depth + 1 < b.max_depth && !frontier.is_empty();
            break;
        }
    }
    drop(job_txs);
    });
    let visited = visited.into_inner().unwrap();
    if std::env::var("MC_TIMING").is_ok() { eprintln!("  loop done at {:.2}s", t0.elapsed().as_secs_f64()); }
    rep.transitions = transitions.load(Ordering::Relaxed);
    rep.fault_transitions = fault_transitions.load(Ordering::Relaxed);
    rep.agreed = agreed.load(Ordering::Relaxed);
    rep.exhaustive = !capped && rep.violations.is_empty();

    // determinism / replay check: re-execute a sample of discovered paths on a fresh store
    if rep.violations.is_empty() && !leaf_paths.is_empty() && b.replay_sample > 0 {
        let n = leaf_paths.len();
        let take = b.replay_sample.min(n);
        let fresh = Store::new();
        let w = scn.worker(&fresh);
        let fb = scn.bases(&w);
        for i in 0..take {
            let (p, base) = leaf_paths[if i + 1 == take { n - 1 } else { (i * n) / take }];
            // collect path
            let mut chain = vec![];
            let mut q = p;
            while q != usize::MAX {
                chain.push(q);
                q = paths[q].parent;
            }
            chain.reverse();
            let mut s = fb[base].1.clone();
            let mut ok = true;
            for &q in &chain {
                let r = &paths[q];
                let st = scn.step(&w, &s, &r.action, &r.faults);
                match st.next {
                    Some(nx) if st.violation.is_none() => s = nx,
                    _ => {
                        ok = false;
                        break;
                    }
                }
            }
            let k = scn.key(&s);
            if !ok || !visited.contains_key(&k) {
                eprintln!("MACHINERY ERROR: replay of a discovered path diverged (scenario {})", scn.name());
                std::process::exit(2);
            }
            rep.replayed += 1;
            if rep.samples.len() < 4 {
                rep.samples.push(json!({
                    "base": fb[base].0,
                    "actions": chain.iter().map(|&q| json!({"a": serde_json::to_value(&paths[q].action).unwrap(), "faults": paths[q].faults})).collect::<Vec<_>>(),
                    "replayed_identically": true
                }));
            }
        }
    }
    if std::env::var("MC_TIMING").is_ok() { eprintln!("  replay done at {:.2}s", t0.elapsed().as_secs_f64()); }
    rep.wall_s = t0.elapsed().as_secs_f64();
    rep.store_bytes = store.bytes();
    rep
}

/// Re-execute one recorded path without the explorer. Returns the violation message if the
/// path (still) violates, `None` if it now passes.
pub fn replay_path<Sc: Scenario>(scn: &Sc, base: &str, path: &[(Sc::A, Vec<usize>)]) -> Result<Option<String>, String> {
    let store = Store::new();
    let w = scn.worker(&store);
    let bases = scn.bases(&w);
    let Some((_, s0)) = bases.iter().find(|b| b.0 == base) else {
        return Err(format!("unknown base state {base}"));
    };
    if let Some(v) = scn.check_base(&w, s0) {
        return Ok(Some(format!("base state {base}: {v}")));
    }
    let mut s = s0.clone();
    for (i, (a, f)) in path.iter().enumerate() {
        let st = scn.step(&w, &s, a, f);
        if let Some(v) = st.violation {
            return Ok(Some(format!("step {i} {a:?}: {v}")));
        }
        for k in &st.known {
            println!("KNOWN-FINDING reproduced at step {i} {a:?}: {} {}", k.id, k.text);
        }
        match st.next {
            Some(n) => s = n,
            None => return Err(format!("step {i} {a:?} not applicable")),
        }
    }
    Ok(None)
}
