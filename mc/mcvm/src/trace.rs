use fvm_ipld_encoding::ipld_block::IpldBlock;
use fvm_shared::address::Address;
use fvm_shared::econ::TokenAmount;
use fvm_shared::error::ExitCode;
use fvm_shared::event::ActorEvent;
use fvm_shared::{ActorID, MethodNum};

/// One actor-method invocation with everything beneath it.
#[derive(Clone, Debug)]
pub struct Inv {
    pub from: ActorID,
    pub to: Address,
    pub method: MethodNum,
    pub value: TokenAmount,
    pub params: Option<IpldBlock>,
    pub code: ExitCode,
    pub ret: Option<IpldBlock>,
    pub subs: Vec<Inv>,
    pub events: Vec<ActorEvent>,
    pub read_only: bool,
    /// The send was failed by the fault plan; the callee did not run.
    pub injected: bool,
    /// The callee panicked (reported as USR_ASSERTION_FAILED like the Wasm panic hook does).
    pub panicked: bool,
    /// Index of this send in the top-level message's send order (None for the top level).
    pub send_index: Option<usize>,
    pub msg: String,
}

impl Inv {
    pub fn ok(&self) -> bool {
        self.code.is_success()
    }
    pub fn to_id(&self) -> Option<ActorID> {
        self.to.id().ok()
    }
    /// Pre-order walk over this invocation and everything beneath it.
    pub fn walk<'a>(&'a self, f: &mut dyn FnMut(&'a Inv, usize)) {
        fn go<'a>(i: &'a Inv, d: usize, f: &mut dyn FnMut(&'a Inv, usize)) {
            f(i, d);
            for s in &i.subs {
                go(s, d + 1, f);
            }
        }
        go(self, 0, f)
    }
    pub fn flat(&self) -> Vec<&Inv> {
        let mut v = vec![];
        self.walk(&mut |i, _| v.push(i));
        v
    }
    pub fn any_panicked(&self) -> bool {
        self.flat().iter().any(|i| i.panicked)
    }
    /// All events of invocations that took effect (i.e. not beneath a failed invocation).
    pub fn effective_events(&self) -> Vec<(ActorID, &ActorEvent)> {
        fn go<'a>(i: &'a Inv, out: &mut Vec<(ActorID, &'a ActorEvent)>) {
            if !i.code.is_success() {
                return;
            }
            for e in &i.events {
                out.push((i.to.id().unwrap_or(u64::MAX), e));
            }
            for s in &i.subs {
                go(s, out);
            }
        }
        let mut v = vec![];
        go(self, &mut v);
        v
    }
    /// All invocations that took effect (not beneath a failed invocation), pre-order.
    pub fn effective(&self) -> Vec<&Inv> {
        fn go<'a>(i: &'a Inv, out: &mut Vec<&'a Inv>) {
            if !i.code.is_success() {
                return;
            }
            out.push(i);
            for s in &i.subs {
                go(s, out);
            }
        }
        let mut v = vec![];
        go(self, &mut v);
        v
    }
    pub fn brief(&self) -> String {
        format!(
            "{}->{}:{} v={} code={}{}{}",
            self.from,
            self.to,
            self.method,
            self.value.atto(),
            self.code.value(),
            if self.injected { " INJECTED" } else { "" },
            if self.panicked { " PANICKED" } else { "" }
        )
    }
    pub fn tree(&self) -> String {
        let mut s = String::new();
        self.walk(&mut |i, d| {
            s.push_str(&"  ".repeat(d));
            s.push_str(&i.brief());
            if !i.code.is_success() && !i.msg.is_empty() {
                s.push_str(" — ");
                s.push_str(&i.msg.chars().take(160).collect::<String>());
            }
            s.push('\n');
        });
        s
    }
}
