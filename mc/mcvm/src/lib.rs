//! mcvm — execution substrate for bounded exhaustive exploration of the real built-in actors.
//!
//! A fork of /repo/test_vm (see /verif/DESIGN.md §2.1). It runs the *real* `invoke_method` of
//! every actor with real nested sends, value transfer and rollback, and adds: a pluggable
//! `Policy`, fault plans on nested sends, `delete_actor`, signer-binding fake signatures,
//! a thread-shareable store, panic capture and O(1) snapshots.
pub mod store;
pub mod trace;
mod ctx;

pub use ctx::*;
pub use store::Store;
pub use trace::*;

use cid::Cid;
use fil_actor_account::State as AccountState;
use fil_actor_cron::{Entry as CronEntry, State as CronState};
use fil_actor_datacap::State as DataCapState;
use fil_actor_init::State as InitState;
use fil_actor_market::{Method as MarketMethod, State as MarketState};
use fil_actor_power::{Method as MethodPower, State as PowerState};
use fil_actor_reward::State as RewardState;
use fil_actor_system::State as SystemState;
use fil_actor_verifreg::State as VerifRegState;
use fil_actors_runtime::runtime::{EMPTY_ARR_CID, Policy};
use fil_actors_runtime::test_utils::*;
use fil_actors_runtime::{
    BURNT_FUNDS_ACTOR_ADDR, CRON_ACTOR_ADDR, DATACAP_TOKEN_ACTOR_ADDR, DEFAULT_HAMT_CONFIG,
    EAM_ACTOR_ADDR, INIT_ACTOR_ADDR, REWARD_ACTOR_ADDR, STORAGE_MARKET_ACTOR_ADDR,
    STORAGE_POWER_ACTOR_ADDR, SYSTEM_ACTOR_ADDR, VERIFIED_REGISTRY_ACTOR_ADDR,
};
use fvm_ipld_encoding::CborStore;
use fvm_ipld_encoding::ipld_block::IpldBlock;
use fvm_ipld_encoding::tuple::*;
use fvm_ipld_hamt::{BytesKey, Hamt, Sha256};
use fvm_shared::address::{Address, Payload};
use fvm_shared::clock::ChainEpoch;
use fvm_shared::econ::TokenAmount;
use fvm_shared::error::ExitCode;
use fvm_shared::sector::StoragePower;
use fvm_shared::{ActorID, METHOD_SEND, MethodNum};
use multihash_codetable::Code;
use num_traits::Zero;
use serde::de::DeserializeOwned;
use serde::ser;
use std::cell::{Cell, RefCell};
use std::collections::{BTreeMap, BTreeSet, HashMap};

#[derive(Serialize_tuple, Deserialize_tuple, Clone, PartialEq, Eq, Debug)]
pub struct ActorState {
    pub code: Cid,
    pub state: Cid,
    pub sequence: u64,
    pub balance: TokenAmount,
    pub delegated_address: Option<Address>,
}

/// How a top-level message enters the VM.
#[derive(Clone, Copy, Debug, PartialEq, Eq)]
pub enum MsgKind {
    /// Sent by an account / ethaccount / EAM placeholder: the only kind users can send.
    External,
    /// Implicit system message (cron tick, block reward): no nonce, any sender.
    Implicit,
    /// The harness plays an *actor* caller at another actor's API seam.
    Impersonated,
}

#[derive(Clone, Debug, PartialEq, Eq)]
pub struct Snapshot {
    pub root: Cid,
    pub epoch: ChainEpoch,
}

type ActorHamt = Hamt<Store, ActorState, BytesKey, Sha256>;

pub const FAUCET_KEY: &[u8] = &[153; fvm_shared::address::BLS_PUB_LEN];
pub const VERIFREG_ROOT_KEY: &[u8] = &[200; fvm_shared::address::BLS_PUB_LEN];
pub const VERIFREG_ROOT_SIGNER_ID: ActorID = 100;
pub const VERIFREG_ROOT_ID: ActorID = 101;
pub const FAUCET_ID: ActorID = 102;
pub const FIRST_TEST_ID: ActorID = 103;

/// Marker making a fake proof invalid (PoSt, seal, aggregate, replica update).
pub const BAD_PROOF: &[u8] = b"BAD";

pub struct Vm {
    pub store: Store,
    pub policy: Policy,
    pub prims: FakePrimitives,
    state_root: RefCell<Cid>,
    hamt: RefCell<Option<ActorHamt>>,
    cache: RefCell<HashMap<ActorID, Option<ActorState>>>,
    dirty: RefCell<BTreeSet<ActorID>>,
    journal: RefCell<Vec<(ActorID, Option<ActorState>)>>,
    epoch: Cell<ChainEpoch>,
    pub circ_supply: RefCell<TokenAmount>,
    /// When false, External messages do not increment the sender nonce (DESIGN §2.2).
    pub bump_nonce: Cell<bool>,
    pub(crate) fault_plan: RefCell<Vec<usize>>,
    pub(crate) send_counter: Cell<usize>,
    pub(crate) new_actor_count: Cell<u64>,
    pub(crate) depth: Cell<u32>,
    /// Exit code returned by an injected send failure.
    pub fault_exit: Cell<ExitCode>,
    /// Code CIDs that are not built-in actors ("foreign" actors: accept anything, do nothing).
    pub foreign_code: Cid,
}

impl Vm {
    fn bare(store: Store, policy: Policy) -> Vm {
        let mut actors = ActorHamt::new_with_config(store.clone(), DEFAULT_HAMT_CONFIG);
        let root = actors.flush().unwrap();
        Vm {
            store,
            policy,
            prims: FakePrimitives::default(),
            state_root: RefCell::new(root),
            hamt: RefCell::new(None),
            cache: RefCell::new(HashMap::new()),
            dirty: RefCell::new(BTreeSet::new()),
            journal: RefCell::new(vec![]),
            epoch: Cell::new(0),
            circ_supply: RefCell::new(TokenAmount::zero()),
            bump_nonce: Cell::new(false),
            fault_plan: RefCell::new(vec![]),
            send_counter: Cell::new(0),
            new_actor_count: Cell::new(0),
            depth: Cell::new(0),
            fault_exit: Cell::new(ExitCode::USR_UNSPECIFIED),
            foreign_code: make_identity_cid(b"verif/foreign"),
        }
    }

    /// A VM handle over an existing store, positioned at `snap`.
    pub fn attach(store: Store, policy: Policy, snap: &Snapshot, circ: TokenAmount) -> Vm {
        let v = Vm::bare(store, policy);
        v.circ_supply.replace(circ);
        v.restore(snap);
        v
    }

    /// Genesis: all singletons, a verifreg root multisig and a faucet holding 1e9 FIL.
    pub fn genesis(store: Store, policy: Policy) -> Vm {
        let reward_total = TokenAmount::from_whole(1_100_000_000i64);
        let faucet_total = TokenAmount::from_whole(1_000_000_000i64);
        let v = Vm::bare(store, policy);
        v.circ_supply.replace(&reward_total + &faucet_total);
        let z = TokenAmount::zero;

        let sys_head = v.put_store(&SystemState::new(&v.store).unwrap());
        v.set_actor(0, Some(actor(*SYSTEM_ACTOR_CODE_ID, sys_head, faucet_total.clone(), None)));
        let init_head = v.put_store(&InitState::new(&v.store, "mcvm".to_string()).unwrap());
        v.set_actor(INIT_ACTOR_ADDR.id().unwrap(), Some(actor(*INIT_ACTOR_CODE_ID, init_head, z(), None)));
        let reward_head = v.put_store(&RewardState::new(StoragePower::zero()));
        v.set_actor(
            REWARD_ACTOR_ADDR.id().unwrap(),
            Some(actor(*REWARD_ACTOR_CODE_ID, reward_head, reward_total, None)),
        );
        let entries = vec![
            CronEntry {
                receiver: STORAGE_POWER_ACTOR_ADDR,
                method_num: MethodPower::OnEpochTickEnd as u64,
            },
            CronEntry {
                receiver: STORAGE_MARKET_ACTOR_ADDR,
                method_num: MarketMethod::CronTick as u64,
            },
        ];
        let cron_head = v.put_store(&CronState { entries });
        v.set_actor(CRON_ACTOR_ADDR.id().unwrap(), Some(actor(*CRON_ACTOR_CODE_ID, cron_head, z(), None)));
        let power_head = v.put_store(&PowerState::new(&v.store).unwrap());
        v.set_actor(
            STORAGE_POWER_ACTOR_ADDR.id().unwrap(),
            Some(actor(*POWER_ACTOR_CODE_ID, power_head, z(), None)),
        );
        let market_head = v.put_store(&MarketState::new(&v.store).unwrap());
        v.set_actor(
            STORAGE_MARKET_ACTOR_ADDR.id().unwrap(),
            Some(actor(*MARKET_ACTOR_CODE_ID, market_head, z(), None)),
        );
        v.flush();

        // verifreg root signer account (id 100) and root multisig (id 101)
        let root_key = Address::new_bls(VERIFREG_ROOT_KEY).unwrap();
        let r = v.apply(MsgKind::Implicit, &SYSTEM_ACTOR_ADDR, &root_key, &z(), METHOD_SEND, None);
        assert!(r.code.is_success());
        assert_eq!(v.resolve(&root_key), Some(VERIFREG_ROOT_SIGNER_ID));
        let ctor = fil_actor_multisig::ConstructorParams {
            signers: vec![Address::new_id(VERIFREG_ROOT_SIGNER_ID)],
            num_approvals_threshold: 1,
            unlock_duration: 0,
            start_epoch: 0,
        };
        let r = v.apply(
            MsgKind::Implicit,
            &SYSTEM_ACTOR_ADDR,
            &INIT_ACTOR_ADDR,
            &z(),
            fil_actor_init::Method::Exec as u64,
            IpldBlock::serialize_cbor(&fil_actor_init::ExecParams {
                code_cid: *MULTISIG_ACTOR_CODE_ID,
                constructor_params: fvm_ipld_encoding::RawBytes::serialize(&ctor).unwrap(),
            })
            .unwrap(),
        );
        assert!(r.code.is_success(), "{:?}", r);
        let ret: fil_actor_init::ExecReturn = r.ret.unwrap().deserialize().unwrap();
        assert_eq!(ret.id_address, Address::new_id(VERIFREG_ROOT_ID));

        let vr_head =
            v.put_store(&VerifRegState::new(&v.store, Address::new_id(VERIFREG_ROOT_ID)).unwrap());
        v.set_actor(
            VERIFIED_REGISTRY_ACTOR_ADDR.id().unwrap(),
            Some(actor(*VERIFREG_ACTOR_CODE_ID, vr_head, z(), None)),
        );
        v.set_actor(
            EAM_ACTOR_ADDR.id().unwrap(),
            Some(actor(*EAM_ACTOR_CODE_ID, EMPTY_ARR_CID, z(), None)),
        );
        let dc_head =
            v.put_store(&DataCapState::new(&v.store, VERIFIED_REGISTRY_ACTOR_ADDR).unwrap());
        v.set_actor(
            DATACAP_TOKEN_ACTOR_ADDR.id().unwrap(),
            Some(actor(*DATACAP_TOKEN_ACTOR_CODE_ID, dc_head, z(), None)),
        );
        let burnt_head = v.put_store(&AccountState { address: BURNT_FUNDS_ACTOR_ADDR });
        v.set_actor(
            BURNT_FUNDS_ACTOR_ADDR.id().unwrap(),
            Some(actor(*ACCOUNT_ACTOR_CODE_ID, burnt_head, z(), None)),
        );
        v.flush();
        let faucet = Address::new_bls(FAUCET_KEY).unwrap();
        let r =
            v.apply(MsgKind::Implicit, &SYSTEM_ACTOR_ADDR, &faucet, &faucet_total, METHOD_SEND, None);
        assert!(r.code.is_success());
        assert_eq!(v.resolve(&faucet), Some(FAUCET_ID));
        v
    }

    pub fn put_store<S: ser::Serialize>(&self, obj: &S) -> Cid {
        self.store.put_cbor(obj, Code::Blake2b256).unwrap()
    }

    // ---------------------------------------------------------------- actor table

    fn with_hamt<R>(&self, f: impl FnOnce(&mut ActorHamt) -> R) -> R {
        let mut h = self.hamt.borrow_mut();
        if h.is_none() {
            *h = Some(
                ActorHamt::load_with_config(
                    &self.state_root.borrow(),
                    self.store.clone(),
                    DEFAULT_HAMT_CONFIG,
                )
                .unwrap(),
            );
        }
        f(h.as_mut().unwrap())
    }

    fn key(id: ActorID) -> BytesKey {
        Address::new_id(id).to_bytes().into()
    }

    pub fn actor(&self, id: ActorID) -> Option<ActorState> {
        if let Some(a) = self.cache.borrow().get(&id) {
            return a.clone();
        }
        let a = self.with_hamt(|h| h.get(&Self::key(id)).unwrap().cloned());
        self.cache.borrow_mut().insert(id, a.clone());
        a
    }

    pub fn set_actor(&self, id: ActorID, a: Option<ActorState>) {
        let old = self.actor(id);
        self.journal.borrow_mut().push((id, old));
        self.cache.borrow_mut().insert(id, a);
        self.dirty.borrow_mut().insert(id);
    }

    pub(crate) fn journal_mark(&self) -> usize {
        self.journal.borrow().len()
    }

    pub(crate) fn journal_unwind(&self, mark: usize) {
        let mut j = self.journal.borrow_mut();
        let mut c = self.cache.borrow_mut();
        while j.len() > mark {
            let (id, old) = j.pop().unwrap();
            c.insert(id, old);
        }
    }

    /// Persist the dirty actors; returns the new state root.
    pub fn flush(&self) -> Cid {
        let dirty: Vec<ActorID> = std::mem::take(&mut *self.dirty.borrow_mut()).into_iter().collect();
        self.journal.borrow_mut().clear();
        if dirty.is_empty() {
            return *self.state_root.borrow();
        }
        let cache = self.cache.borrow();
        let root = self.with_hamt(|h| {
            for id in dirty {
                match cache.get(&id).unwrap() {
                    Some(a) => {
                        h.set(Self::key(id), a.clone()).unwrap();
                    }
                    None => {
                        h.delete(&Self::key(id)).unwrap();
                    }
                }
            }
            h.flush().unwrap()
        });
        self.state_root.replace(root);
        root
    }

    pub fn snapshot(&self) -> Snapshot {
        Snapshot { root: self.flush(), epoch: self.epoch.get() }
    }

    pub fn restore(&self, s: &Snapshot) {
        self.cache.borrow_mut().clear();
        self.dirty.borrow_mut().clear();
        self.journal.borrow_mut().clear();
        if *self.state_root.borrow() != s.root {
            self.state_root.replace(s.root);
            self.hamt.replace(None);
        }
        self.epoch.set(s.epoch);
    }

    pub fn epoch(&self) -> ChainEpoch {
        self.epoch.get()
    }
    pub fn set_epoch(&self, e: ChainEpoch) {
        self.epoch.set(e)
    }

    pub fn actor_states(&self) -> BTreeMap<ActorID, ActorState> {
        self.flush();
        let mut m = BTreeMap::new();
        self.with_hamt(|h| {
            h.for_each(|k, v| {
                let a = Address::from_bytes(&k.0).unwrap();
                m.insert(a.id().unwrap(), v.clone());
                Ok(())
            })
            .unwrap()
        });
        m
    }

    pub fn balance(&self, id: ActorID) -> TokenAmount {
        self.actor(id).map(|a| a.balance).unwrap_or_default()
    }

    pub fn total_balance(&self) -> TokenAmount {
        self.actor_states().values().map(|a| a.balance.clone()).sum()
    }

    pub fn resolve(&self, a: &Address) -> Option<ActorID> {
        if let Payload::ID(id) = a.payload() {
            return Some(*id);
        }
        let st: InitState = self.state_of(INIT_ACTOR_ADDR.id().unwrap())?;
        st.resolve_address(&self.store, a).unwrap().and_then(|a| a.id().ok())
    }

    pub fn state_of<T: DeserializeOwned>(&self, id: ActorID) -> Option<T> {
        let a = self.actor(id)?;
        self.store.get_cbor::<T>(&a.state).ok().flatten()
    }

    pub fn actor_type(&self, id: ActorID) -> Option<fil_actors_runtime::runtime::builtins::Type> {
        self.actor(id).and_then(|a| ACTOR_TYPES.get(&a.code).cloned())
    }

    // ---------------------------------------------------------------- messages

    pub fn set_fault_plan(&self, plan: &[usize]) {
        self.fault_plan.replace(plan.to_vec());
    }

    /// Execute one top-level message against the real actor code. Never panics on actor
    /// misbehaviour: aborts and panics are reported in the returned trace.
    pub fn apply(
        &self,
        kind: MsgKind,
        from: &Address,
        to: &Address,
        value: &TokenAmount,
        method: MethodNum,
        params: Option<IpldBlock>,
    ) -> Inv {
        let reject = |code: ExitCode, why: &str| Inv {
            from: from.id().unwrap_or(u64::MAX),
            to: *to,
            method,
            value: value.clone(),
            params: None,
            code,
            ret: None,
            subs: vec![],
            events: vec![],
            read_only: false,
            injected: false,
            panicked: false,
            send_index: None,
            msg: why.to_string(),
        };
        let Some(from_id) = self.resolve(from) else {
            return reject(ExitCode::SYS_SENDER_INVALID, "sender not found");
        };
        let Some(mut a) = self.actor(from_id) else {
            return reject(ExitCode::SYS_SENDER_INVALID, "sender not found");
        };
        let call_seq = a.sequence;
        if kind == MsgKind::External {
            let ok = a.code == *ACCOUNT_ACTOR_CODE_ID
                || a.code == *ETHACCOUNT_ACTOR_CODE_ID
                || (a.code == *PLACEHOLDER_ACTOR_CODE_ID
                    && matches!(a.delegated_address.map(|d| d.payload().clone()),
                        Some(Payload::Delegated(d)) if d.namespace() == EAM_ACTOR_ADDR.id().unwrap()));
            if !ok {
                return reject(ExitCode::SYS_SENDER_INVALID, "sender is not an account");
            }
            let mut changed = false;
            if self.bump_nonce.get() {
                a.sequence += 1;
                changed = true;
            }
            if a.code == *PLACEHOLDER_ACTOR_CODE_ID {
                a.code = *ETHACCOUNT_ACTOR_CODE_ID;
                changed = true;
            }
            if changed {
                self.set_actor(from_id, Some(a));
            }
        }
        let mark = self.journal_mark();
        self.send_counter.set(0);
        self.new_actor_count.set(0);
        self.depth.set(0);
        let top = TopCtx { originator_stable_addr: *from, originator_id: from_id, originator_call_seq: call_seq };
        let msg = InternalMessage { from: from_id, to: *to, value: value.clone(), method, params };
        let mut ctx = InvocationCtx::new(self, top, msg, false);
        let res = ctx.invoke();
        let inv = ctx.gather_trace(res, None, false);
        if !inv.code.is_success() {
            self.journal_unwind(mark);
        }
        self.fault_plan.borrow_mut().clear();
        self.flush();
        inv
    }

    /// Run the implicit end-of-epoch cron message at the current epoch and advance the clock.
    pub fn tick(&self) -> Inv {
        let inv = self.apply(
            MsgKind::Implicit,
            &SYSTEM_ACTOR_ADDR,
            &CRON_ACTOR_ADDR,
            &TokenAmount::zero(),
            fil_actor_cron::Method::EpochTick as u64,
            None,
        );
        self.epoch.set(self.epoch.get() + 1);
        inv
    }

    /// Create a secp/bls-keyed account funded from the faucet; returns (id, key address).
    pub fn new_account(&self, seed: u8, balance: &TokenAmount) -> (ActorID, Address) {
        let mut key = [0u8; fvm_shared::address::BLS_PUB_LEN];
        key[0] = seed;
        key[1] = 0xAC;
        let addr = Address::new_bls(&key).unwrap();
        let r = self.apply(
            MsgKind::Implicit,
            &Address::new_id(FAUCET_ID),
            &addr,
            balance,
            METHOD_SEND,
            None,
        );
        assert!(r.code.is_success(), "{:?}", r);
        (self.resolve(&addr).unwrap(), addr)
    }

    /// Install an actor with a non-built-in code CID (for caller-class matrices).
    pub fn install_foreign(&self, id: ActorID, balance: TokenAmount) {
        self.set_actor(id, Some(actor(self.foreign_code, EMPTY_ARR_CID, balance, None)));
        self.flush();
    }
}

pub fn actor(code: Cid, state: Cid, balance: TokenAmount, delegated: Option<Address>) -> ActorState {
    ActorState { code, state, sequence: 0, balance, delegated_address: delegated }
}

/// The fake signature scheme (trusted base): valid iff `sig == blake2b(signer-key-address ‖ msg)`.
pub fn fake_sign(signer_key_addr: &Address, msg: &[u8]) -> Vec<u8> {
    let mut st = blake2b_simd::Params::new().hash_length(32).to_state();
    st.update(&signer_key_addr.to_bytes());
    st.update(msg);
    st.finalize().as_bytes().to_vec()
}

/// Encode a fake "consensus fault proof" for `verify_consensus_fault`.
pub fn fake_fault_header(target: ActorID, epoch: ChainEpoch, ty: u8) -> Vec<u8> {
    let mut v = b"CF".to_vec();
    v.extend_from_slice(&target.to_be_bytes());
    v.extend_from_slice(&epoch.to_be_bytes());
    v.push(ty);
    v
}

impl Vm {
    pub fn prims_hash(&self, data: &[u8]) -> [u8; 32] {
        use fil_actors_runtime::runtime::Primitives;
        self.prims.hash_blake2b(data)
    }
}
